#!/usr/bin/env python3
"""tools/add_fixed.py <property> <commit> <what> <config> <input>...   - appends a 'fixed' entry to known_findings.json"""
import json, subprocess, sys
prop, commit, what, config = sys.argv[1:5]
inputs = [bytes(a, "utf-8").decode("unicode_escape") for a in sys.argv[5:]]
full = subprocess.check_output(["git", "-C", "/repo", "rev-parse", commit], text=True).strip()
k = json.load(open("/verif/known_findings.json"))
k["entries"].append({"status": "fixed", "property": prop, "id": "%s-fixed-%s" % (prop, full[:7]), "commit": full, "what": what,
                     "witness": {"config": config, "inputs": inputs},
                     "line": "fixed: property=%s %s %s" % (prop, full[:12], what)})
json.dump(k, open("/verif/known_findings.json", "w"), indent=1, ensure_ascii=False)
print("ok", len(k["entries"]))
