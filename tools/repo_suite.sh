#!/bin/bash
# Runs goldmark's own suite with the verif guard OFF and prints the number of passed tests
# (BASELINE.json expects 708 stable passes, no failures).
export GOFLAGS=-mod=mod GOPROXY=off GOSUMDB=off GOTOOLCHAIN=local
# the three wall-clock tests of the root package scale their limit by this variable; a loaded machine is not a failing change
export GOLDMARK_TEST_TIMEOUT_MULTIPLIER="${GOLDMARK_TEST_TIMEOUT_MULTIPLIER:-${SUITE_TIMEOUT_MULTIPLIER:-1}}"
cd "${VERIF_REPO:-/repo}" || exit 2
out=$(go test -mod=mod -json -vet=off -count=1 -timeout 25m ./... 2>&1)
pass=$(printf '%s\n' "$out" | grep -c '"Action":"pass","Package":"[^"]*","Test"')
fail=$(printf '%s\n' "$out" | grep -c '"Action":"fail"')
echo "passed_tests=$pass fail_events=$fail"
if [ "$fail" != 0 ]; then printf '%s\n' "$out" | grep '"Action":"fail"' | head; printf '%s\n' "$out" | grep -i '"Output"' | grep -iv '=== RUN\|--- PASS\|^ok' | tail -40; exit 1; fi
[ "$pass" -ge 708 ] || exit 1
