#!/usr/bin/env python3
"""Regenerates the seeded-change tables of DESIGN.md section 7 (between the seeded-table markers) from seeded/*/meta.json."""
import subprocess, re
t = subprocess.check_output(["python3", "/verif/tools/seeded_table.py"], text=True)
t = "\n".join("   " + l if l else l for l in t.splitlines())
p = "/verif/DESIGN.md"
s = open(p).read()
a, b = "   <!-- seeded-table-begin -->", "   <!-- seeded-table-end -->"
i, j = s.index(a), s.index(b)
s = s[:i + len(a)] + "\n" + t + "\n" + s[j:]
open(p, "w").write(s)
print("tables updated")
