#!/bin/bash
# tools/seed_sweep.sh <tier> <seed>...   - every check at the given seeds; one line per run
cd "$(dirname "$0")/.."
tier="$1"; shift
cd harness && cp /repo/go.sum go.sum; cd ..
for s in "$@"; do
  for i in 01 02 03 04 05 06 07 08 09 10 11 12 13 14 15 16 17 18 19 20; do
    t0=$(date +%s); out=$(VERIF_SEED=$s ./check C$i --tier $tier 2>&1); rc=$?
    echo "seed=$s C$i rc=$rc $(( $(date +%s)-t0 ))s :: $(echo "$out" | grep -E 'VIOLATION|INCONCLUSIVE|NOTE' | head -3 | cut -c1-300)"
  done
done
