#!/bin/bash
# tools/mutant.sh <name> <patch-file|-R:commit> <id> [<id>...]
# Validates monitors against a seeded change: makes a scratch worktree of /repo under /tmp/vmut/<name>,
# applies the patch (or reverts the given commit with "-R:<sha>"), runs the quick tier of the given checks
# against it with all outputs redirected to the scratch directory, prints each check's exit status, and
# removes the worktree and its outputs.  /repo and /verif/evidence are not touched.
set -u
name="$1"; patch="$2"; shift 2
tier="${MUT_TIER:-quick}"
d=/tmp/vmut/$name
rm -rf "$d"; mkdir -p /tmp/vmut
git -C /repo worktree prune
git -C /repo worktree add -q --detach "$d/repo" HEAD || exit 2
case "$patch" in
  -R:*) (cd "$d/repo" && git revert -n "${patch#-R:}" >/dev/null 2>&1) || { echo "revert failed"; git -C /repo worktree remove --force "$d/repo"; exit 2; } ;;
  *) (cd "$d/repo" && (git apply "$patch" 2>/dev/null || git apply -3 "$patch")) || { echo "apply failed"; git -C /repo worktree remove --force "$d/repo"; exit 2; } ;;
esac
rc_all=0
for id in "$@"; do
  out=$(VERIF_REPO="$d/repo" VERIF_OUT="$d/out" /verif/check "$id" --tier "$tier" 2>&1); rc=$?
  nv=$(printf '%s\n' "$out" | grep -c '^VIOLATION')
  echo "== mutant=$name check=$id exit=$rc violation_lines=$nv"
  printf '%s\n' "$out" | grep -v '^  ' | head -${MUT_LINES:-6}
  if [ "${MUT_VERBOSE:-0}" = 1 ]; then printf '%s\n' "$out" | head -60; fi
done
git -C /repo worktree remove --force "$d/repo"
rm -rf "$d"
