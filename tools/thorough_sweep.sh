#!/bin/bash
# run thorough tier for the given ids sequentially
cd harness && cp /repo/go.sum go.sum; cd ..
for id in "$@"; do s=$(date +%s); out=$(./check $id --tier thorough 2>&1); rc=$?; echo "$id rc=$rc $(( $(date +%s)-s ))s :: $(echo "$out" | grep -E 'VIOLATION|INCONCLUSIVE|KNOWN|HELD' | tail -5 | cut -c1-300)"; done
