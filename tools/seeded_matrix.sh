#!/bin/bash
# tools/seeded_matrix.sh [dir...]   - for every seeded change: does the patch still apply to /repo HEAD, does the demo
# fail with it and pass without it, and which checks (quick tier) report it?  Output: one line per change.
# Everything happens in scratch worktrees under /tmp/vmut; /repo and /verif/evidence are not touched.
set -u
export GOFLAGS=-mod=mod GOPROXY=off GOSUMDB=off GOTOOLCHAIN=local
V=$(cd "$(dirname "$0")/.." && pwd)
cd "$V"
dirs=("$@"); [ ${#dirs[@]} -gt 0 ] || dirs=(seeded/C*/)
for sd in "${dirs[@]}"; do
  sd=${sd%/}; name=$(basename "$sd"); prop=${name%%-*}
  d=/tmp/vmut/m-$name
  rm -rf "$d"; mkdir -p /tmp/vmut; git -C /repo worktree prune
  git -C /repo worktree add -q --detach "$d/repo" HEAD || { echo "$name worktree-failed"; continue; }
  cp "$sd/demo_test.go" "$d/repo/zz_seeded_demo_test.go"
  clean=$(cd "$d/repo" && go test -vet=off -count=1 -run 'Demo|Seeded|C[0-9][0-9]' . >/dev/null 2>&1; echo $?)
  if ! (cd "$d/repo" && (git apply "$V/$sd/patch.diff" 2>/dev/null || git apply -3 "$V/$sd/patch.diff" >/dev/null 2>&1)); then
    echo "$name patch=DOES-NOT-APPLY"; git -C /repo worktree remove --force "$d/repo"; rm -rf "$d"; continue
  fi
  mut=$(cd "$d/repo" && go test -vet=off -count=1 -run 'Demo|Seeded|C[0-9][0-9]' . >/dev/null 2>&1; echo $?)
  rm -f "$d/repo/zz_seeded_demo_test.go"
  checks="${CHECKS:-$prop}"
  res=""
  for id in $checks; do
    out=$(VERIF_REPO="$d/repo" VERIF_OUT="$d/out" timeout 1500 "$V/check" "$id" --tier "${MUT_TIER:-quick}" 2>&1); rc=$?
    res="$res $id=$rc"
  done
  echo "$name patch=ok demo_clean=$clean demo_mutant=$mut checks:$res"
  git -C /repo worktree remove --force "$d/repo"; rm -rf "$d"
done
