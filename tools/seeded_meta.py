#!/usr/bin/env python3
"""Writes seeded/<id>/meta.json from notes.md and the lines printed by tools/seeded_matrix.sh (file given as argv[1])."""
import json, os, re, sys, subprocess
res = {}
if len(sys.argv) > 1:
    for line in open(sys.argv[1]):
        m = re.match(r'(\S+) patch=(\S+)(?: demo_clean=(\d+) demo_mutant=(\d+) checks:(.*))?', line.strip())
        if m:
            e = res.setdefault(m.group(1), {"checks": {}})
            e.update({"patch": m.group(2), "demo_clean": m.group(3), "demo_mutant": m.group(4)})
            e["checks"].update(dict(x.split("=") for x in (m.group(5) or "").split()))
resp = {}
rp = "/verif/seeded/responses.json"
if os.path.exists(rp):
    resp = json.load(open(rp))
head = subprocess.check_output(["git", "-C", "/repo", "rev-parse", "HEAD"], text=True).strip()
for name in sorted(os.listdir("/verif/seeded")):
    d = os.path.join("/verif/seeded", name)
    if not os.path.isdir(d) or name.startswith("_"): continue
    notes = open(os.path.join(d, "notes.md")).read() if os.path.exists(os.path.join(d, "notes.md")) else ""
    lines = [l for l in notes.splitlines() if l.strip()]
    summary = lines[0].lstrip("# ").strip() if lines else ""
    need = ""
    m = re.search(r'(?im)^\**\s*(?:what is )?needed to manifest\**\s*:?\**\s*(.*?)(?=\n\s*\n|\n\**(?:demo|why|works|independent)|\Z)', notes, re.S)
    if m: need = " ".join(m.group(1).split())
    old = {}
    mp = os.path.join(d, "meta.json")
    if os.path.exists(mp):
        try: old = json.load(open(mp))
        except Exception: old = {}
    r = res.get(name)
    meta = {
        "id": name,
        "property": name.split("-")[0],
        "origin": old.get("origin", "written by a fresh sub-agent that was given only the property text and its own scratch worktree of /repo"),
        "summary": summary,
        "needs_to_manifest": need or old.get("needs_to_manifest", "see notes.md"),
        "files": {"patch": "patch.diff", "demonstration": "demo_test.go (package goldmark_test, placed in the repository root)", "notes": "notes.md"},
        "confirmed_by_me": old.get("confirmed_by_me", {
            "how": "tools/confirm_seeded.sh: scratch worktree of /repo, demonstration passes on the clean tree, patch applies and builds, demonstration fails with the patch, goldmark's own suite still has 708 passes and no failure with the patch",
        }),
    }
    if r:
        meta["rechecked_at_repo_head"] = {"repo_head": head, "patch_applies": r["patch"] == "ok",
            "demo_exit_clean_tree": r["demo_clean"], "demo_exit_with_change": r["demo_mutant"],
            "how": "tools/seeded_matrix.sh (scratch worktree; quick tier of the listed checks with VERIF_REPO pointing at the patched copy)"}
        det = dict(old.get("detected_by", {}))  # checks of other properties recorded in earlier runs stay
        det.update({k: ("VIOLATION (exit 1)" if v == "1" else "not reported (exit %s)" % v) for k, v in r["checks"].items()})
        meta["detected_by"] = det
    elif "detected_by" in old:
        meta["rechecked_at_repo_head"] = old.get("rechecked_at_repo_head"); meta["detected_by"] = old["detected_by"]
    if name in resp:
        meta["history"] = resp[name]
    elif "history" in old:
        meta["history"] = old["history"]
    if not r and "detected_by" not in meta and "detected_by" in old:
        meta["detected_by"] = old["detected_by"]
    json.dump(meta, open(mp, "w"), indent=1, ensure_ascii=False)
print("ok")
