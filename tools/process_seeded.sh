#!/bin/bash
# tools/process_seeded.sh <property> <letter>...  - confirm a sub-agent's change (tools/confirm_seeded.sh) and run the
# property's quick check against it (tools/seeded_matrix.sh); prints one matrix line per kept change.
cd "$(dirname "$0")/.."
prop="$1"; shift
for let in "$@"; do
  if tools/confirm_seeded.sh "$prop" "$let" "/tmp/wtout/$prop" > "/tmp/wtout/$prop/$let.confirm.txt" 2>&1; then
    tools/seeded_matrix.sh "seeded/$prop-$let" | tee -a /tmp/matrix_round.txt
  else
    echo "$prop-$let NOT CONFIRMED: $(grep RESULT /tmp/wtout/$prop/$let.confirm.txt)"
  fi
done
