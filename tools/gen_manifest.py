#!/usr/bin/env python3
"""Generates /verif/MANIFEST.json from the table below (one entry per claimed property)."""
import json, os, sys, subprocess

ENV = "GOFLAGS=-mod=mod GOPROXY=off GOSUMDB=off GOTOOLCHAIN=local"

def hook_commits():
    try:
        out = subprocess.check_output(["git", "-C", "/repo", "log", "--format=%H %s"], text=True)
        return [l.split()[0] for l in out.splitlines() if l.split(" ", 1)[1].startswith("verif hooks")]
    except Exception:
        return []

CHECKS = {}
def check(pid, category, text, note, technique, design):
    CHECKS[pid] = dict(category=category, text=text, note=note, technique=technique, design=design)

exec(open(os.path.join(os.path.dirname(__file__), "manifest_table.py")).read())

ALL = ["C%02d" % i for i in range(1, 21)]
m = {
    "version": 1,
    "setup_cmd": "cd /verif/harness && (cp /repo/go.sum go.sum 2>/dev/null || : > go.sum) && %s go build -tags verif -o ../bin/vcheck ./cmd/vcheck && %s go build -race -tags verif -o ../bin/vcheck-race ./cmd/vcheck && %s go test -tags verif ./oracle/ ./core/ ./wl/ ./sg/ ./props/ && %s go test -tags verif -c -fuzz '^FuzzProp$' -o ../bin/fz.test ./fz" % (ENV, ENV, ENV, ENV),
    "hooks": {
        "guard": "verif",
        "enable": "go build -tags verif (the check wrapper ./check always builds the harness, and goldmark through its replace directive, with -tags verif)",
        "baseline_off_cmd": "cd /repo && %s go test -mod=mod -json -vet=off -count=1 -timeout 25m ./..." % ENV,
        "source_commits": hook_commits(),
        "add_only": True,
    },
    "engines": [
        {"name": "vcheck", "path": "/verif/harness", "serves_properties": sorted(CHECKS.keys()),
         "kind_free_text": "Go driver + worker processes: PRNG-determined workloads executed against the real goldmark code under per-property oracles (invariant walkers, reference models in lock-step, metamorphic relations, strict output tokenizer, mprotect write-sanitizer, Go race detector); one OS process per shard, crash slot, isolated replay; for the input-quantified properties the same per-case oracles also run under Go's coverage-guided fuzzing engine (harness/fz)"},
    ],
    "checks": [],
    "not_applicable": [],
    "notes": "All checks are run as ./check <id> --tier quick|thorough from /verif; they rebuild the harness and goldmark (replace => /repo) from /repo's current working tree with -tags verif on every invocation. Exit 0 held, 1 violation (VIOLATION line), 2 inconclusive (INCONCLUSIVE line; never folded into held). Known findings: /verif/known_findings.json.",
}
SERVED = ["C01", "C03", "C04", "C05", "C06", "C08", "C10", "C11", "C12", "C15", "C16", "C17"]
for pid in ALL:
    if pid in CHECKS:
        c = CHECKS[pid]
        if pid in SERVED:
            c["text"] += (" The per-case oracle additionally runs over (a) a committed corpus of 16 000 inputs distilled from coverage-guided campaigns, (b) scalable input families at boundary sizes, "
                          "and (c) a fixed number of executions of Go's coverage-guided fuzzing engine started from those seeds (150 000 quick, 30 000 000 thorough).")
            c["technique"] += "; the same oracle under Go's coverage-guided fuzzing engine and over a coverage-distilled corpus"
        m["checks"].append({
            "property_id": pid,
            "quick_cmd": "./check %s --tier quick" % pid,
            "thorough_cmd": "./check %s --tier thorough" % pid,
            "evidence_file": "/verif/evidence/%s.json" % pid,
            "replay_cmd_template": "./check %s --replay {path}" % pid,
            "engine": "vcheck",
            "level_claimed": {"category": c["category"], "text": c["text"], "design_ref": c["design"]},
            "level_note": c["note"],
            "technique": c["technique"],
        })
    else:
        m["not_applicable"].append({"property_id": pid, "reason": "not claimed yet: the monitor for this property is still being built (see DESIGN.md section 4); runtime monitoring does apply to it"})
json.dump(m, open("/verif/MANIFEST.json", "w"), indent=1)
print("claimed:", sorted(CHECKS.keys()))
