#!/bin/bash
# tools/fuzz_campaign.sh <seconds-per-property> <parallel> <cachedir> [prop...]
# Long coverage-guided campaigns (one per property oracle, each with its own corpus cache directory).  Not a check:
# what it finds is distilled into harness/wl/covcorpus.bin.gz by harness/cmd/distill and then replayed by the checks.
set -u
export GOFLAGS=-mod=mod GOPROXY=off GOSUMDB=off GOTOOLCHAIN=local
V=$(cd "$(dirname "$0")/.." && pwd)
secs="$1"; par="$2"; cache="$3"; shift 3
props=("$@"); [ ${#props[@]} -gt 0 ] || props=(C01 C05 C03 C04 C10 C08 C11 C12 C06 C15 C16 C17)
cd "$V/harness" || exit 2
[ -f go.sum ] || cp /repo/go.sum go.sum
mkdir -p "$cache"
go test -tags verif -c -fuzz '^FuzzProp$' -o "$cache/fz.test" ./fz || exit 2
for p in "${props[@]}"; do
  mkdir -p "$cache/$p" "$cache/run-$p"
  ( cd "$cache/run-$p" && VERIF_FUZZ_PROP=$p timeout $((secs+120)) "$cache/fz.test" -test.run '^$' -test.fuzz '^FuzzProp$' -test.fuzzcachedir "$cache/$p" \
      -test.fuzztime "${secs}s" -test.parallel "$par" 2>&1 | tail -4 )
  echo "== $p: $(find "$cache/$p" -type f | wc -l) corpus entries; crashers: $(ls "$cache/run-$p/testdata/fuzz/FuzzProp" 2>/dev/null | wc -l)"
done
