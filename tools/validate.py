#!/usr/bin/env python3-vt
"""Validates MANIFEST.json and every evidence file against the given schemas."""
import json, glob, sys, jsonschema
ok = True
m = json.load(open('/verif/MANIFEST.json')); s = json.load(open('/root/.vp/MANIFEST.schema.json'))
jsonschema.validate(m, s); print("MANIFEST ok; claimed:", [c['property_id'] for c in m['checks']])
es = json.load(open('/root/.vp/EVIDENCE.schema.json'))
for c in m['checks']:
    f = c['evidence_file']
    try:
        e = json.load(open(f)); jsonschema.validate(e, es)
        print(" ", f, "ok", e['tier'], "evals", e['coverage'].get('evaluations'), "distinct", e['coverage'].get('distinct_nontrivial'), "wall", round(e['wall_s'],1), "viol", e.get('violations'))
    except Exception as ex:
        ok = False; print(" ", f, "INVALID:", str(ex)[:300])
sys.exit(0 if ok else 1)
