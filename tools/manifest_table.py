check("C01", "exploration",
      "Runtime monitoring of totality: every execution of Parse+Render / Convert runs under recover() in worker processes with a crash slot; "
      "held = no panic, no error, no fatal runtime error and no CPU-limit overrun on all cases of the run (exhaustive short strings x configurations, soup, corpus mutants, pathological families).",
      "Trusted: Go's recover()/runtime, the driver's crash-slot replay. Says nothing about inputs not generated; termination is bounded-CPU on an isolated replay, not a proof.",
      "runtime monitoring: panic/error/fatal/CPU-limit oracle over exhaustive-short + randomized + pathological workloads across the 288-configuration lattice",
      "DESIGN.md section 4 / C01")
