check("C01", "exploration",
      "Runtime monitoring of totality: every execution of Parse+Render / Convert runs under recover() in worker processes with a crash slot; "
      "held = no panic, no error, no fatal runtime error and no CPU-limit overrun on all cases of the run (exhaustive short strings x configurations, soup, corpus mutants, pathological families, extensions built with non-default options).",
      "Trusted: Go's recover()/runtime, the driver's crash-slot replay. Says nothing about inputs not generated; termination is bounded-CPU on an isolated replay, not a proof.",
      "runtime monitoring: panic/error/fatal/CPU-limit oracle over exhaustive-short + randomized + pathological + coverage-guided workloads across the 288-configuration lattice and option-bearing configurations",
      "DESIGN.md section 4 / C01")
check("C13", "exploration",
      "Reference-model monitoring: every ast mutation call runs in lock-step with a list-of-children model and all accessors of all pool nodes are compared after each call; "
      "all call sequences up to length 2 (quick) / 3 (thorough) over a 6-node pool are enumerated, plus long random sequences (including a comparator that itself sorts another parent) and Walk visitor scripts against a model walker, on small trees exhaustively and on deep and wide trees at boundary sizes.",
      "Trusted: the 60-line list model and model walker (written from the interface documentation). Sequences longer than the exhaustive bound are sampled only.",
      "runtime monitoring: lock-step reference model (list-of-children tree, model walker) over exhaustive short and random long call sequences",
      "DESIGN.md section 4 / C13")
check("C18", "exploration",
      "Reference-model monitoring: text.Reader and text.BlockReader execute call sequences in lock-step with a concatenated-view cursor model; every return value and the final observable state are compared; "
      "exhaustive over short sources x short call sequences, random beyond, and long sources whose line count sits at every boundary size with several saved positions and far jumps; Segment arithmetic compared with byte-level definitions.",
      "Trusted: the reference cursor (about 100 lines) and the generator's encoding of the documented preconditions (listed in the evidence assumptions).",
      "runtime monitoring: lock-step reference cursor over exhaustive short and random call sequences",
      "DESIGN.md section 4 / C18")
check("C19", "exploration",
      "Law monitoring: each utility is executed on every short string over a law-relevant alphabet and on random longer strings, and its output is checked by an oracle for each stated law "
      "(round trip through html.UnescapeString, relational unit alignment for URLEscape, reference decoders, fold-orbit equivalence over all code points, a map-based set model for BytesFilter trees with computed slot collisions and keys that share the full 64-bit hash and length).",
      "Trusted: html.UnescapeString, unicode.SimpleFold tables, the small reference decoders. Strings longer than the exhaustive bound are sampled.",
      "runtime monitoring: algebraic-law oracles over exhaustive short strings, all Unicode fold orbits and enumerated filter programs",
      "DESIGN.md section 4 / C19")
check("C20", "exploration",
      "Trace monitoring: probe block/inline parsers, transformers and node renderers log their invocations; for every enumerated scenario (priorities x registration order x route x accept pattern) "
      "the recorded invocation order and the chosen renderer are compared with a priority-sorted dispatch model; kinds without renderer function (incl. kinds created after initialisation) must be skipped with children rendered; pairs of instances built from one shared registration list (through goldmark.New options and through a caller-built Parser/Renderer) must each follow their own priorities.",
      "Trusted: the dispatch model (sorted-by-priority, first accept wins, trigger-less after triggered). Equal priorities are excluded because their order is undocumented.",
      "runtime monitoring: invocation-log checker against a priority dispatch model over enumerated registration scenarios",
      "DESIGN.md section 4 / C20")
check("C03", "exploration",
      "Output monitoring: every safe-mode output of the run is parsed by a strict tokenizer written from the statement (fixed vocabulary, quoted values, no raw '<', well-formed references, only the placeholder comment, proper nesting); "
      "XHTML outputs are additionally parsed by encoding/xml in strict mode. Adversarial soup, exhaustive short adversarial strings, corpus mutants and attribute blocks (allowed names, names that collide with an allowed name under the allow-list's hash, hostile values) across all 144 safe configurations and the option-bearing ones.",
      "Trusted: the tokenizer and vocabulary tables (oracle/htmltok.go), encoding/xml with the HTML entity set. Inputs not generated are not covered.",
      "runtime monitoring: strict output tokenizer + XML parser as oracles over adversarial and exhaustive-short workloads in every safe configuration",
      "DESIGN.md section 4 / C03")
check("C04", "exploration",
      "Output monitoring: every href/src emitted in safe mode is decoded and normalised the way a browser's URL parser finds the scheme, then tested against the dangerous schemes; "
      "the workload spells the four schemes with every escaping device in every URL-bearing construct across the safe configurations; each document first passes through the unsafe twin of the configuration in the same process.",
      "Trusted: the tokenizer, html.UnescapeString, the 20-line browser-like normaliser (leading C0/space stripped, TAB/LF/CR removed, percent escapes not decoded).",
      "runtime monitoring: browser-like URL normaliser as oracle over a URL-spelling generator x URL-bearing constructs x safe configurations",
      "DESIGN.md section 4 / C04")
check("C05", "exploration",
      "Invariant monitoring: every tree returned by Parse is walked through accessors and every structural, placement and position invariant of the statement is asserted on every node; "
      "exhaustive short strings, soup, corpus mutants and scalable families (nesting, long runs, n footnotes/definitions/table cells in orders that make the count matter) at boundary sizes across the 36 parser-side configurations and option-bearing ones.",
      "Trusted: the walker (oracle/astwalk.go). Only trees produced by the run's inputs are covered.",
      "runtime monitoring: AST invariant walker (assertions on the returned tree) over exhaustive-short and randomized inputs x parser-side configurations",
      "DESIGN.md section 4 / C05")
check("C14", "fault_enumeration",
      "Fault injection at the only fault surface (the caller's io.Writer): for each document every byte offset at which the writer can start failing is enumerated (completely for outputs <= 2048 bytes, boundary-biased beyond), "
      "for seven writer variants; oracle: no panic, non-nil error wrapping the injected one, accepted bytes are a prefix of the fault-free output; plus a node renderer failing at the n-th node.",
      "Trusted: the failing writers of the harness. Documents are sampled; offsets are complete only for outputs up to 2048 bytes.",
      "runtime monitoring with fault injection: enumeration of writer fault offsets x writer variants, prefix/error oracle",
      "DESIGN.md section 4 / C14")
check("C06", "exploration",
      "History monitoring: Convert/Parse/Render(k times) histories on long-lived shared instances; every operation is compared with the recorded output of a fresh instance (the sequential specification is a stateless function, so per-operation comparison is the complete history check), "
      "Convert with Parse+Render, every re-render with the first, accessor-level tree snapshots before/after Render; reference outputs are recorded while configurations are instantiated one by one (worker-specific order) and re-checked at the end, which exposes leaks between instances.",
      "Trusted: the snapshot function (oracle/snapshot.go). Histories and documents are sampled; 24 of the 288 configurations take part.",
      "runtime monitoring: history checker against a stateless sequential specification + tree snapshot comparison, over randomized call histories",
      "DESIGN.md section 4 / C06")
check("C07", "exploration",
      "Go race detector over concurrent-first-use rounds on fresh shared instances (24 worker processes: GOMAXPROCS 1/2/4/16 x repetitions), with a synchronisation-free yield/spin hook inside goldmark's lazy initialisers; "
      "any race report with a goldmark frame, any fatal runtime error, and any output differing from the sequential output is a violation. Overlap is measured from goroutine-local timestamps; a run without overlapping calls is inconclusive.",
      "Trusted: the Go race detector and runtime. Happens-before detection flags executed conflicting accesses irrespective of timing, but only on paths the rounds execute.",
      "runtime monitoring: Go race detector (-race build) + output comparison under stress rounds with injected yields across GOMAXPROCS values",
      "DESIGN.md section 4 / C07")
check("C12", "exploration",
      "Hardware write sanitizer: the source (and 0/1/64 bytes of spare capacity) lives in an mprotect'ed read-only mapping while Parse, Render, Convert, AST accessor sweeps and the util transformers run; a store is observed as a page fault (SetPanicOnFault) with the faulting offset and stack; "
      "a canary pass on writable memory names changed bytes. A self-test store must fault or the run is inconclusive.",
      "Trusted: the MMU/mprotect and Go's SetPanicOnFault. Only executed paths are covered.",
      "runtime monitoring: mprotect-based write sanitizer (page-fault oracle) + canary diff over exhaustive-short and randomized inputs",
      "DESIGN.md section 4 / C12")
check("C08", "exploration",
      "Metamorphic monitoring: every TAB/CR-free non-blank document D is converted as is and with '> ' put before every line (n = 1..4 times) on the same instance; the prefixed output must equal n blockquote wrappers around D's output byte for byte; "
      "for the TAB/CR-free spec examples the inner side is spec.json's HTML, not goldmark's. Exhaustive short strings, line/token soup, corpus mutants x {core, GFM} x {safe, unsafe, unsafe+XHTML}.",
      "Trusted: the relation itself (CommonMark 5.1 basic case). Documents not generated are not covered; coverage floors require every block kind and all 7 HTML block types inside the quote.",
      "runtime monitoring: metamorphic relation (block-quote prefix homomorphism) between executions of the real converter, plus spec.json as expected side",
      "DESIGN.md section 4 / C08")
check("C09", "exploration",
      "Metamorphic monitoring of two relations: Convert(A + blank + ATX heading + blank + B) == Convert(A) + heading + Convert(B) for CR-free, '['-free A, B with A not ending in an open code/HTML block "
      "(openness decided from the specification's end conditions on A's own tree, conservatively; skipped pairs are counted); and Convert(Defs + D) == Convert(D + Defs) for generated definition blocks with fresh labels referenced from D in case/whitespace variants, also when D has k definitions of its own for k at every boundary size.",
      "Trusted: the side-condition classifier (conservative: when in doubt a pair is skipped) and the definition generator (valid definitions by construction). Pairs are sampled.",
      "runtime monitoring: metamorphic relations (block independence, definition position independence) between executions of the real converter",
      "DESIGN.md section 4 / C09")
check("C10", "exploration",
      "Metamorphic monitoring: each source is rendered under all 8 combinations of Unsafe/XHTML/HardWraps for one extension set (alignment pinned, East Asian line breaks off); the 12 single-flag pairs are compared by exact rewrite (safe XHTML) or lock-step walks that admit only the statement's differences; "
      "HardWraps insertions are counted against the soft breaks of the parsed tree, Unsafe differences are guided by the tree's raw fragments (all must be consumed) and dangerous destinations.",
      "Trusted: the lock-step walkers, the fragment/soft-break collector reading the tree through accessors, goldmark's exported IsDangerousURL plus the C04 normaliser for the 'classified dangerous' clause.",
      "runtime monitoring: metamorphic relations between the 8 option combinations (exact void-tag rewrite, guided lock-step diff) over randomized and exhaustive-short inputs x 9 extension sets",
      "DESIGN.md section 4 / C10")
check("C11", "exploration",
      "Metamorphic monitoring: documents are made free of an extension's trigger characters by substitution and converted with and without that extension (alone and inside random base sets, safe and unsafe); outputs must be identical. "
      "extension.GFM is compared with its four members on arbitrary documents under every combination of renderer flags, interleaved in one process.",
      "Trusted: the trigger sets copied from the statement. Documents and base sets are sampled; exhaustive for short strings with the empty base set.",
      "runtime monitoring: metamorphic relation (with/without extension on trigger-free documents; GFM versus members) between executions of the real converter",
      "DESIGN.md section 4 / C11")
check("C15", "exploration",
      "Output and tree monitoring: with AutoHeadingID on (Attribute off, safe mode) every output is tokenized and every h1..h6 must carry a non-empty id, pairwise distinct within the document; the parsed tree must agree (every ast.Heading has a non-empty id, same number of headings); "
      "every document is converted by a long-lived instance with a history (which includes documents with up to 1025 headings) and by a fresh instance and the id lists must be equal. All arrival orders of up to 4/5 heading texts from a 16-text collision pool, random multisets up to 40 headings, ATX/Setext, inside quotes, lists, footnotes, definition lists; 9 extension sets.",
      "Trusted: the strict tokenizer. Heading ids only (collisions with other generated ids are out of the statement). Documents beyond the exhaustive bound are sampled.",
      "runtime monitoring: output tokenizer + tree assertions (presence, non-emptiness, uniqueness of heading ids) and fresh-versus-history comparison over exhaustive heading-text sequences and random documents",
      "DESIGN.md section 4 / C15")
check("C16", "exploration",
      "Output monitoring: every output of a Footnote configuration (safe mode) is tokenized and the footnote structure is checked - items numbered 1..m in order, each reference shows and links its item, back-links sit in their item, point to an existing reference and correspond one to one to references, all ids distinct; "
      "by construction the generator knows which definitions are referenced nowhere (their marker words must be absent) and, for plain documents, the item count, item order and every reference number. Configurations include short and long id prefixes, all footnote options set, and one parser.Context reused across documents.",
      "Trusted: the strict tokenizer, the 150-line structure checker, the generator's bookkeeping for plain documents. Documents are sampled.",
      "runtime monitoring: output structure checker (ids, cross-links, numbering) plus by-construction expectations over generated footnote documents, footnote soup and corpus mutants",
      "DESIGN.md section 4 / C16")
check("C17", "exploration",
      "Output and tree monitoring: every <table> of every output (Table configurations, safe mode, all four alignment methods) must have one header row, rectangular body rows and column-consistent alignments; the parsed tree must agree (Alignments, header and rows of equal length); "
      "for generated tables the shape, alignments, cell contents, padding and truncation are known by construction and compared, and candidates with a header/delimiter cell-count mismatch must not become a table; sibling tables that differ only in their delimiter row are converted one after the other from one reused source buffer.",
      "Trusted: the strict tokenizer, the table checker, the table generator (tables placed where GFM certainly forms one). Documents are sampled.",
      "runtime monitoring: output/tree shape checker plus by-construction expectations over generated tables, pipe/dash/colon soup and corpus mutants",
      "DESIGN.md section 4 / C17")
check("C02", "exploration",
      "By-construction conformance monitoring: a generator draws an abstract document (all core block and inline constructs of the statement) and derives independently a Markdown spelling under random surface choices (markers, ATX/Setext, fence character/length/indent, 0-3 columns of indentation, tabs reaching the same columns incl. after quote and list markers, lazy continuation lines, reference label case/whitespace variants, either emphasis delimiter, backslash/entity/numeric escapes) "
      "and the HTML the specification prescribes; the converter's output must equal it up to whitespace adjacent to block tags. Second part: all 652 spec examples under eight spec-licensed rewrites against spec.json's HTML. "
      "Third part: an independent implementation of the emphasis (delimiter-run) rules, validated on the 103 applicable spec examples, is the reference model for every line over {*, _, a, space} up to length 8/10 and for random longer lines with punctuation. Fourth part: an independent implementation of the whole inline chapter (code spans, emphasis, inline/reference links, images, autolinks, raw HTML, entities, escapes, hard and soft breaks; 323 spec examples reproduced) is the reference model for paragraphs that are paragraphs by construction: every string up to a length bound over eight construct-specific alphabets, and random token lines.",
      "Trusted: the generator (harness/sg, ~1100 lines) - each construct is only generated where the specification fixes its meaning; no reference implementation exists on this machine, every deviation it reported was checked against the specification text before being treated as a defect. The claim covers the generated language and the rewrite set only.",
      "runtime monitoring: by-construction expected-output oracle over generated documents, spec.json as oracle over rewritten examples, reference models of the emphasis rules and of the inline chapter in lock-step over exhaustive short lines and paragraphs",
      "DESIGN.md section 4 / C02")

# addenda of sessions 4-5 (appended to the level text of each check)
_ADD = {'C01': ' Also: Parse with a caller-supplied parser.Context created before or after the instance and reused across instances, for every configuration.', 'C02': ' Tabs are written as whole indentation, directly after a container marker and inside the structural spaces that follow one; converters of other configurations convert documents in the same process.', 'C03': ' Histories through one recycled source buffer (harmless document, same-length hostile twin over it, first document again; payload and attribute-name slots) and truncated multi-byte sequences before every significant character are judged by the same tokenizer.', 'C04': ' Histories through one recycled source buffer put a dangerous URL of the same length at the offsets of a harmless one; letters are also spelled with characters that case mapping turns into ASCII.', 'C05': ' One document in five is also parsed with a parser.Context kept across documents.', 'C06': ' Histories include conversions from a recycled source buffer, twin payloads of every length in each remembered role, entity-table documents converted before and after everything else, and configurations whose options arrive by two routes (every reference output comes from another fresh build).', 'C07': ' One instance kind has a node renderer that fails on one code span, so that the error exits of Render run concurrently with successful conversions.', 'C09': ' Relation (i) is also evaluated for A without its final newline and for twin documents converted one after the other from one recycled buffer; relation (ii) also with documents that define a near-miss of a moved label.', 'C10': ' The relations are also evaluated at every step of histories through one recycled source buffer.', 'C11': ' Neighbour instances built from the same extension values and configured through the option route convert documents during the run; ASCII documents are compared after their wide-character code-point twin was converted; line endings and the white space before them are enumerated.', 'C14': ' Destinations that offer more than Write (string writer, buffer-like, own BufWriter), Render of subtrees, and failure histories (node renderer errors, double failures, nested Render) use the same enumeration and oracle; success must deliver the whole output.', 'C15': " Ids of every byte length up to 140, literal 'slug-K' headings before many equal ones, and automatic ids switched on through the heading parsers' own constructors are included.", 'C16': ' All 3^9 reference graphs over three footnotes, context histories (one parser.Context across a document with n footnotes and small ones with the same labels) and configurations whose id prefix arrives by two routes or is explicitly empty next to a prefix function are included.', 'C17': " One configuration wires the extension's exported parts by hand without its AST transformer.", 'C18': ' BlockReader.Reset to another segment list is an operation of the model.', 'C19': ' Filters holding thousands of fresh elements along an Extend chain are swept at boundary sizes.', 'C20': ' Probes that share a trigger with built-in parsers, with CanInterruptParagraph varied, compete for a line after a paragraph that stays or is transformed away.'}
for _pid, _extra in _ADD.items():
    CHECKS[_pid]["text"] += _extra
