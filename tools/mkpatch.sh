#!/bin/bash
# tools/mkpatch.sh <out.diff> <python-edit-script>   -- builds a patch against /repo HEAD in a scratch worktree
set -e
out="$1"; script="$2"
d=/tmp/vmk/$$; mkdir -p /tmp/vmk
git -C /repo worktree prune
git -C /repo worktree add -q --detach "$d" HEAD
(cd "$d" && python3 "$script" && git diff > "$out")
git -C /repo worktree remove --force "$d"
echo "wrote $out ($(wc -l < "$out") lines)"
