#!/usr/bin/env python3
"""Prints the markdown table of seeded changes (from seeded/*/meta.json) for DESIGN.md section 7."""
import json, os
rows = []
for name in sorted(os.listdir("/verif/seeded")):
    mp = os.path.join("/verif/seeded", name, "meta.json")
    if not os.path.exists(mp): continue
    m = json.load(open(mp))
    det = m.get("detected_by", {})
    hit = [k for k, v in det.items() if v.startswith("VIOLATION")]
    miss = [k for k, v in det.items() if not v.startswith("VIOLATION")]
    s = m.get("summary", "")
    for pre in (name.replace("-", " / fault ") + " - ", name.replace("-", " / ") + " - "):
        s = s.replace(pre, "")
    s = s.replace("|", "\\|")
    if len(s) > 150: s = s[:147] + "..."
    rows.append("| %s | %s | %s | %s |" % (name, s, ", ".join(hit) or "-", ", ".join(miss) or "-"))
print("| change | what it is | reported by (quick tier) | run but silent |")
print("|---|---|---|---|")
print("\n".join(rows))
