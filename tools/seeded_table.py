#!/usr/bin/env python3
"""Prints the markdown tables of seeded changes (from seeded/*/meta.json) for DESIGN.md section 7:
   1. every change: what it is, which checks (quick tier) report it, which were run but stayed silent;
   2. the changes that were missed when they were first run, with what was added in response."""
import json, os
rows, missed = [], []
for name in sorted(os.listdir("/verif/seeded")):
    mp = os.path.join("/verif/seeded", name, "meta.json")
    if not os.path.exists(mp): continue
    m = json.load(open(mp))
    det = m.get("detected_by", {})
    hit = [k for k, v in det.items() if v.startswith("VIOLATION")]
    miss = [k for k, v in det.items() if not v.startswith("VIOLATION")]
    s = m.get("summary", "")
    for pre in (name.replace("-", " / fault ") + " - ", name.replace("-", " / ") + " - "):
        s = s.replace(pre, "")
    s = s.replace("|", "\\|")
    if len(s) > 150: s = s[:147] + "..."
    rows.append("| %s | %s | %s | %s |" % (name, s, ", ".join(hit) or "-", ", ".join(miss) or "-"))
    h = m.get("history")
    if h:
        missed.append("| %s | %s | %s |" % (name, h.get("first_run", "").replace("|", "\\|"), h.get("response", "").replace("|", "\\|")))
print("| change | what it is | reported by (quick tier) | run but silent |")
print("|---|---|---|---|")
print("\n".join(rows))
print()
print("Changes that were not reported when first run (rounds E-N), and the response:")
print()
print("| change | first run | what was added |")
print("|---|---|---|")
print("\n".join(missed))
