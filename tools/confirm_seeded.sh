#!/bin/bash
# tools/confirm_seeded.sh <property> <letter> [srcdir]
# Confirms a seeded change produced by a sub-agent in a scratch worktree of /repo:
#   applies, builds, the repository's suite still passes (708), the demonstration fails with the change and
#   passes without it.  On success the change is kept as /verif/seeded/<property>-<letter>/.
set -u
export GOFLAGS=-mod=mod GOPROXY=off GOSUMDB=off GOTOOLCHAIN=local
prop="$1"; let="$2"; src="${3:-/tmp/wtout/$prop}"
name="$prop-$let"
d=/tmp/vconf/$name
rm -rf "$d"; mkdir -p /tmp/vconf
git -C /repo worktree prune
git -C /repo worktree add -q --detach "$d" HEAD || exit 2
cleanup() { git -C /repo worktree remove --force "$d" 2>/dev/null; rm -rf "$d"; }
demo="$src/${let}_demo_test.go"
[ -f "$demo" ] || { echo "no demo $demo"; cleanup; exit 2; }
cp "$demo" "$d/zz_seeded_demo_test.go"
cd "$d"
clean_out=$(go test -vet=off -count=1 -run 'Demo|Seeded|C[0-9][0-9]' . 2>&1); clean_rc=$?
if ! git apply "$src/$let.diff"; then echo "RESULT $name: patch does not apply"; cleanup; exit 1; fi
if ! go build ./... ; then echo "RESULT $name: does not build"; cleanup; exit 1; fi
mut_out=$(go test -vet=off -count=1 -run 'Demo|Seeded|C[0-9][0-9]' . 2>&1); mut_rc=$?
rm -f zz_seeded_demo_test.go
suite=$(VERIF_REPO="$d" /verif/tools/repo_suite.sh 2>&1 | tail -1)
echo "RESULT $name: demo_clean_rc=$clean_rc demo_mutant_rc=$mut_rc suite: $suite"
ok=0
if [ $clean_rc = 0 ] && [ $mut_rc != 0 ] && echo "$suite" | grep -q "passed_tests=708 fail_events=0"; then ok=1; fi
if [ $ok = 1 ]; then
  out=/verif/seeded/$name; mkdir -p "$out"
  cp "$src/$let.diff" "$out/patch.diff"; cp "$demo" "$out/demo_test.go"; [ -f "$src/$let.md" ] && cp "$src/$let.md" "$out/notes.md"
  printf '%s\n' "$mut_out" | tail -15 > "$out/demo_output_with_change.txt"
  echo "KEPT $out"
else
  echo "NOT KEPT"; printf '%s\n' "$clean_out" | tail -5; printf '%s\n' "$mut_out" | tail -5
fi
cleanup
[ $ok = 1 ]
