// famtime: development aid - CPU time of every scalable family at a given size (all extensions, safe mode).
package main

import (
	"bytes"
	"flag"
	"fmt"
	"syscall"

	"verif/cfg"
	"verif/wl"
)

func cpu() float64 {
	var ru syscall.Rusage
	syscall.Getrusage(syscall.RUSAGE_SELF, &ru)
	return float64(ru.Utime.Sec+ru.Stime.Sec) + float64(ru.Utime.Usec+ru.Stime.Usec)/1e6
}

func main() {
	n := flag.Int("n", 20000, "")
	min := flag.Float64("min", 0.5, "")
	flag.Parse()
	for _, name := range []string{"all", "core", "cjk-simple"} {
		sp, _ := cfg.Parse(name)
		md := sp.Build()
		for _, f := range wl.DeepFamilies {
			src := f.Gen(*n)
			t := cpu()
			var b bytes.Buffer
			md.Convert(src, &b)
			if d := cpu() - t; d >= *min {
				fmt.Printf("%-12s %-24s n=%d bytes=%d cpu=%.2fs\n", name, f.Name, *n, len(src), d)
			}
		}
	}
}
