// distill collects the corpus files written by Go's fuzzing engine (cache directories and testdata crashers use the
// same "go test fuzz v1" encoding) into the committed, compressed workload wl/covcorpus.bin.gz.
//
//	distill -out wl/covcorpus.bin.gz [-max 2048] [-keep existing.bin.gz] dir...
package main

import (
	"bytes"
	"compress/gzip"
	"encoding/binary"
	"flag"
	"fmt"
	"go/ast"
	"go/parser"
	"go/token"
	"io"
	"os"
	"path/filepath"
	"sort"
	"strconv"
	"strings"

	"verif/wl"
)

// ParseCorpusFile decodes a "go test fuzz v1" file with a []byte and a uint16 value.
func ParseCorpusFile(b []byte) (data []byte, sel uint16, ok bool) {
	lines := strings.Split(string(b), "\n")
	if len(lines) < 2 || !strings.HasPrefix(lines[0], "go test fuzz v1") {
		return nil, 0, false
	}
	got := false
	for _, l := range lines[1:] {
		l = strings.TrimSpace(l)
		if l == "" {
			continue
		}
		e, err := parser.ParseExpr(l)
		if err != nil {
			return nil, 0, false
		}
		call, isCall := e.(*ast.CallExpr)
		if !isCall || len(call.Args) != 1 {
			return nil, 0, false
		}
		lit, isLit := call.Args[0].(*ast.BasicLit)
		if !isLit {
			return nil, 0, false
		}
		switch fmt.Sprint(exprString(call.Fun)) {
		case "[]byte":
			if lit.Kind != token.STRING {
				return nil, 0, false
			}
			s, err := strconv.Unquote(lit.Value)
			if err != nil {
				return nil, 0, false
			}
			data, got = []byte(s), true
		case "uint16":
			v, err := strconv.ParseUint(lit.Value, 0, 16)
			if err != nil {
				return nil, 0, false
			}
			sel = uint16(v)
		}
	}
	return data, sel, got
}

func exprString(e ast.Expr) string {
	switch x := e.(type) {
	case *ast.Ident:
		return x.Name
	case *ast.ArrayType:
		return "[]" + exprString(x.Elt)
	}
	return ""
}

func main() {
	out := flag.String("out", "", "output file")
	max := flag.Int("max", 2048, "longest input kept")
	keep := flag.String("keep", "", "existing corpus file whose entries are kept")
	flag.Parse()
	seen := map[string]bool{}
	var docs [][]byte
	add := func(d []byte) {
		if len(d) == 0 || len(d) > *max || seen[string(d)] {
			return
		}
		seen[string(d)] = true
		docs = append(docs, d)
	}
	if *keep != "" {
		if b, err := os.ReadFile(*keep); err == nil {
			if zr, err := gzip.NewReader(bytes.NewReader(b)); err == nil {
				raw, _ := io.ReadAll(zr)
				for len(raw) > 0 {
					n, k := binary.Uvarint(raw)
					if k <= 0 || int(n) > len(raw)-k {
						break
					}
					add(raw[k : k+int(n)])
					raw = raw[k+int(n):]
				}
			}
		}
	}
	files := 0
	for _, dir := range flag.Args() {
		filepath.Walk(dir, func(p string, info os.FileInfo, err error) error {
			if err != nil || info.IsDir() {
				return nil
			}
			b, err := os.ReadFile(p)
			if err != nil {
				return nil
			}
			if d, _, ok := ParseCorpusFile(b); ok {
				files++
				add(d)
			}
			return nil
		})
	}
	sort.Slice(docs, func(i, j int) bool {
		if len(docs[i]) != len(docs[j]) {
			return len(docs[i]) < len(docs[j])
		}
		return bytes.Compare(docs[i], docs[j]) < 0
	})
	enc := wl.EncodeCovCorpus(docs)
	total := 0
	for _, d := range docs {
		total += len(d)
	}
	fmt.Printf("corpus files read: %d; distinct inputs kept: %d (%d bytes raw, %d compressed)\n", files, len(docs), total, len(enc))
	if *out != "" {
		if err := os.WriteFile(*out, enc, 0o644); err != nil {
			fmt.Fprintln(os.Stderr, err)
			os.Exit(1)
		}
	}
}
