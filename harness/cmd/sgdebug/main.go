// sgdebug: development aid for the C02 generator - prints the smallest mismatching generated documents.
package main

import (
	"bytes"
	"flag"
	"fmt"
	"math/rand"
	"sort"

	"github.com/yuin/goldmark"
	"github.com/yuin/goldmark/renderer/html"

	"verif/props"
	"verif/sg"
)

func main() {
	n := flag.Int("n", 20000, "")
	depth := flag.Int("depth", 2, "")
	blocks := flag.Int("blocks", 3, "")
	lines := flag.Int("lines", 2, "")
	show := flag.Int("show", 5, "")
	seed := flag.Int64("seed", 1, "")
	flag.Parse()
	md := goldmark.New(goldmark.WithRendererOptions(html.WithUnsafe(), html.WithXHTML()))
	r := rand.New(rand.NewSource(*seed))
	type mm struct{ md, got, want string }
	var bad []mm
	for i := 0; i < *n; i++ {
		d := sg.Document(r, *depth, *blocks, *lines, nil)
		var buf bytes.Buffer
		if err := md.Convert([]byte(d.Markdown), &buf); err != nil {
			continue
		}
		g, w := props.C02Normalize(buf.Bytes()), props.C02Normalize([]byte(d.HTML))
		if g != w {
			bad = append(bad, mm{d.Markdown, g, w})
		}
	}
	sort.Slice(bad, func(i, j int) bool { return len(bad[i].md) < len(bad[j].md) })
	fmt.Printf("%d mismatches of %d\n", len(bad), *n)
	for i := 0; i < len(bad) && i < *show; i++ {
		fmt.Printf("---- markdown:\n%s\n---- %q\n---- got:\n%s\n---- want:\n%s\n", bad[i].md, bad[i].md, bad[i].got, bad[i].want)
	}
}
