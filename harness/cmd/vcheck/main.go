// vcheck is the driver and worker of the runtime monitors.
//
//	vcheck run <id> [--tier quick|thorough]      driver: spawns workers, merges, writes evidence, prints verdict
//	vcheck worker <id> ...                       one shard (internal)
//	vcheck replay <id> <path>                    re-executes one recorded violation
//	vcheck one <id> <config> <inputfile>         isolated re-execution of one input (crash confirmation)
package main

import (
	"bufio"
	"crypto/sha1"
	"encoding/binary"
	"encoding/json"
	"flag"
	"fmt"
	"os"
	"os/exec"
	"path/filepath"
	"regexp"
	"runtime/debug"
	"sort"
	"strconv"
	"strings"
	"sync"
	"syscall"
	"time"

	"verif/core"
	"verif/props"
)

func verifDir() string {
	if d := os.Getenv("VERIF_DIR"); d != "" {
		return d
	}
	return "/verif"
}

// outDir is where work files, evidence and replays are written (default: verifDir()).
func outDir() string {
	if d := os.Getenv("VERIF_OUT"); d != "" {
		return d
	}
	return verifDir()
}

func repoDir() string {
	if d := os.Getenv("VERIF_REPO"); d != "" {
		return d
	}
	return "/repo"
}

func main() {
	if len(os.Args) < 3 {
		fmt.Fprintln(os.Stderr, "usage: vcheck run|worker|replay|one <id> ...")
		os.Exit(2)
	}
	cmd, id := os.Args[1], os.Args[2]
	p := props.Registry[id]
	if p == nil {
		fmt.Fprintf(os.Stderr, "unknown property %s\n", id)
		os.Exit(2)
	}
	switch cmd {
	case "run":
		os.Exit(run(p, os.Args[3:]))
	case "worker":
		worker(p, os.Args[3:])
	case "replay":
		os.Exit(replay(p, os.Args[3:]))
	case "one":
		one(p, os.Args[3:])
	case "fuzzone":
		fuzzone(p, os.Args[3:])
	default:
		fmt.Fprintln(os.Stderr, "unknown command")
		os.Exit(2)
	}
}

func envSeed() int64 {
	if s := os.Getenv("VERIF_SEED"); s != "" {
		if v, err := strconv.ParseInt(s, 10, 64); err == nil {
			return v
		}
	}
	return 1
}

func worker(p *props.Prop, args []string) {
	fs := flag.NewFlagSet("worker", flag.ExitOnError)
	tier := fs.String("tier", "quick", "")
	seed := fs.Int64("seed", 1, "")
	shard := fs.Int("shard", 0, "")
	nshards := fs.Int("nshards", 1, "")
	work := fs.String("work", "", "")
	fs.Parse(args)
	debug.SetMaxStack(512 << 20)
	c := core.NewCtx(p.ID, *tier, *seed, *shard, *nshards, *work, repoDir())
	c.StartWatchdog()
	if os.Getenv("VERIF_ONLYFUZZ") != "1" { // (validation of the coverage-guided stages alone)
		p.Run(c)
	}
	c.End()
	props.CovReplay(c, p.ID)
	c.End()
	props.FamilyReplay(c, p.ID)
	c.End()
	s := c.Finish()
	f, err := os.Create(filepath.Join(*work, fmt.Sprintf("w%d.json", *shard)))
	if err != nil {
		fmt.Fprintln(os.Stderr, err)
		os.Exit(4)
	}
	w := bufio.NewWriter(f)
	core.WriteJSON(w, s)
	w.Flush()
	f.Close()
}

// one re-executes a single (config, input) through the property's Replay in this fresh process.
func one(p *props.Prop, args []string) {
	if len(args) < 2 {
		os.Exit(2)
	}
	in, err := os.ReadFile(args[1])
	if err != nil {
		os.Exit(2)
	}
	if lim := os.Getenv("VERIF_CPU_LIMIT"); lim != "" {
		if n, err := strconv.Atoi(lim); err == nil {
			syscall.Setrlimit(syscall.RLIMIT_CPU, &syscall.Rlimit{Cur: uint64(n), Max: uint64(n + 5)})
		}
	}
	debug.SetMaxStack(512 << 20)
	c := core.NewCtx(p.ID, "quick", envSeed(), 0, 1, "", repoDir())
	v := &core.Violation{Property: p.ID, Config: args[0], Input: in, Class: "isolated"}
	bad, detail := false, ""
	if strings.HasPrefix(args[0], "cov:") {
		// a case of the distilled-corpus stage: the configuration is chosen by the selector
		sel, _ := strconv.Atoi(strings.TrimPrefix(args[0], "cov:"))
		r := props.FuzzOne(p.ID, uint16(sel), in)
		bad, detail = r.Bad, r.Config+" "+r.Class+" "+r.Locus
	} else if p.Replay != nil {
		bad, detail = p.Replay(c, v)
	}
	var ru syscall.Rusage
	syscall.Getrusage(syscall.RUSAGE_SELF, &ru)
	cpu := float64(ru.Utime.Sec+ru.Stime.Sec) + float64(ru.Utime.Usec+ru.Stime.Usec)/1e6
	fmt.Printf("ONE bad=%v cpu_s=%.2f detail=%s\n", bad, cpu, detail)
	if bad {
		os.Exit(1)
	}
}

// fuzzRecord is what the fuzz target (harness/fz) leaves behind for a rejected or hanging execution.
type fuzzRecord struct {
	Sel    uint16            `json:"sel"`
	Data   []byte            `json:"data"`
	Result *props.FuzzResult `json:"result,omitempty"`
	Hang   bool              `json:"hang,omitempty"`
}

// fuzzone re-evaluates one recorded coverage-guided case in this fresh process and prints the verdict as JSON.
func fuzzone(p *props.Prop, args []string) {
	if len(args) < 1 {
		os.Exit(2)
	}
	b, err := os.ReadFile(args[0])
	var rec fuzzRecord
	if err != nil || json.Unmarshal(b, &rec) != nil {
		os.Exit(2)
	}
	syscall.Setrlimit(syscall.RLIMIT_CPU, &syscall.Rlimit{Cur: 150, Max: 155})
	debug.SetMaxStack(512 << 20)
	r := props.FuzzOne(p.ID, rec.Sel, rec.Data)
	out, _ := json.Marshal(r)
	fmt.Printf("FUZZONE %s\n", out)
}

var reFuzzLine = regexp.MustCompile(`execs: ([0-9]+) .*new interesting: ([0-9]+) \(total: ([0-9]+)\)`)

// fuzzStage runs Go's coverage-guided engine over the property's per-case oracle for a fixed number of executions.
// It only adds executions; every rejected case is confirmed in a fresh process before it is reported.
func fuzzStage(p *props.Prop, self, work, tier string, seed int64, m *props.Merged) (viols []*core.Violation, notes []string) {
	if !props.FuzzServes(p.ID) || os.Getenv("VERIF_NOFUZZ") == "1" {
		return
	}
	bin := filepath.Join(outDir(), "bin", "fz.test")
	if _, err := os.Stat(bin); err != nil {
		notes = append(notes, "coverage-guided stage skipped: "+bin+" was not built")
		return
	}
	execs := int64(150000)
	if tier == "thorough" {
		execs = 30000000
	}
	if s := os.Getenv("VERIF_FUZZ_EXECS"); s != "" {
		if v, err := strconv.ParseInt(s, 10, 64); err == nil && v > 0 {
			execs = v
		}
	}
	dir := filepath.Join(work, "fuzz")
	os.MkdirAll(dir, 0o755)
	cache := filepath.Join(outDir(), "work", "fuzzcache", p.ID+"-"+tier)
	if tier != "thorough" {
		os.RemoveAll(cache) // the quick tier always starts from the committed seeds, so that its cost does not drift
	}
	os.MkdirAll(cache, 0o755)
	outp := filepath.Join(dir, "fuzz.out")
	of, _ := os.Create(outp)
	lim := "900"
	if tier == "thorough" {
		lim = "14400"
	}
	cmd := exec.Command("timeout", "-s", "KILL", lim, bin, "-test.run", "^$", "-test.fuzz", "^FuzzProp$", "-test.fuzzcachedir", cache,
		"-test.fuzztime", fmt.Sprintf("%dx", execs), "-test.fuzzminimizetime", "10s", "-test.parallel", "16")
	cmd.Dir = dir
	cmd.Stdout = of
	cmd.Stderr = of
	cmd.Env = append(os.Environ(), "VERIF_FUZZ_PROP="+p.ID, "VERIF_FUZZ_OUT="+dir, "VERIF_REPO="+repoDir(), "VERIF_SEED="+fmt.Sprint(seed))
	if tier != "thorough" {
		cmd.Env = append(cmd.Env, "VERIF_FUZZ_SEEDS=500")
	}
	_ = cmd.Run()
	of.Close()
	ob, _ := os.ReadFile(outp)
	if ms := reFuzzLine.FindAllSubmatch(ob, -1); len(ms) > 0 {
		last := ms[len(ms)-1]
		n, _ := strconv.ParseInt(string(last[1]), 10, 64)
		ni, _ := strconv.ParseInt(string(last[2]), 10, 64)
		tot, _ := strconv.ParseInt(string(last[3]), 10, 64)
		m.Counters["coverage_guided_execs"] = n
		m.Counters["coverage_guided_new_interesting"] = ni
		m.Counters["coverage_guided_corpus_total"] = tot
		m.Evals += n
	} else {
		notes = append(notes, "coverage-guided stage produced no progress line: "+firstLine(tailOf(outp, 6)))
	}
	recs, _ := filepath.Glob(filepath.Join(dir, "*.json"))
	sort.Strings(recs)
	for i, rp := range recs {
		b, err := os.ReadFile(rp)
		var rec fuzzRecord
		if err != nil || json.Unmarshal(b, &rec) != nil {
			continue
		}
		if rec.Hang {
			cfgName := "cov:" + fmt.Sprint(rec.Sel)
			if v := confirmCrash(p, self, work, 900+i, cfgName, rec.Data, 7, "coverage-guided worker: case still running after 60 s", seed, tier); v != nil {
				viols = append(viols, v)
			} else {
				notes = append(notes, fmt.Sprintf("a coverage-guided case ran for 60 s of wall time but the isolated replay stayed below the CPU limit (load): %q", trunc(rec.Data, 80)))
			}
			continue
		}
		// confirm in a fresh process
		cb, _ := exec.Command(self, "fuzzone", p.ID, rp).CombinedOutput()
		line := grepLine(string(cb), "FUZZONE ")
		var r props.FuzzResult
		if line == "" || json.Unmarshal([]byte(strings.TrimPrefix(line, "FUZZONE ")), &r) != nil {
			notes = append(notes, "a coverage-guided case could not be re-evaluated: "+rp+": "+firstLine(string(cb)))
			continue
		}
		if !r.Bad {
			notes = append(notes, "a coverage-guided case was rejected in the fuzz worker but not in a fresh process (state-dependent?): "+rp)
			continue
		}
		q := fmt.Sprintf("%q", r.Input)
		if len(q) > 600 {
			q = q[:600] + "…"
		}
		viols = append(viols, &core.Violation{Property: p.ID, Class: r.Class, Locus: r.Locus, Config: r.Config, Input: r.Input, InputQ: q,
			Detail: "found by the coverage-guided stage (selector " + fmt.Sprint(rec.Sel) + ")\n" + r.Detail, Script: r.Script, Seed: seed, Tier: tier, Count: 1})
	}
	return
}

func replay(p *props.Prop, args []string) int {
	if len(args) < 1 {
		fmt.Fprintln(os.Stderr, "usage: vcheck replay <id> <path>")
		return 2
	}
	b, err := os.ReadFile(args[0])
	if err != nil {
		fmt.Fprintln(os.Stderr, err)
		return 2
	}
	var v core.Violation
	if err := json.Unmarshal(b, &v); err != nil {
		fmt.Fprintln(os.Stderr, err)
		return 2
	}
	if p.Replay == nil {
		fmt.Println("replay not supported for this property; re-run the check with the recorded seed:", v.Seed)
		return 2
	}
	c := core.NewCtx(p.ID, v.Tier, v.Seed, 0, 1, "", repoDir())
	bad, detail := p.Replay(c, &v)
	if bad {
		fmt.Printf("REPLAY property=%s still violates: class=%s %s\n", p.ID, v.Class, detail)
		return 1
	}
	fmt.Printf("REPLAY property=%s no longer violates (%s)\n", p.ID, detail)
	return 0
}

type knownEntry struct {
	Status   string          `json:"status"` // "known" | "fixed"
	Property string          `json:"property"`
	ID       string          `json:"id"`
	What     string          `json:"what"`
	Commit   string          `json:"commit,omitempty"`
	Class    string          `json:"class,omitempty"`
	Locus    string          `json:"locus,omitempty"`
	Witness  json.RawMessage `json:"witness,omitempty"`
}

func loadKnown() []knownEntry {
	b, err := os.ReadFile(filepath.Join(verifDir(), "known_findings.json"))
	if err != nil {
		return nil
	}
	var f struct {
		Entries []knownEntry `json:"entries"`
	}
	if json.Unmarshal(b, &f) != nil {
		return nil
	}
	return f.Entries
}

func run(p *props.Prop, args []string) int {
	fs := flag.NewFlagSet("run", flag.ExitOnError)
	tier := fs.String("tier", os.Getenv("VERIF_TIER"), "")
	fs.Parse(args)
	if *tier != "thorough" {
		*tier = "quick"
	}
	seed := envSeed()
	start := time.Now()
	nw := 16
	if p.Workers > 0 {
		nw = p.Workers
	}
	if s := os.Getenv("VERIF_WORKERS"); s != "" {
		if v, err := strconv.Atoi(s); err == nil && v > 0 {
			nw = v
		}
	}
	work := filepath.Join(outDir(), "work", p.ID)
	os.RemoveAll(work)
	os.MkdirAll(work, 0o755)
	self, _ := os.Executable()

	limit := 20 * time.Minute
	if *tier == "thorough" {
		limit = 6 * time.Hour
	}
	type wres struct {
		exit int
		sum  *core.Summary
		err  string
	}
	res := make([]wres, nw)
	var wg sync.WaitGroup
	for k := 0; k < nw; k++ {
		wg.Add(1)
		go func(k int) {
			defer wg.Done()
			outp := filepath.Join(work, fmt.Sprintf("w%d.out", k))
			of, _ := os.Create(outp)
			defer of.Close()
			cmd := exec.Command("timeout", "-s", "QUIT", fmt.Sprintf("%d", int(limit.Seconds())), self, "worker", p.ID,
				"--tier", *tier, "--seed", fmt.Sprint(seed), "--shard", fmt.Sprint(k), "--nshards", fmt.Sprint(nw), "--work", work)
			cmd.Stdout = of
			cmd.Stderr = of
			cmd.Env = append(os.Environ(), "GOTRACEBACK=all")
			if p.Env != nil {
				cmd.Env = append(cmd.Env, p.Env(k, nw, work)...)
			}
			err := cmd.Run()
			r := wres{}
			if err != nil {
				r.exit = 1
				if ee, ok := err.(*exec.ExitError); ok {
					r.exit = ee.ExitCode()
					if r.exit == 0 {
						r.exit = 1
					}
				}
				r.err = err.Error()
			}
			if b, e := os.ReadFile(filepath.Join(work, fmt.Sprintf("w%d.json", k))); e == nil {
				var s core.Summary
				if json.Unmarshal(b, &s) == nil && s.Done {
					r.sum = &s
				}
			}
			res[k] = r
		}(k)
	}
	wg.Wait()

	m := &props.Merged{Tier: *tier, Counters: map[string]int64{}, Sets: map[string]map[string]int64{}}
	var viols []*core.Violation
	var inconclusive []string
	sigs := map[uint64]struct{}{}
	for k, r := range res {
		if r.sum == nil {
			// the worker died: name the input that was running
			cfgName, input, ok := core.ReadSlot(filepath.Join(work, fmt.Sprintf("slot%d", k)))
			tail := tailOf(filepath.Join(work, fmt.Sprintf("w%d.out", k)), 40)
			if p.DeadWorkerIsViolation && (strings.Contains(tail, "fatal error:") || strings.Contains(tail, "panic:")) {
				line := firstLine(grepLine(tail, "fatal error:", "panic:"))
				viols = append(viols, &core.Violation{Property: p.ID, Class: "fatal-runtime-error", Locus: stripNums(line), Config: cfgName,
					Detail: fmt.Sprintf("worker %d (exit %d) was killed by the Go runtime while goroutines shared an instance:\n%s", k, r.exit, trunc([]byte(tail), 3000)), Seed: seed, Tier: *tier, Count: 1})
				continue
			}
			if ok {
				v := confirmCrash(p, self, work, k, cfgName, input, r.exit, tail, seed, *tier)
				if v != nil {
					viols = append(viols, v)
				} else {
					inconclusive = append(inconclusive, fmt.Sprintf("worker %d died (exit %d) on config=%q input=%q but the isolated replay did not confirm; see %s", k, r.exit, cfgName, trunc(input, 80), filepath.Join(work, fmt.Sprintf("w%d.out", k))))
				}
			} else {
				inconclusive = append(inconclusive, fmt.Sprintf("worker %d died (exit %d) before running a case: %s", k, r.exit, firstLine(tail)))
			}
			continue
		}
		s := r.sum
		m.Evals += s.Evals
		for n, v := range s.Counters {
			if strings.HasPrefix(n, "max:") {
				if v > m.Counters[n] {
					m.Counters[n] = v
				}
			} else {
				m.Counters[n] += v
			}
		}
		for n, set := range s.Sets {
			dst := m.Sets[n]
			if dst == nil {
				dst = map[string]int64{}
				m.Sets[n] = dst
			}
			for v, c := range set {
				dst[v] += c
			}
		}
		for _, smp := range s.Samples {
			if len(m.Samples) < 8 || k%4 == 0 && len(m.Samples) < 12 {
				m.Samples = append(m.Samples, smp)
			}
		}
		m.SigDrop += s.SigDropped
		if s.SigFile != "" {
			if b, err := os.ReadFile(s.SigFile); err == nil {
				for i := 0; i+8 <= len(b); i += 8 {
					sigs[binary.LittleEndian.Uint64(b[i:])] = struct{}{}
				}
			}
		}
		viols = append(viols, s.Violations...)
	}
	m.Distinct = len(sigs)
	if p.Post != nil {
		viols = append(viols, p.Post(work, m)...)
	}
	fv, fnotes := fuzzStage(p, self, work, *tier, seed, m)
	viols = append(viols, fv...)

	// group violations
	groups := map[string]*core.Violation{}
	var order []string
	for _, v := range viols {
		k := v.Key()
		if g, ok := groups[k]; ok {
			g.Count += v.Count
			if v.Input != nil && (g.Input == nil || len(v.Input) < len(g.Input)) {
				v.Count = g.Count
				groups[k] = v
			}
			continue
		}
		groups[k] = v
		order = append(order, k)
	}
	sort.Strings(order)

	known := loadKnown()
	nViol := 0
	exit := 0
	var lines []string
	knownHit := map[string]bool{}
	os.MkdirAll(filepath.Join(outDir(), "replays", p.ID), 0o755)
	for _, k := range order {
		v := groups[k]
		matched := false
		for _, e := range known {
			if e.Status == "known" && e.Property == p.ID && e.Class == v.Class && e.Locus == v.Locus && e.Locus != "" {
				if !knownHit[e.ID] {
					lines = append(lines, fmt.Sprintf("KNOWN-FINDING: property=%s %s [%s; %d occurrence(s) this run, e.g. config=%s input=%s]", p.ID, e.What, e.ID, v.Count, v.Config, v.InputQ))
					knownHit[e.ID] = true
				}
				matched = true
				break
			}
		}
		if matched {
			continue
		}
		nViol++
		if nViol > 25 {
			continue
		}
		b, _ := json.MarshalIndent(v, "", " ")
		h := sha1.Sum([]byte(k))
		path := filepath.Join(outDir(), "replays", p.ID, fmt.Sprintf("%x.json", h[:6]))
		os.WriteFile(path, b, 0o644)
		lines = append(lines, fmt.Sprintf("VIOLATION property=%s replay=%s", p.ID, path))
		lines = append(lines, fmt.Sprintf("  class=%s locus=%s config=%s occurrences=%d input=%s", v.Class, v.Locus, v.Config, v.Count, v.InputQ))
		if v.Detail != "" {
			lines = append(lines, "  "+strings.ReplaceAll(trunc([]byte(v.Detail), 1500), "\n", "\n  "))
		}
		exit = 1
	}
	for _, e := range known {
		if e.Status == "known" && e.Property == p.ID && !knownHit[e.ID] {
			// listed findings are always named, so that the output says which violations are expected on this tree
			lines = append(lines, fmt.Sprintf("KNOWN-FINDING: property=%s %s [%s; listed in known_findings.json, not exercised or no longer observed in this run]", p.ID, e.What, e.ID))
		}
	}

	if exit == 0 {
		inconclusive = append(inconclusive, props.StageFloors(p.ID, m)...)
	}
	if p.Floors != nil && exit == 0 {
		inconclusive = append(inconclusive, p.Floors(m)...)
	}
	if m.Evals == 0 && exit == 0 {
		inconclusive = append(inconclusive, "the monitor observed nothing (0 evaluations)")
	}

	// evidence
	cov := map[string]any{
		"evaluations":         m.Evals,
		"distinct_nontrivial": m.Distinct,
		"rule":                p.Rule,
		"samples":             m.Samples,
		"counters":            m.Counters,
		"workers":             nw,
	}
	if m.SigDrop > 0 {
		cov["distinct_note"] = fmt.Sprintf("signature sets are capped per worker; %d further signatures were not retained, so distinct_nontrivial is a lower bound", m.SigDrop)
	}
	sets := map[string]any{}
	for n, set := range m.Sets {
		if len(set) <= 80 {
			sets[n] = set
		} else {
			keys := make([]string, 0, len(set))
			for k := range set {
				keys = append(keys, k)
			}
			sort.Strings(keys)
			sets[n] = map[string]any{"distinct": len(set), "first": keys[:40]}
		}
	}
	cov["observed"] = sets
	if p.Exhaustive != nil {
		if s := p.Exhaustive(*tier); s != "" {
			cov["exhaustive"] = true
			cov["exhaustive_scope"] = s
		}
	}
	if p.Extra != nil {
		p.Extra(m, cov)
	}
	if len(m.Samples) == 0 {
		cov["samples"] = []any{"(no samples recorded)"}
	}
	verdict := "held"
	if exit == 1 {
		verdict = "violated"
	} else if len(inconclusive) > 0 {
		verdict = "inconclusive"
		exit = 2
	}
	cov["verdict"] = verdict
	if len(knownHit) > 0 {
		var ids []string
		for id := range knownHit {
			ids = append(ids, id)
		}
		sort.Strings(ids)
		cov["known_findings_observed"] = ids
	}
	if len(inconclusive) > 0 {
		cov["inconclusive_reasons"] = inconclusive
	}
	ev := map[string]any{
		"property_id": p.ID,
		"tier":        *tier,
		"seed":        seed,
		"level":       p.Level,
		"coverage":    cov,
		"assumptions": p.Assumptions,
		"wall_s":      time.Since(start).Seconds(),
		"violations":  nViol,
	}
	eb, _ := json.MarshalIndent(ev, "", " ")
	os.MkdirAll(filepath.Join(outDir(), "evidence"), 0o755)
	os.WriteFile(filepath.Join(outDir(), "evidence", p.ID+".json"), eb, 0o644)

	for _, l := range lines {
		fmt.Println(l)
	}
	for _, n := range fnotes {
		fmt.Printf("NOTE: %s\n", n)
	}
	for _, r := range inconclusive {
		if exit == 2 {
			fmt.Printf("INCONCLUSIVE property=%s reason=%s\n", p.ID, r)
		} else {
			fmt.Printf("NOTE: %s\n", r)
		}
	}
	fmt.Printf("%s property=%s tier=%s seed=%d evaluations=%d distinct_nontrivial=%d violations=%d known_findings=%d wall_s=%.1f\n",
		strings.ToUpper(verdict), p.ID, *tier, seed, m.Evals, m.Distinct, nViol, len(knownHit), time.Since(start).Seconds())
	return exit
}

// confirmCrash replays the input that was running when a worker died, alone in a fresh process.
func confirmCrash(p *props.Prop, self, work string, k int, cfgName string, input []byte, exitCode int, tail string, seed int64, tier string) *core.Violation {
	inp := filepath.Join(work, fmt.Sprintf("crash%d.in", k))
	os.WriteFile(inp, input, 0o644)
	outp := filepath.Join(work, fmt.Sprintf("crash%d.out", k))
	of, _ := os.Create(outp)
	cmd := exec.Command("timeout", "-s", "KILL", "400", self, "one", p.ID, cfgName, inp)
	cmd.Stdout = of
	cmd.Stderr = of
	cmd.Env = append(os.Environ(), "VERIF_CPU_LIMIT=150", "GOTRACEBACK=single")
	err := cmd.Run()
	of.Close()
	out := tailOf(outp, 60)
	class := ""
	switch {
	case strings.Contains(out, "fatal error:"), strings.Contains(out, "goroutine stack exceeds"):
		class = "fatal-runtime-error"
	case strings.Contains(out, "ONE bad=true"):
		class = "isolated-replay-violates"
	case err != nil && !strings.Contains(out, "ONE bad="):
		// killed by RLIMIT_CPU / timeout: decided on consumed CPU time of the isolated replay
		class = "cpu-limit-exceeded"
	default:
		return nil
	}
	locus := firstLine(grepLine(out, "fatal error:", "panic:", "ONE bad=true"))
	q := fmt.Sprintf("%q", input)
	if len(q) > 600 {
		q = q[:600] + "…"
	}
	return &core.Violation{Property: p.ID, Class: class, Locus: locus, Config: cfgName, Input: input, InputQ: q,
		Detail: fmt.Sprintf("worker exit=%d; isolated replay output:\n%s\n--- worker tail:\n%s", exitCode, out, trunc([]byte(tail), 1500)), Seed: seed, Tier: tier, Count: 1}
}

func grepLine(s string, pats ...string) string {
	for _, l := range strings.Split(s, "\n") {
		for _, p := range pats {
			if strings.Contains(l, p) {
				return l
			}
		}
	}
	return ""
}

func tailOf(path string, n int) string {
	b, err := os.ReadFile(path)
	if err != nil {
		return ""
	}
	ls := strings.Split(string(b), "\n")
	if len(ls) > n {
		// keep the head (fatal error line) and the tail
		head := ls[:n/2]
		t := ls[len(ls)-n/2:]
		ls = append(append(head, "…"), t...)
	}
	return strings.Join(ls, "\n")
}

func firstLine(s string) string {
	if i := strings.IndexByte(s, '\n'); i >= 0 {
		return s[:i]
	}
	return s
}

func trunc(b []byte, n int) string {
	if len(b) > n {
		return string(b[:n]) + "…"
	}
	return string(b)
}

func stripNums(s string) string {
	var b strings.Builder
	prev := false
	for _, r := range s {
		if r >= '0' && r <= '9' {
			if !prev {
				b.WriteByte('N')
			}
			prev = true
			continue
		}
		prev = false
		b.WriteRune(r)
	}
	return b.String()
}
