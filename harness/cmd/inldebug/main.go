// inldebug prints the smallest paragraphs on which goldmark and the inline reference model disagree (development aid).
package main

import (
	"fmt"
	"os"
	"sort"
	"strconv"

	"verif/props"
)

func main() {
	max := 40
	if len(os.Args) > 1 {
		max, _ = strconv.Atoi(os.Args[1])
	}
	ms := props.InlineMismatches(len(os.Args) > 2 && os.Args[2] == "thorough")
	sort.Slice(ms, func(i, j int) bool {
		if len(ms[i].Para) != len(ms[j].Para) {
			return len(ms[i].Para) < len(ms[j].Para)
		}
		return ms[i].Para < ms[j].Para
	})
	fmt.Println(len(ms), "mismatches")
	for i, m := range ms {
		if i >= max {
			break
		}
		fmt.Printf("%-22s %q\n   goldmark %q\n   model    %q\n", m.Family, m.Para, m.Got, m.Want)
	}
}
