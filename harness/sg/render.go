package sg

import (
	"fmt"
	"math/rand"
	"strings"
)

// Doc is one generated document: its Markdown spelling and the HTML the specification prescribes.
type Doc struct {
	Markdown string
	HTML     string
	Soft     int // soft line breaks rendered as text
	Hard     int
	Blocks   int
	Depth    int
}

// Document draws a document.
func Document(r *rand.Rand, maxDepth, maxBlocks, maxLines int, st Stats) Doc {
	return document(&Gen{R: r, MaxDepth: maxDepth, MaxBlock: maxBlocks, MaxLines: maxLines, St: st})
}

// DocumentTabsAnywhere is Document with tabs that may start inside the spaces after a container marker.
func DocumentTabsAnywhere(r *rand.Rand, maxDepth, maxBlocks, maxLines int, st Stats) Doc {
	return document(&Gen{R: r, MaxDepth: maxDepth, MaxBlock: maxBlocks, MaxLines: maxLines, St: st, TabInsideRun: true})
}

// DocumentNoTabs draws a document that contains no tab character (for relations whose statement excludes tabs).
func DocumentNoTabs(r *rand.Rand, maxDepth, maxBlocks, maxLines int, st Stats) Doc {
	return document(&Gen{R: r, MaxDepth: maxDepth, MaxBlock: maxBlocks, MaxLines: maxLines, St: st, NoTabs: true})
}

func document(g *Gen) Doc {
	maxBlocks := g.MaxBlock
	n := 1 + g.pick(maxBlocks)
	if n > 6 && g.chance(1, 2) {
		n = 1 + g.pick(6)
	}
	blocks := g.genBlocks(0, n, false)
	// place the definitions of every label that was referenced
	if len(g.defs) > 0 {
		defs := g.defs
		g.R.Shuffle(len(defs), func(i, j int) { defs[i], defs[j] = defs[j], defs[i] })
		for len(defs) > 0 {
			k := 1 + g.pick(len(defs))
			group := defs[:k]
			defs = defs[k:]
			db := &block{k: kRefDef}
			for _, d := range group {
				db.lines = append(db.lines, defLines(g, d)...)
				if g.chance(1, 4) {
					db.lines = append(db.lines, mline{s: ""})
				}
			}
			for len(db.lines) > 0 && db.lines[len(db.lines)-1].s == "" {
				db.lines = db.lines[:len(db.lines)-1]
			}
			// an open fenced code block must stay the last block of the document
			limit := len(blocks)
			if last := blocks[len(blocks)-1]; last.k == kFenced && last.open {
				limit = len(blocks) - 1
			}
			insert := func(p int, nb *block) {
				blocks = append(blocks[:p:p], append([]*block{nb}, blocks[p:]...)...)
			}
			switch x := g.pick(10); {
			case x < 5:
				insert(limit, db)
				g.St.add("ref-defs:at-end")
			case x < 7:
				insert(0, db)
				g.St.add("ref-defs:at-top")
			case x < 9:
				insert(g.pick(limit+1), db)
				g.St.add("ref-defs:between-blocks")
			default:
				// two adjacent quotes stay separate when a blank line is between them
				insert(g.pick(limit+1), &block{k: kQuote, kids: []*block{db}})
				g.St.add("ref-defs:inside-quote")
			}
		}
	}
	lines := g.assemble(blocks, false)
	var sb strings.Builder
	for i, l := range lines {
		s := l.s
		if !g.NoTabs && l.structural >= 4 && strings.HasPrefix(s, "    ") && g.chance(1, 3) {
			if l.structural >= 8 && strings.HasPrefix(s, "        ") && g.chance(1, 2) {
				s = "\t\t" + s[8:]
			} else {
				s = "\t" + s[4:]
			}
			g.St.add("indent:tab")
		} else if !g.NoTabs && l.tabN > 0 && g.chance(1, 3) {
			// a tab after a block quote or list marker, reaching the same columns as the spaces it replaces
			c := l.tabAt
			// the tab starts directly after the marker or, sometimes, o columns into the structural spaces that follow it
			// ("> " TAB "- a": marker, its space, then a tab that stands for the remaining columns up to the next tab stop)
			o := 0
			if l.tabN > 1 && g.TabInsideRun && g.chance(1, 2) && strings.TrimSpace(s[c+1:]) != "" {
				// (not on whitespace-only lines: how much white space a blank line inside a code block keeps when a tab straddles
				// the indentation is a deviation seen on the unchanged tree and deliberately not constructed - DESIGN section 6)
				o = 1 + g.pick(l.tabN-1)
			}
			start := c + 1 + o
			width := 4 - start%4
			if o+width <= l.tabN && start+width <= len(s) && strings.TrimLeft(s[c+1:start+width], " ") == "" && !strings.Contains(s[:start], "\t") {
				s = s[:start] + "\t" + s[start+width:]
				switch {
				case o > 0:
					g.St.add("indent:tab-inside-the-spaces-after-a-marker")
				case s[c] == '>':
					g.St.add("indent:tab-after-quote-marker")
				default:
					g.St.add("indent:tab-after-list-marker")
				}
			}
		}
		sb.WriteString(s)
		if i < len(lines)-1 || g.chance(3, 4) {
			sb.WriteString("\n")
		}
	}
	d := Doc{Markdown: sb.String(), HTML: g.htmlOf(blocks, false), Blocks: len(blocks)}
	d.Soft, d.Hard = countBreaks(blocks)
	return d
}

func countBreaks(bs []*block) (soft, hard int) {
	for _, b := range bs {
		switch b.k {
		case kPara, kSetext:
			soft += b.c.soft
			hard += b.c.hard
		case kQuote:
			s, h := countBreaks(b.kids)
			soft, hard = soft+s, hard+h
		case kList:
			for _, it := range b.items {
				s, h := countBreaks(it)
				soft, hard = soft+s, hard+h
			}
		}
	}
	return
}

// assemble renders sibling blocks with separators.
func (g *Gen) assemble(bs []*block, inItemTight bool) []mline {
	var out []mline
	var prev *block
	for _, b := range bs {
		noIndent := prev != nil && prev.k == kList
		if prev != nil {
			if canAbut(prev, b) && g.chance(1, 2) {
				g.St.add("adjacent:" + kindNames[prev.k] + "->" + kindNames[b.k])
			} else {
				out = append(out, g.blankLine())
				if g.chance(1, 5) {
					out = append(out, g.blankLine())
				}
			}
		}
		out = append(out, g.render(b, noIndent)...)
		prev = b
	}
	return out
}

// blankLine is a separator line: empty, or (sometimes) made of spaces and tabs only.
func (g *Gen) blankLine() mline {
	if g.chance(1, 6) {
		g.St.add("blank-line:whitespace-only")
		ws := []string{" ", "  ", "   ", "    ", "      ", "\t", " \t", "  \t "}
		if g.NoTabs {
			ws = ws[:5]
		}
		return mline{s: ws[g.pick(len(ws))], blank: true}
	}
	return mline{s: ""}
}

func (g *Gen) indent(noIndent bool) string {
	if noIndent {
		return ""
	}
	n := g.pick(6)
	if n > 3 {
		n = 0
	}
	return strings.Repeat(" ", n)
}

// render produces the Markdown lines of one block. noIndent forbids leading indentation of the block's first line.
func (g *Gen) render(b *block, noIndent bool) []mline {
	switch b.k {
	case kPara, kATX, kBreak, kSetext:
		out := append([]mline(nil), b.lines...)
		ind := g.indent(noIndent)
		out[0].s = ind + out[0].s
		if g.TabInsideRun && out[0].structural == 0 {
			// the one to three columns of extra leading indentation are structural too: inside a container a tab may stand for them
			out[0].structural = len(ind)
		}
		return out
	case kIndented, kHTML:
		return append([]mline(nil), b.lines...)
	case kFenced:
		out := append([]mline(nil), b.lines...)
		if noIndent {
			// strip the fence's own indentation (and what content lines carry of it); the closing fence keeps its own
			for i := range out {
				if i == len(out)-1 && !b.open && i > 0 {
					continue
				}
				k := out[i].structural
				if k > len(out[i].s) {
					k = len(out[i].s)
				}
				out[i].s = out[i].s[k:]
				out[i].structural = 0
			}
		}
		return out
	case kRefDef:
		out := append([]mline(nil), b.lines...)
		if noIndent {
			out[0].s = strings.TrimLeft(out[0].s, " ")
		}
		return out
	case kQuote:
		inner := g.assemble(b.kids, false)
		var out []mline
		for i, l := range inner {
			if l.lazy && l.drop != 2 && g.chance(1, 4) {
				// lazy continuation line: the marker is omitted
				l.drop = 1
				l.structural = 0
				out = append(out, l)
				g.St.add("lazy:quote")
				continue
			}
			ind := g.indent(noIndent && i == 0)
			pre := ind + ">"
			if l.s == "" {
				if g.chance(1, 2) {
					pre += " "
				}
			} else if strings.HasPrefix(l.s, " ") || g.chance(3, 4) {
				pre += " "
			}
			nl := mline{s: pre + l.s, lazy: l.lazy, drop: l.drop}
			if l.lazy {
				nl.drop = 2
			}
			if l.tabN > 0 {
				nl.tabAt, nl.tabN = l.tabAt+len(pre), l.tabN
			}
			if strings.HasSuffix(pre, " ") && l.s != "" && (nl.tabN == 0 || g.chance(1, 2)) {
				nl.tabAt, nl.tabN = len(ind), 1+l.structural
			}
			out = append(out, nl)
		}
		return out
	case kList:
		ind := g.indent(noIndent)
		var out []mline
		num := b.start
		// a loose list needs at least one blank line: between two items, or between two children of one item
		mustGap, mustItem := -1, -1
		if !b.tight {
			if len(b.items) > 1 && g.chance(2, 3) {
				mustGap = 1 + g.pick(len(b.items)-1)
			} else {
				var cand []int
				for i, it := range b.items {
					if len(it) > 1 {
						cand = append(cand, i)
					}
				}
				if len(cand) > 0 {
					mustItem = cand[g.pick(len(cand))]
				} else {
					mustGap = 1 + g.pick(len(b.items)-1)
				}
			}
		}
		for i, item := range b.items {
			if i > 0 {
				if !b.tight && (i == mustGap || g.chance(3, 4)) {
					out = append(out, mline{s: ""})
					g.St.add("list:blank-between-items")
				}
			}
			var marker string
			if b.ordered {
				marker = fmt.Sprintf("%d%c", num, b.delim)
				num = g.pick(1000)
			} else {
				marker = string(b.marker)
			}
			if len(item) == 0 {
				out = append(out, mline{s: ind + marker})
				continue
			}
			sp := 1 + g.pick(4)
			if item[0].k == kIndented {
				sp = 1 // marker, one space, then the four columns of the code block
			}
			blankStart := b.blankStart[i]
			if blankStart {
				// the marker stands alone on its line: the content column is one past the marker whatever follows it
				out = append(out, mline{s: ind + marker + strings.Repeat(" ", g.pick(3))})
				sp = 1
			}
			w := len(marker) + sp
			var inner []mline
			if b.tight {
				inner = g.assembleTight(item)
			} else {
				inner = g.assembleLoose(item, i == mustItem)
			}
			pad := strings.Repeat(" ", len(ind)+w)
			for j, l := range inner {
				switch {
				case j == 0 && !blankStart:
					nl := mline{s: ind + marker + strings.Repeat(" ", sp) + l.s}
					if g.TabInsideRun {
						nl.structural = len(ind)
					}
					if l.tabN > 0 {
						nl.tabAt, nl.tabN = l.tabAt+len(ind)+len(marker)+sp, l.tabN
					}
					if nl.tabN == 0 || g.chance(1, 2) {
						nl.tabAt, nl.tabN = len(ind)+len(marker)-1, sp+l.structural
					}
					out = append(out, nl)
				case l.s == "":
					out = append(out, mline{s: ""})
				case l.lazy && l.drop != 2 && g.chance(1, 5):
					k := g.pick(len(pad))
					if k > 3 {
						k = 0
					}
					out = append(out, mline{s: strings.Repeat(" ", k) + strings.TrimLeft(l.s, " "), lazy: true, drop: 1})
					g.St.add("lazy:list-item")
				default:
					nl := mline{s: pad + l.s, lazy: l.lazy, drop: l.drop, structural: len(pad) + l.structural}
					if l.structural == 0 && strings.HasPrefix(l.s, " ") {
						nl.structural = len(pad)
					}
					if l.lazy {
						nl.drop = 2
					}
					if l.tabN > 0 {
						nl.tabAt, nl.tabN = l.tabAt+len(pad), l.tabN
					}
					out = append(out, nl)
				}
			}
		}
		return out
	}
	return nil
}

// assembleTight renders item children without any blank line between them.
func (g *Gen) assembleTight(item []*block) []mline {
	var out []mline
	for i, c := range item {
		out = append(out, g.render(c, i == 0 || item[i-1].k == kList)...)
	}
	return out
}

// assembleLoose renders item children separated by blank lines (abutting only where allowed, by chance).
func (g *Gen) assembleLoose(item []*block, mustBlank bool) []mline {
	var out []mline
	for i, c := range item {
		if i > 0 {
			if canAbut(item[i-1], c) && g.chance(1, 3) && !(mustBlank && i == 1) {
				// no blank line here
			} else {
				out = append(out, mline{s: ""})
			}
		}
		out = append(out, g.render(c, i == 0 || item[i-1].k == kList)...)
	}
	return out
}

// ---- prescribed HTML ----

func (g *Gen) htmlOf(bs []*block, tight bool) string {
	var sb strings.Builder
	for _, b := range bs {
		sb.WriteString(g.htmlBlock(b, tight))
	}
	return sb.String()
}

func (g *Gen) htmlBlock(b *block, tight bool) string {
	switch b.k {
	case kPara:
		if tight {
			return b.c.html + "\n"
		}
		return "<p>" + b.c.html + "</p>\n"
	case kATX, kSetext, kBreak, kIndented, kFenced, kHTML:
		return b.html
	case kRefDef:
		return ""
	case kQuote:
		return "<blockquote>\n" + g.htmlOf(b.kids, false) + "</blockquote>\n"
	case kList:
		tag := "ul"
		attr := ""
		if b.ordered {
			tag = "ol"
			if b.start != 1 {
				attr = fmt.Sprintf(" start=\"%d\"", b.start)
			}
		}
		var sb strings.Builder
		sb.WriteString("<" + tag + attr + ">\n")
		for _, it := range b.items {
			sb.WriteString("<li>")
			if len(it) > 0 {
				sb.WriteString("\n")
			}
			sb.WriteString(g.htmlOf(it, b.tight))
			sb.WriteString("</li>\n")
		}
		sb.WriteString("</" + tag + ">\n")
		return sb.String()
	}
	return ""
}
