package sg

import "strings"

// EmphHTML is an independent implementation of the emphasis rules of CommonMark 0.31.2 (section 6.2 and the appendix
// "process emphasis") for one line of inline content over a restricted alphabet: ASCII letters and digits, spaces, the
// delimiters '*' and '_', and ASCII punctuation that has no other inline meaning here (. , ; : ! ? ( ) " ' - + = / # % $ @ ^ ~ { } |).
// It is written from the specification text, deliberately without the "openers bottom" optimisation (a plain search for the
// nearest admissible opener), and is used as a reference model for C02: goldmark's output for such a line must equal it.
// The beginning and the end of the line count as whitespace.
func EmphHTML(s string) string {
	type node struct {
		text     string // literal text (for delimiter nodes: the remaining delimiter characters)
		delim    bool
		ch       byte
		count    int // remaining delimiter characters
		orig     int // length of the whole run
		canOpen  bool
		canClose bool
		onStack  bool
		tag      string // "<em>", "</em>", ... for tag nodes
	}
	isWS := func(c byte) bool { return c == ' ' || c == '\t' || c == '\n' || c == 0 }
	isPunct := func(c byte) bool {
		return c >= '!' && c <= '/' || c >= ':' && c <= '@' || c >= '[' && c <= '`' || c >= '{' && c <= '~'
	}
	var nodes []*node
	for i := 0; i < len(s); {
		c := s[i]
		if c != '*' && c != '_' {
			j := i
			for j < len(s) && s[j] != '*' && s[j] != '_' {
				j++
			}
			nodes = append(nodes, &node{text: s[i:j]})
			i = j
			continue
		}
		j := i
		for j < len(s) && s[j] == c {
			j++
		}
		var before, after byte // 0 = beginning / end of line
		if i > 0 {
			before = s[i-1]
		}
		if j < len(s) {
			after = s[j]
		}
		left := !isWS(after) && (!isPunct(after) || isWS(before) || isPunct(before))
		right := !isWS(before) && (!isPunct(before) || isWS(after) || isPunct(after))
		n := &node{delim: true, ch: c, count: j - i, orig: j - i, onStack: true}
		if c == '*' {
			n.canOpen, n.canClose = left, right
		} else {
			n.canOpen = left && (!right || isPunct(before))
			n.canClose = right && (!left || isPunct(after))
		}
		nodes = append(nodes, n)
		i = j
	}
	index := func(n *node) int {
		for i, x := range nodes {
			if x == n {
				return i
			}
		}
		return -1
	}
	insert := func(at int, n *node) {
		nodes = append(nodes, nil)
		copy(nodes[at+1:], nodes[at:])
		nodes[at] = n
	}
	nextDelim := func(from int) *node {
		for i := from; i < len(nodes); i++ {
			if nodes[i].delim && nodes[i].onStack {
				return nodes[i]
			}
		}
		return nil
	}
	cur := nextDelim(0)
	for cur != nil {
		ci := index(cur)
		if !cur.canClose {
			cur = nextDelim(ci + 1)
			continue
		}
		// look back for the nearest admissible opener
		var opener *node
		for i := ci - 1; i >= 0; i-- {
			o := nodes[i]
			if !o.delim || !o.onStack || o.ch != cur.ch || !o.canOpen {
				continue
			}
			if (o.canClose || cur.canOpen) && (o.orig+cur.orig)%3 == 0 && !(o.orig%3 == 0 && cur.orig%3 == 0) {
				continue
			}
			opener = o
			break
		}
		if opener == nil {
			old := cur
			cur = nextDelim(ci + 1)
			if !old.canOpen {
				old.onStack = false // it can neither close nor open anything: plain text from now on
			}
			continue
		}
		oi := index(opener)
		n := 1
		tag := "em"
		if opener.count >= 2 && cur.count >= 2 {
			n, tag = 2, "strong"
		}
		// delimiters between opener and closer leave the stack (they stay as text)
		for i := oi + 1; i < ci; i++ {
			if nodes[i].delim {
				nodes[i].onStack = false
			}
		}
		opener.count -= n
		cur.count -= n
		// the open tag goes after the opener's remaining characters, the close tag before the closer's
		insert(oi+1, &node{tag: "<" + tag + ">"})
		ci++
		insert(ci, &node{tag: "</" + tag + ">"})
		ci++
		if opener.count == 0 {
			opener.onStack = false
		}
		if cur.count == 0 {
			cur.onStack = false
			cur = nextDelim(ci + 1)
		}
	}
	var b strings.Builder
	for _, n := range nodes {
		switch {
		case n.tag != "":
			b.WriteString(n.tag)
		case n.delim:
			b.WriteString(strings.Repeat(string(n.ch), n.count))
		default:
			b.WriteString(escHTML(n.text))
		}
	}
	return b.String()
}

// EmphAlphabetOK reports whether a line lies in the alphabet EmphHTML is specified for.
func EmphAlphabetOK(s string) bool {
	for i := 0; i < len(s); i++ {
		c := s[i]
		switch {
		case c >= 'a' && c <= 'z', c >= 'A' && c <= 'Z', c >= '0' && c <= '9', c == ' ', c == '*', c == '_':
		case strings.IndexByte(".,;:!?()\"'-+=/#%$@^~{}|", c) >= 0:
		default:
			return false
		}
	}
	return true
}
