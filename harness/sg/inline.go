// Package sg is the by-construction document generator of C02: it draws an abstract CommonMark
// document and derives, independently, (i) a Markdown spelling under random surface choices and
// (ii) the HTML the specification prescribes for that structure. Every construct is generated only in
// contexts where the specification fixes its meaning (see DESIGN.md section 4 / C02).
package sg

import (
	"fmt"
	"math/rand"
	"strings"
)

// Stats counts constructs and surface choices (evidence).
type Stats map[string]int

func (s Stats) add(k string) {
	if s != nil {
		s[k]++
	}
}

// Gen carries the PRNG, size limits and the statistics of one document.
type Gen struct {
	R        *rand.Rand
	MaxDepth int
	MaxBlock int
	MaxLines int
	St       Stats
	defs     []*refDef
	nlabel   int
	NoTabs   bool
	// TabInsideRun: a tab may also start inside the run of structural spaces that follows a marker, not only directly after it
	TabInsideRun bool
	ml           bool // inside multi-line content: tokens may contain a line break before a word
}

func (g *Gen) pick(n int) int { return g.R.Intn(n) }
func (g *Gen) chance(num, den int) bool {
	return g.R.Intn(den) < num
}

var wordPool = []string{"foo", "bar", "baz", "alpha", "beta", "gamma", "delta", "lorem", "ipsum", "dolor", "sit", "amet", "x", "yz", "quux", "word", "text", "here", "some", "more"}

func (g *Gen) word() string { return wordPool[g.pick(len(wordPool))] }

func escHTML(s string) string {
	var b strings.Builder
	for i := 0; i < len(s); i++ {
		switch s[i] {
		case '&':
			b.WriteString("&amp;")
		case '<':
			b.WriteString("&lt;")
		case '>':
			b.WriteString("&gt;")
		case '"':
			b.WriteString("&quot;")
		default:
			b.WriteByte(s[i])
		}
	}
	return b.String()
}

// ---- inline model ----

// inline is one inline token: md is its spelling, html its prescribed rendering, plain its text content (for alt).
type inline struct {
	md, html, plain string
	word            bool // md starts with a letter and the token cannot start a block: a line may begin with it
}

// escape atoms: a character written as backslash escape or character reference; expected text is the character itself.
var escapable = "!\"#$%&'()*+,-./:;<=>?@[\\]^_`{|}~"

var namedRefs = []struct{ name, val string }{
	{"amp", "&"}, {"lt", "<"}, {"gt", ">"}, {"quot", "\""}, {"copy", "©"}, {"ouml", "ö"}, {"AElig", "Æ"}, {"hearts", "♥"}, {"frac34", "¾"}, {"Dcaron", "Ď"}, {"ast", "*"}, {"lowbar", "_"}, {"lbrack", "["}, {"grave", "`"}, {"num", "#"}, {"plus", "+"}, {"excl", "!"}, {"bsol", "\\"},
}

// sequences that look like escapes or references but are literal text, or that decode to the replacement character
var inertAtoms = []struct{ md, html, plain string }{
	{"&nosuchentity;", "&amp;nosuchentity;", "&nosuchentity;"}, {"&copy", "&amp;copy", "&copy"}, {"&#87654321;", "&amp;#87654321;", "&#87654321;"},
	{"&#;", "&amp;#;", "&#;"}, {"&#x;", "&amp;#x;", "&#x;"}, {"&#abcdef0;", "&amp;#abcdef0;", "&#abcdef0;"}, {"&", "&amp;", "&"},
	{"&#0;", "\uFFFD", "\uFFFD"}, {"&#xD800;", "\uFFFD", "\uFFFD"}, {"&#1114112;", "\uFFFD", "\uFFFD"},
	{"\\a", "\\a", "\\a"}, {"\\é", "\\é", "\\é"}, {"\\1", "\\1", "\\1"},
}

func (g *Gen) atom() inline {
	if g.chance(1, 8) {
		a := inertAtoms[g.pick(len(inertAtoms))]
		g.St.add("escape:inert-lookalike")
		return inline{a.md, a.html, a.plain, false}
	}
	switch g.pick(4) {
	case 0: // backslash escape
		c := escapable[g.pick(len(escapable))]
		g.St.add("escape:backslash")
		return inline{"\\" + string(c), escHTML(string(c)), string(c), false}
	case 1: // named reference
		n := namedRefs[g.pick(len(namedRefs))]
		g.St.add("escape:named")
		return inline{"&" + n.name + ";", escHTML(n.val), n.val, false}
	case 2: // decimal reference
		c := escapable[g.pick(len(escapable))]
		g.St.add("escape:decimal")
		z := strings.Repeat("0", g.pick(3))
		return inline{fmt.Sprintf("&#%s%d;", z, c), escHTML(string(c)), string(c), false}
	default: // hex reference
		c := escapable[g.pick(len(escapable))]
		g.St.add("escape:hex")
		x := "x"
		if g.chance(1, 2) {
			x = "X"
		}
		f := "%x"
		if g.chance(1, 2) {
			f = "%X"
		}
		z := strings.Repeat("0", g.pick(3))
		return inline{"&#" + x + z + fmt.Sprintf(f, c) + ";", escHTML(string(c)), string(c), false}
	}
}

// wordTok is a word, optionally with an embedded or trailing atom or inert punctuation.
func (g *Gen) wordTok() inline {
	w := g.word()
	switch g.pick(12) {
	case 0:
		a := g.atom()
		w2 := g.word()
		return inline{w + a.md + w2, w + a.html + w2, w + a.plain + w2, true}
	case 1:
		a := g.atom()
		return inline{w + a.md, w + a.html, w + a.plain, true}
	case 2:
		p := []string{",", ".", ";", ":", "?", "'s"}[g.pick(6)]
		return inline{w + p, w + p, w + p, true}
	}
	return inline{w, w, w, true}
}

// codeSpan builds a code span whose fence length differs from every backtick run inside.
func (g *Gen) codeSpan() inline {
	parts := []string{g.word()}
	for i := g.pick(3); i > 0; i-- {
		switch g.pick(7) {
		case 0:
			parts = append(parts, "`")
		case 1:
			parts = append(parts, "``")
		case 2:
			parts = append(parts, "*x*")
		case 3:
			parts = append(parts, "<b>")
		case 4:
			parts = append(parts, "&amp;")
		case 5:
			parts = append(parts, "\\*")
		default:
			parts = append(parts, g.word())
		}
	}
	if g.chance(1, 2) {
		g.R.Shuffle(len(parts), func(i, j int) { parts[i], parts[j] = parts[j], parts[i] })
	}
	content := strings.Join(parts, " ")
	mdContent := content
	if g.ml && len(parts) > 1 && g.chance(1, 5) {
		// a line ending inside a code span is converted to a space; the next line must start with a word
		for i := len(parts) - 1; i >= 1; i-- {
			c0 := parts[i][0]
			if c0 >= 'a' && c0 <= 'z' {
				mdContent = strings.Join(parts[:i], " ") + "\n" + strings.Join(parts[i:], " ")
				g.St.add("multiline:code-span")
				break
			}
		}
	}
	runs := map[int]bool{}
	for i := 0; i < len(content); {
		if content[i] == '`' {
			j := i
			for j < len(content) && content[j] == '`' {
				j++
			}
			runs[j-i] = true
			i = j
		} else {
			i++
		}
	}
	n := 1 + g.pick(3)
	for runs[n] {
		n++
	}
	fence := strings.Repeat("`", n)
	pad := ""
	if content[0] == '`' || content[len(content)-1] == '`' || g.chance(1, 4) {
		pad = " " // one space on both sides is stripped
	}
	g.St.add(fmt.Sprintf("codespan:fence%d", n))
	return inline{fence + pad + mdContent + pad + fence, "<code>" + escHTML(content) + "</code>", content, false}
}

type dest struct{ md, href string }

var dests = []dest{
	{"/url", "/url"}, {"/uri", "/uri"}, {"http://example.com/a?b=c&d=e", "http://example.com/a?b=c&amp;d=e"}, {"#frag", "#frag"},
	{"/u(1)", "/u(1)"}, {"</my url>", "/my%20url"}, {"<b)c>", "b)c"}, {"/a\\*b", "/a*b"}, {"/f&ouml;&ouml;", "/f%C3%B6%C3%B6"}, {"foo\\)bar", "foo)bar"},
	{"<>", ""}, {"/url%20x", "/url%20x"}, {"/ä", "/%C3%A4"}, {"a\\b", "a%5Cb"}, {"/q&#35;r", "/q#r"}, {"/q&#035;r", "/q#r"},
	// numeric references at the limits of their digit counts: six hexadecimal digits (the largest code point; leading zeros),
	// seven decimal digits, the first and the last two-, three- and four-byte characters
	{"/u&#x10FFFF;", "/u%F4%8F%BF%BF"}, {"/p&#x00002A;q", "/p*q"}, {"/p&#0000042;q", "/p*q"}, {"/d&#1114111;", "/d%F4%8F%BF%BF"}, {"/e&#x80;&#x7FF;", "/e%C2%80%DF%BF"},
	{"/f&#x800;&#xFFFD;", "/f%E0%A0%80%EF%BF%BD"}, {"/g&#x10000;", "/g%F0%90%80%80"}, {"/h&#X00E4;", "/h%C3%A4"},
}

type title struct{ md, attr string }

var titles = []title{
	{"", ""}, {"", ""}, {` "title"`, "title"}, {` 'title'`, "title"}, {` (title)`, "title"}, {` "ti\"tle"`, "ti&quot;tle"}, {` 'a "q" b'`, "a &quot;q&quot; b"},
	{` "a &amp; &ouml;"`, "a &amp; ö"}, {` "t\*t"`, "t*t"}, {"  'sp aced'", "sp aced"}, {` "&#42;x&#x2A;"`, "*x*"},
}

var multiLineTitles = []title{{" 'two\nlines'", "two\nlines"}, {" \"a\nb c\"", "a\nb c"}, {" (x\n y\nz)", "x\ny\nz"}}

type refDef struct {
	label string // canonical spelling (lower-case words separated by single spaces)
	d     dest
	t     title
}

var labelWords = []string{"ref", "one", "two", "link", "lab", "äö", "σ", "k9"}

func (g *Gen) newDef() *refDef {
	g.nlabel++
	n := 1 + g.pick(2)
	var ws []string
	for i := 0; i < n; i++ {
		ws = append(ws, labelWords[g.pick(len(labelWords))])
	}
	ws = append(ws, fmt.Sprintf("n%d", g.nlabel)) // unique
	d := &refDef{label: strings.Join(ws, " "), d: dests[g.pick(len(dests))], t: titles[g.pick(len(titles))]}
	if g.chance(1, 6) {
		// a title that spans lines (only in definitions, which are rendered line by line)
		d.t = multiLineTitles[g.pick(len(multiLineTitles))]
		g.St.add("ref-def:multi-line-title")
	}
	g.defs = append(g.defs, d)
	return d
}

// respell returns a case/whitespace variant that normalises to the same label.
func (g *Gen) respell(label string) string {
	var b strings.Builder
	for _, r := range label {
		switch {
		case r == ' ':
			switch x := g.pick(6); {
			case x == 0 && !g.NoTabs:
				b.WriteString("\t")
				g.St.add("label:tab")
			case x == 1 && !g.NoTabs:
				b.WriteString(" \t ")
				g.St.add("label:tab")
			default:
				b.WriteString(strings.Repeat(" ", 1+g.pick(3)))
			}
		case g.chance(1, 3):
			b.WriteString(strings.ToUpper(string(r)))
		default:
			b.WriteRune(r)
		}
	}
	return b.String()
}

func titleAttr(t title) string {
	if t.md == "" {
		return ""
	}
	return ` title="` + t.attr + `"`
}

// linkText builds link text / image description content: no links inside.
func (g *Gen) linkText(depth int) (md, html, plain string) {
	n := 1 + g.pick(3)
	var toks []inline
	for i := 0; i < n; i++ {
		switch {
		case i > 0 && g.chance(1, 6):
			toks = append(toks, g.codeSpan())
		case i > 0 && depth < 2 && g.chance(1, 5):
			toks = append(toks, g.emph(depth+1, false))
		default:
			toks = append(toks, g.wordTok())
		}
	}
	return g.joinML(toks, "link-text")
}

func joinToks(toks []inline) (md, html, plain string) {
	var m, h, p []string
	for _, t := range toks {
		m, h, p = append(m, t.md), append(h, t.html), append(p, t.plain)
	}
	return strings.Join(m, " "), strings.Join(h, " "), strings.Join(p, " ")
}

// joinML joins tokens like joinToks but, inside multi-line content, may put a soft or hard line break before one word token,
// so that emphasis and link text span lines.
func (g *Gen) joinML(toks []inline, what string) (md, html, plain string) {
	brk := -1
	if g.ml && len(toks) > 1 && g.chance(1, 5) {
		var cand []int
		for i := 1; i < len(toks); i++ {
			if toks[i].word {
				cand = append(cand, i)
			}
		}
		if len(cand) > 0 {
			brk = cand[g.pick(len(cand))]
		}
	}
	var m, h, p strings.Builder
	for i, t := range toks {
		if i > 0 {
			switch {
			case i == brk && g.chance(1, 4):
				if g.chance(1, 2) {
					m.WriteString("  \n")
				} else {
					m.WriteString("\\\n")
				}
				h.WriteString("<br />\n")
				g.St.add("multiline:" + what + "-hardbreak")
			case i == brk:
				m.WriteString("\n")
				h.WriteString("\n")
				g.St.add("multiline:" + what)
			default:
				m.WriteString(" ")
				h.WriteString(" ")
			}
			p.WriteString(" ")
		}
		m.WriteString(t.md)
		h.WriteString(t.html)
		p.WriteString(t.plain)
	}
	return m.String(), h.String(), p.String()
}

func (g *Gen) link(depth int, image bool) inline {
	// no line breaks inside an image description: how they appear in alt is only recommended by the specification
	saved := g.ml
	if image {
		g.ml = false
	}
	tm, th, tp := g.linkText(depth)
	g.ml = saved
	if !image && g.chance(1, 6) {
		im := g.link(depth+1, true)
		tm, th, tp = tm+" "+im.md, th+" "+im.html, tp+" "+im.plain
	}
	bang := ""
	if image {
		bang = "!"
	}
	var href, tattr, md string
	kind := g.pick(4)
	switch kind {
	case 0: // inline
		d, t := dests[g.pick(len(dests))], titles[g.pick(len(titles))]
		if g.ml && g.chance(1, 5) {
			// a title that continues on the next line (inside a container the continuation carries the container's markers)
			t = multiLineTitles[g.pick(len(multiLineTitles))]
			g.St.add("multiline:inline-title")
		}
		sp := strings.Repeat(" ", g.pick(2))
		md = bang + "[" + tm + "](" + sp + d.md + t.md + sp + ")"
		href, tattr = d.href, titleAttr(t)
		g.St.add("link:inline")
	case 1: // full reference
		d := g.newDef()
		md = bang + "[" + tm + "][" + g.respell(d.label) + "]"
		href, tattr = d.d.href, titleAttr(d.t)
		g.St.add("link:full")
	default: // collapsed / shortcut: the text is the label itself
		d := g.newDef()
		sp := g.respell(d.label)
		if g.ml && !image && g.chance(1, 4) {
			// the label itself continues on the next line (a line ending inside a label is label white space); inside a container
			// the continuation line carries the container's markers, which are not part of the label
			if ws := strings.Split(d.label, " "); len(ws) > 1 {
				k := 1 + g.pick(len(ws)-1)
				sp = g.respell(strings.Join(ws[:k], " ")) + "\n" + g.respell(strings.Join(ws[k:], " "))
				g.St.add("multiline:reference-label")
			}
		}
		tm, th, tp = sp, escHTML(sp), strings.ReplaceAll(sp, "\n", " ")
		if kind == 2 {
			md = bang + "[" + sp + "][]"
			g.St.add("link:collapsed")
		} else {
			md = bang + "[" + sp + "]"
			g.St.add("link:shortcut")
		}
		href, tattr = d.d.href, titleAttr(d.t)
	}
	if image {
		g.St.add("image")
		return inline{md, `<img src="` + href + `" alt="` + escHTML(tp) + `"` + tattr + ` />`, tp, false}
	}
	return inline{md, `<a href="` + href + `"` + tattr + `>` + th + `</a>`, tp, false}
}

var autolinks = []inline{
	{"<http://foo.bar.baz/test?q=hello&id=22&boolean>", `<a href="http://foo.bar.baz/test?q=hello&amp;id=22&amp;boolean">http://foo.bar.baz/test?q=hello&amp;id=22&amp;boolean</a>`, "", false},
	{"<irc://foo.bar:2233/baz>", `<a href="irc://foo.bar:2233/baz">irc://foo.bar:2233/baz</a>`, "", false},
	{"<MAILTO:FOO@BAR.BAZ>", `<a href="MAILTO:FOO@BAR.BAZ">MAILTO:FOO@BAR.BAZ</a>`, "", false},
	{"<foo@bar.example.com>", `<a href="mailto:foo@bar.example.com">foo@bar.example.com</a>`, "", false},
	{"<foo+special@Bar.baz-bar0.com>", `<a href="mailto:foo+special@Bar.baz-bar0.com">foo+special@Bar.baz-bar0.com</a>`, "", false},
	{"<https://example.com/\\[\\>", `<a href="https://example.com/%5C%5B%5C">https://example.com/\[\</a>`, "", false},
	{"<a+b+c:d>", `<a href="a+b+c:d">a+b+c:d</a>`, "", false},
}

var rawInline = []string{`<span class="x">`, `</span>`, `<br/>`, `<a  href="u"  title='t' >`, `<!-- a comment -->`, `<?php echo 1; ?>`, `<![CDATA[>&<]]>`, `<!ELEMENT br EMPTY>`, `<b2 data="foo" >`, `<a href="\*">`}

// emph builds emphasis or strong emphasis whose delimiter runs are unambiguously flanking.
// avoid = delimiter that must not be used (directly enclosing emphasis).
func (g *Gen) emph(depth int, allowLinks bool) inline { return g.emphWith(depth, allowLinks, 0, false) }

// wordEdges forces plain words at both edges: an emphasis that sits at the edge of an enclosing emphasis must not
// nest again at its own edge (three adjacent runs make the middle one both left- and right-flanking).
func (g *Gen) emphWith(depth int, allowLinks bool, avoid byte, wordEdges bool) inline {
	ch := byte('*')
	if g.chance(1, 2) {
		ch = '_'
	}
	if ch == avoid {
		if ch == '*' {
			ch = '_'
		} else {
			ch = '*'
		}
	}
	strong := g.chance(1, 2)
	n := 1 + g.pick(3)
	var toks []inline
	for i := 0; i < n; i++ {
		edge := i == 0 || i == n-1
		switch {
		case depth < 3 && g.chance(1, 5) && !(edge && wordEdges):
			// nested emphasis: at an edge its delimiter must differ from ours
			av := byte(0)
			if edge {
				av = ch
			}
			toks = append(toks, g.emphWith(depth+1, allowLinks, av, edge))
		case !edge && g.chance(1, 5):
			toks = append(toks, g.codeSpan())
		case !edge && allowLinks && g.chance(1, 6):
			toks = append(toks, g.link(depth+1, g.chance(1, 3)))
		default:
			// plain word at the edges keeps both runs strictly flanking
			w := g.word()
			toks = append(toks, inline{w, w, w, true})
		}
	}
	m, h, p := g.joinML(toks, "emphasis")
	d := string(ch)
	tag := "em"
	if strong {
		d += d
		tag = "strong"
	}
	g.St.add("emphasis:" + d)
	return inline{d + m + d, "<" + tag + ">" + h + "</" + tag + ">", p, false}
}

// line is one line of paragraph-like content: it starts with a word.
func (g *Gen) inlineLine(rich bool) inline {
	toks := []inline{g.wordTok()}
	n := g.pick(5)
	for i := 0; i < n; i++ {
		x := g.pick(20)
		switch {
		case !rich || x < 9:
			toks = append(toks, g.wordTok())
		case x < 11:
			toks = append(toks, g.emph(0, true))
		case x < 13:
			toks = append(toks, g.codeSpan())
		case x < 15:
			toks = append(toks, g.link(0, false))
		case x < 16:
			toks = append(toks, g.link(0, true))
		case x < 17:
			a := autolinks[g.pick(len(autolinks))]
			g.St.add("autolink")
			toks = append(toks, a)
		case x < 18:
			r := rawInline[g.pick(len(rawInline))]
			g.St.add("rawhtml-inline")
			toks = append(toks, inline{r, r, "", false})
		default:
			a := g.atom()
			toks = append(toks, a)
		}
	}
	m, h, p := joinToks(toks)
	return inline{m, h, p, false}
}

// content is 1..n lines joined by soft or hard breaks.
type content struct {
	lines []string // markdown lines (break markers already appended)
	html  string
	soft  int
	hard  int
}

func (g *Gen) content(maxLines int, rich bool) content {
	n := 1 + g.pick(maxLines)
	var c content
	var hb strings.Builder
	for i := 0; i < n; i++ {
		g.ml = true
		l := g.inlineLine(rich)
		g.ml = false
		md := l.md
		c.soft += strings.Count(md, "\n")
		hb.WriteString(l.html)
		if i < n-1 {
			switch g.pick(6) {
			case 0:
				md += strings.Repeat(" ", 2+g.pick(3))
				hb.WriteString("<br />\n")
				c.hard++
				g.St.add("hardbreak:spaces")
			case 1:
				md += "\\"
				hb.WriteString("<br />\n")
				c.hard++
				g.St.add("hardbreak:backslash")
			default:
				if g.chance(1, 4) {
					md += " " // one trailing space is not a hard break
				}
				hb.WriteString("\n")
				c.soft++
				g.St.add("softbreak")
			}
		}
		c.lines = append(c.lines, strings.Split(md, "\n")...)
	}
	c.html = hb.String()
	return c
}
