package sg

import (
	"math/rand"
	"strings"
	"testing"
)

func TestDeterministicAndTabFree(t *testing.T) {
	for seed := int64(1); seed < 200; seed++ {
		a := Document(rand.New(rand.NewSource(seed)), 4, 8, 3, nil)
		b := Document(rand.New(rand.NewSource(seed)), 4, 8, 3, nil)
		if a.Markdown != b.Markdown || a.HTML != b.HTML {
			t.Fatalf("seed %d: generator is not a function of the PRNG", seed)
		}
		c := DocumentNoTabs(rand.New(rand.NewSource(seed)), 4, 8, 3, nil)
		if strings.Contains(c.Markdown, "\t") {
			t.Fatalf("seed %d: DocumentNoTabs produced a tab: %q", seed, c.Markdown)
		}
	}
}

func TestAdjacencyRules(t *testing.T) {
	para := &block{k: kPara}
	if canAbut(para, &block{k: kPara}) || canAbut(para, &block{k: kSetext}) || canAbut(para, &block{k: kIndented}) {
		t.Fatal("a paragraph, Setext heading or indented code must not directly follow a paragraph")
	}
	if !canAbut(para, &block{k: kATX}) || !canAbut(para, &block{k: kFenced}) || canAbut(para, &block{k: kBreak, breakCh: '-'}) || !canAbut(para, &block{k: kBreak, breakCh: '*'}) {
		t.Fatal("interruption rules")
	}
	ol := &block{k: kList, ordered: true, start: 2, items: [][]*block{{para}}, blankStart: []bool{false}}
	if canAbut(para, ol) {
		t.Fatal("an ordered list that does not start at 1 cannot interrupt a paragraph")
	}
	if mayFollowWithBlank(&block{k: kIndented}, &block{k: kIndented}) || mayFollowWithBlank(ol, &block{k: kIndented}) {
		t.Fatal("indented code after indented code / after a list is absorbed")
	}
}
