package sg

import (
	"fmt"
	"strings"
)

// mline is one Markdown line of a block before container prefixes are applied.
type mline struct {
	s    string
	lazy bool // paragraph continuation text: container prefixes may be dropped (laziness)
	// state of prefix dropping: 0 = nothing decided, 1 = every inner container dropped its prefix, 2 = some container kept it
	drop int
	// structural: number of leading columns of s that are indentation consumed by block structure (tabs may replace them)
	structural int
	// tab spot: s[tabAt] is a block quote marker or the last byte of a list marker, followed by tabN spaces that are all
	// structural (the marker's optional/required space plus indentation); a tab may replace as many of them as reach the
	// next tab stop. tabN == 0: no spot.
	tabAt, tabN int
	blank       bool // a whitespace-only separator line
}

type kind int

const (
	kPara kind = iota
	kATX
	kSetext
	kBreak
	kIndented
	kFenced
	kQuote
	kList
	kHTML
	kRefDef
)

var kindNames = []string{"paragraph", "atx-heading", "setext-heading", "thematic-break", "indented-code", "fenced-code", "block-quote", "list", "html-block", "ref-def"}

type block struct {
	k kind
	// leaf data
	c        content
	level    int
	lines    []mline // pre-rendered markdown lines for leaves (without own leading indent applied)
	html     string  // prescribed HTML for leaves that do not depend on tightness
	htmlType int
	open     bool // fenced code block left open: must be the last block of its container
	// containers
	kids       []*block   // quote
	items      [][]*block // list
	blankStart []bool     // per item: the item begins with a blank line (marker alone on its line)
	ordered    bool
	start      int
	delim      byte // '.' or ')'
	marker     byte // '-', '+', '*'
	tight      bool
	breakCh    byte
}

func (b *block) endsWithPara() bool {
	switch b.k {
	case kPara:
		return true
	case kQuote:
		return len(b.kids) > 0 && b.kids[len(b.kids)-1].endsWithPara()
	case kList:
		it := b.items[len(b.items)-1]
		return len(it) > 0 && it[len(it)-1].endsWithPara()
	}
	return false
}

func (b *block) closedLeaf() bool {
	switch b.k {
	case kATX, kSetext, kBreak:
		return true
	case kFenced:
		return !b.open
	case kHTML:
		return b.htmlType <= 5
	}
	return false
}

// canAbut reports whether next may follow prev without a blank line and keep its meaning.
func canAbut(prev, next *block) bool {
	if prev == nil {
		return true
	}
	if prev.k == kFenced && prev.open {
		return false
	}
	if prev.k == kRefDef || next.k == kRefDef {
		return false
	}
	if prev.k == kHTML && prev.htmlType >= 6 {
		return false
	}
	if next.k == kHTML && next.htmlType == 7 {
		return prev.closedLeaf()
	}
	if prev.closedLeaf() {
		if next.k == kBreak && prev.k == kSetext {
			return true
		}
		return true
	}
	if prev.k == kIndented {
		return next.k != kIndented && next.k != kList && next.k != kQuote
	}
	// prev is a paragraph or a container
	if prev.k == kQuote && next.k == kQuote {
		return false
	}
	switch next.k {
	case kATX, kFenced:
		return true
	case kBreak:
		return next.breakCh != '-'
	case kHTML:
		return next.htmlType <= 6
	case kQuote:
		return prev.k == kPara
	case kList:
		// a list interrupts a paragraph only with a non-empty first item and, if ordered, start 1
		if len(next.items[0]) == 0 || next.items[0][0].k != kPara || next.blankStart[0] {
			return false
		}
		if next.ordered && next.start != 1 {
			return false
		}
		if prev.k == kList {
			return differentListType(prev, next)
		}
		return prev.k == kPara
	}
	return false
}

func differentListType(a, b *block) bool {
	if a.ordered != b.ordered {
		return true
	}
	if a.ordered {
		return a.delim != b.delim
	}
	return a.marker != b.marker
}

// mayFollowWithBlank reports whether next may follow prev when separated by a blank line.
func mayFollowWithBlank(prev, next *block) bool {
	if prev == nil {
		return true
	}
	if prev.k == kFenced && prev.open {
		return false
	}
	if prev.k == kIndented && next.k == kIndented {
		return false
	}
	if prev.k == kList && next.k == kIndented {
		return false // would be absorbed by the last item
	}
	if prev.k == kList && next.k == kList {
		return differentListType(prev, next)
	}
	return true
}

// ---- generation ----

func (g *Gen) leafPara() *block {
	c := g.content(g.MaxLines, true)
	b := &block{k: kPara, c: c}
	for i, l := range c.lines {
		ml := mline{s: l, lazy: i > 0}
		if i > 0 && g.chance(1, 3) {
			ml.s = strings.Repeat(" ", 1+g.pick(5)) + ml.s // leading spaces of continuation lines are stripped
			g.St.add("para:indented-continuation")
		}
		b.lines = append(b.lines, ml)
	}
	g.St.add("block:paragraph")
	return b
}

func (g *Gen) leafATX() *block {
	lvl := 1 + g.pick(6)
	l := g.inlineLine(true)
	if g.chance(1, 6) {
		// text that ends in something shaped like an attribute block: in CommonMark it is text like any other
		a := []string{"{#id1}", "{.cls}", "{#a .b k=v}", "{k=\"v\"}", "{}"}[g.pick(5)]
		l.md, l.html, l.plain = l.md+" "+a, l.html+" "+strings.ReplaceAll(a, "\"", "&quot;"), l.plain+" "+a
		g.St.add("heading:attribute-lookalike")
	}
	s := strings.Repeat("#", lvl) + strings.Repeat(" ", 1+g.pick(3)) + l.md
	switch g.pick(4) {
	case 0:
		s += " " + strings.Repeat("#", 1+g.pick(8))
		g.St.add("atx:closing-sequence")
	case 1:
		s += " " + strings.Repeat("#", 1+g.pick(3)) + strings.Repeat(" ", 1+g.pick(3))
		g.St.add("atx:closing-sequence")
	case 2:
		s += strings.Repeat(" ", 1+g.pick(3))
	}
	g.St.add("block:atx-heading")
	return &block{k: kATX, level: lvl, lines: []mline{{s: s}}, html: fmt.Sprintf("<h%d>%s</h%d>\n", lvl, l.html, lvl)}
}

func (g *Gen) leafSetext() *block {
	c := g.content(3, true)
	lvl := 1 + g.pick(2)
	ch := "="
	if lvl == 2 {
		ch = "-"
	}
	b := &block{k: kSetext, level: lvl}
	if g.chance(1, 6) && !strings.HasSuffix(c.lines[len(c.lines)-1], "\\") && !strings.HasSuffix(c.lines[len(c.lines)-1], " ") {
		a := []string{"{#id1}", "{.cls}", "{#a .b k=v}", "{}"}[g.pick(4)]
		c.lines[len(c.lines)-1] += " " + a
		c.html += " " + a
		g.St.add("heading:attribute-lookalike")
	}
	for i, l := range c.lines {
		ml := mline{s: l}
		if i > 0 && g.chance(1, 4) {
			ml.s = strings.Repeat(" ", 1+g.pick(3)) + ml.s
		}
		b.lines = append(b.lines, ml)
	}
	n := 1 + g.pick(5)
	if lvl == 2 && n == 1 {
		n = 2 // a lone '-' could read as an empty list item in some contexts
	}
	ul := strings.Repeat(" ", g.pick(4)) + strings.Repeat(ch, n) + strings.Repeat(" ", g.pick(3))
	b.lines = append(b.lines, mline{s: ul})
	b.html = fmt.Sprintf("<h%d>%s</h%d>\n", lvl, c.html, lvl)
	g.St.add("block:setext-heading")
	g.St.add(fmt.Sprintf("setext:underline-%s%d", ch, n))
	return b
}

func (g *Gen) leafBreak() *block {
	ch := "*-_"[g.pick(3)]
	n := 3 + g.pick(4)
	var sb strings.Builder
	for i := 0; i < n; i++ {
		sb.WriteByte(ch)
		if i < n-1 && g.chance(1, 3) {
			sb.WriteString(strings.Repeat(" ", 1+g.pick(2)))
		}
	}
	s := sb.String() + strings.Repeat(" ", g.pick(3))
	g.St.add("block:thematic-break")
	return &block{k: kBreak, breakCh: ch, lines: []mline{{s: s}}, html: "<hr />\n"}
}

var codeWords = []string{"code", "x = 1", "if a < b && c > d {", "}", "\"str\"", "*not emph*", "[not](link)", "<tag>", "&amp;", "# not heading", "- not list", "> not quote", "`tick`", "\\*", "a  b", "trailing  "}

func (g *Gen) leafIndented() *block {
	n := 1 + g.pick(4)
	b := &block{k: kIndented}
	var hb strings.Builder
	var pending []string // interior blank lines are emitted only if a non-blank line follows
	for i := 0; i < n; i++ {
		if i > 0 && g.chance(1, 4) {
			// interior blank line, possibly carrying whitespace
			ws := g.pick(7)
			b.lines = append(b.lines, mline{s: strings.Repeat(" ", ws), structural: min(ws, 4)})
			out := ""
			if ws > 4 {
				out = strings.Repeat(" ", ws-4)
			}
			pending = append(pending, out)
		}
		extra := 0
		if g.chance(1, 4) {
			extra = 1 + g.pick(4)
		}
		t := codeWords[g.pick(len(codeWords))]
		b.lines = append(b.lines, mline{s: "    " + strings.Repeat(" ", extra) + t, structural: 4})
		for _, p := range pending {
			hb.WriteString(escHTML(p) + "\n")
		}
		pending = nil
		hb.WriteString(escHTML(strings.Repeat(" ", extra)+t) + "\n")
	}
	b.html = "<pre><code>" + hb.String() + "</code></pre>\n"
	g.St.add("block:indented-code")
	return b
}

var infoStrings = []struct{ md, class string }{{"", ""}, {"", ""}, {"go", "go"}, {"ruby startline=3 $%@#$", "ruby"}, {"c++", "c++"}, {"&ouml;x", "öx"}, {"a\\*b", "a*b"}, {";", ";"}}

func (g *Gen) leafFenced(lastInContainer bool) *block {
	ch := byte('`')
	if g.chance(1, 2) {
		ch = '~'
	}
	n := 3 + g.pick(4)
	ind := g.pick(4)
	info := infoStrings[g.pick(len(infoStrings))]
	if ch == '~' && g.chance(1, 4) {
		info = struct{ md, class string }{"aa ``` ~~~", "aa"}
	}
	b := &block{k: kFenced}
	open := strings.Repeat(" ", ind) + strings.Repeat(string(ch), n)
	if info.md != "" {
		open += strings.Repeat(" ", g.pick(3)) + info.md + strings.Repeat(" ", g.pick(2))
	}
	b.lines = append(b.lines, mline{s: open, structural: ind})
	var hb strings.Builder
	m := g.pick(5)
	for i := 0; i < m; i++ {
		if g.chance(1, 5) {
			b.lines = append(b.lines, mline{s: ""})
			hb.WriteString("\n")
			continue
		}
		t := codeWords[g.pick(len(codeWords))]
		if g.chance(1, 6) {
			// a shorter fence or the other fence character is content
			if g.chance(1, 2) && n > 3 {
				t = strings.Repeat(string(ch), n-1)
			} else if ch == '`' {
				t = "~~~"
			} else {
				t = "```"
			}
		}
		lineInd := ind
		extra := 0
		switch g.pick(5) {
		case 0:
			extra = 1 + g.pick(5)
		case 1:
			if ind > 0 {
				lineInd = g.pick(ind) // less indented than the fence: all of it is removed
			}
		}
		b.lines = append(b.lines, mline{s: strings.Repeat(" ", lineInd+extra) + t, structural: lineInd})
		hb.WriteString(escHTML(strings.Repeat(" ", extra)+t) + "\n")
	}
	body := hb.String()
	if lastInContainer && g.chance(1, 3) {
		b.open = true
		g.St.add("fenced:left-open")
		// an open block must not end in blank content lines: whether a final empty line exists is a property of the file ending
		for len(b.lines) > 1 && b.lines[len(b.lines)-1].s == "" {
			b.lines = b.lines[:len(b.lines)-1]
			body = strings.TrimSuffix(body, "\n")
		}
	} else {
		cn := n + g.pick(3)
		cind := g.pick(4)
		b.lines = append(b.lines, mline{s: strings.Repeat(" ", cind) + strings.Repeat(string(ch), cn) + strings.Repeat(" ", g.pick(3)), structural: cind})
	}
	cls := ""
	if info.class != "" {
		cls = ` class="language-` + escHTML(info.class) + `"`
	}
	b.html = "<pre><code" + cls + ">" + body + "</code></pre>\n"
	g.St.add("block:fenced-code")
	g.St.add(fmt.Sprintf("fenced:%c%d-indent%d", ch, n, ind))
	return b
}

var htmlTemplates = []struct {
	typ int
	src string
}{
	{1, "<script type=\"x\">\nvar a = 1 < 2;\n\n*a*\n</script>"},
	{1, "<pre>\n**raw**\n\n  kept\n</pre> tail *x*"},
	{1, "<style>p{color:red}</style>"},
	{1, "<textarea>\n\n_x_\n</textarea>"},
	{2, "<!-- comment\n\n*still* comment -->"},
	{2, "<!-- one line -->"},
	{3, "<?php\n\necho '*a*';\n?> after"},
	{4, "<!DOCTYPE html>"},
	{4, "<!ELEMENT br\n\nEMPTY>"},
	{5, "<![CDATA[\n*x*\n\ny\n]]>"},
	{6, "<div class=\"a\">\n*not emph*\n</div>"},
	{6, "<table><tr><td>\n<b>\n**Hello**,\n</td></tr></table>"},
	{6, "</div>\n*foo*"},
	{6, "<hr/>"},
	{6, "<p\nid=\"x\">"},
	{6, "<DIV CLASS=\"foo\">"},
	{7, "<a href=\"foo\">\n*bar*\n</a>"},
	{7, "<del>\n*foo*\n</del>"},
	{7, "<i class=\"foo\">\n*bar*\n</i>"},
	{7, "</ins>"},
}

func (g *Gen) leafHTML() *block {
	t := htmlTemplates[g.pick(len(htmlTemplates))]
	b := &block{k: kHTML, htmlType: t.typ, html: t.src + "\n"}
	for _, l := range strings.Split(t.src, "\n") {
		b.lines = append(b.lines, mline{s: l})
	}
	g.St.add(fmt.Sprintf("block:html-type-%d", t.typ))
	return b
}

func (g *Gen) leafRefDef() *block {
	// a block of definitions for labels drawn so far that are not yet placed is created at the end by Document; here: an unused definition
	d := &refDef{label: fmt.Sprintf("unused %d", g.pick(1000)), d: dests[g.pick(len(dests))], t: titles[g.pick(len(titles))]}
	b := &block{k: kRefDef}
	b.lines = defLines(g, d)
	g.St.add("block:ref-def-unused")
	return b
}

func defLines(g *Gen, d *refDef) []mline {
	lab := d.label
	if g.chance(1, 2) {
		lab = g.respell(lab)
	}
	if i := strings.IndexByte(lab, ' '); i > 0 && g.chance(1, 8) {
		// the label continues on the next line
		lab = lab[:i] + "\n" + lab[i+1:]
		g.St.add("ref-def:multi-line-label")
	}
	s := strings.Repeat(" ", g.pick(4)) + "[" + lab + "]:"
	var out []mline
	if g.chance(1, 6) {
		out = append(out, mline{s: s})
		s = strings.Repeat(" ", 1+g.pick(3))
	} else {
		s += strings.Repeat(" ", g.pick(3))
		if strings.HasSuffix(s, ":") && strings.HasPrefix(d.d.md, "<") == false && g.chance(1, 2) {
			s += " "
		}
	}
	s += d.d.md
	if d.t.md != "" {
		if g.chance(1, 5) {
			out = append(out, mline{s: s})
			s = strings.Repeat(" ", g.pick(3)) + strings.TrimLeft(d.t.md, " ")
		} else {
			s += d.t.md
		}
	}
	s += strings.Repeat(" ", g.pick(3))
	out = append(out, mline{s: s})
	// labels and titles may contain line endings
	var split []mline
	for _, l := range out {
		for _, part := range strings.Split(l.s, "\n") {
			split = append(split, mline{s: part})
		}
	}
	return split
}

// genBlocks draws the children of a container.
func (g *Gen) genBlocks(depth, n int, inList bool) []*block {
	var out []*block
	for i := 0; i < n; i++ {
		last := i == n-1
		var b *block
		for tries := 0; tries < 8 && b == nil; tries++ {
			b = g.genBlock(depth, last && !inList)
			var prev *block
			if len(out) > 0 {
				prev = out[len(out)-1]
			}
			if !mayFollowWithBlank(prev, b) || inList && b.k == kRefDef {
				b = nil
			}
		}
		if b == nil {
			b = g.leafPara()
		}
		out = append(out, b)
	}
	return out
}

func (g *Gen) genBlock(depth int, last bool) *block {
	x := g.pick(100)
	switch {
	case x < 30:
		return g.leafPara()
	case x < 38:
		return g.leafATX()
	case x < 44:
		return g.leafSetext()
	case x < 49:
		return g.leafBreak()
	case x < 55:
		return g.leafIndented()
	case x < 63:
		return g.leafFenced(last)
	case x < 69:
		return g.leafHTML()
	case x < 72:
		return g.leafRefDef()
	case x < 84 && depth < g.MaxDepth:
		return g.genQuote(depth + 1)
	case depth < g.MaxDepth:
		return g.genList(depth + 1)
	}
	return g.leafPara()
}

func (g *Gen) genQuote(depth int) *block {
	n := 1 + g.pick(3)
	b := &block{k: kQuote, kids: g.genBlocks(depth, n, false)}
	g.St.add("block:block-quote")
	return b
}

func (g *Gen) genList(depth int) *block {
	b := &block{k: kList, marker: "-+*"[g.pick(3)], delim: ".)"[g.pick(2)], ordered: g.chance(1, 2)}
	if b.ordered {
		switch g.pick(4) {
		case 0:
			b.start = 1
		case 1:
			b.start = g.pick(10)
		case 2:
			b.start = g.pick(1000)
		default:
			b.start = []int{0, 1, 2, 9, 10, 99, 123456789, 999999999}[g.pick(8)]
		}
	}
	nitems := 1 + g.pick(4)
	b.tight = g.chance(1, 2)
	for i := 0; i < nitems; i++ {
		var item []*block
		if b.tight {
			item = g.genTightItem(depth)
		} else {
			item = g.genBlocks(depth, 1+g.pick(3), true)
			// the first child must not be an indented code block (it would need marker-relative arithmetic we do not spell) nor a ref-def
			if item[0].k == kRefDef || item[0].k == kHTML || item[0].k == kBreak && !b.ordered && item[0].breakCh == b.marker {
				item[0] = g.leafPara()
				if len(item) > 1 && !mayFollowWithBlank(item[0], item[1]) {
					item = item[:1]
				}
			}
		}
		if b.tight && i > 0 && g.chance(1, 14) {
			item = nil // empty item
			g.St.add("list:empty-item")
		}
		if len(item) > 0 && item[0].k == kList {
			// a nested list on the marker line must not start with a marker-only line: "- -   -" is a thematic break
			item[0].blankStart[0] = false
		}
		b.items = append(b.items, item)
		bs := len(item) > 0 && g.chance(1, 10)
		if bs {
			g.St.add("list:item-begins-with-blank-line")
		}
		b.blankStart = append(b.blankStart, bs)
		if len(item) > 0 && item[0].k == kIndented {
			g.St.add("list:item-begins-with-indented-code")
		}
	}
	if !b.tight {
		// a loose list needs a blank line somewhere: between items or between the children of an item
		multi := nitems > 1
		for _, it := range b.items {
			if len(it) > 1 {
				multi = true
			}
		}
		if !multi {
			b.tight = true
		}
	}
	if b.tight {
		g.St.add("block:list-tight")
	} else {
		g.St.add("block:list-loose")
	}
	if b.ordered {
		g.St.add("list:ordered" + string(b.delim))
	} else {
		g.St.add("list:bullet" + string(b.marker))
	}
	return b
}

// genTightItem draws item children that can follow each other without blank lines.
func (g *Gen) genTightItem(depth int) []*block {
	var first *block
	switch x := g.pick(10); {
	case x < 7:
		first = g.leafPara()
	case x < 8:
		first = g.leafATX()
	case x < 9:
		first = g.leafFenced(false)
	default:
		if depth < g.MaxDepth {
			first = g.genQuote(depth + 1)
		} else {
			first = g.leafPara()
		}
	}
	item := []*block{first}
	n := g.pick(3)
	for i := 0; i < n; i++ {
		prev := item[len(item)-1]
		var nb *block
		for tries := 0; tries < 6 && nb == nil; tries++ {
			var c *block
			switch g.pick(6) {
			case 0:
				c = g.leafFenced(false)
			case 1:
				c = g.leafBreak()
			case 2:
				c = g.leafATX()
			case 3:
				if depth < g.MaxDepth {
					c = g.genQuote(depth + 1)
				}
			default:
				if depth < g.MaxDepth {
					c = g.genList(depth + 1)
				}
			}
			if c != nil && canAbut(prev, c) && !(c.k == kFenced && c.open) {
				nb = c
			}
		}
		if nb == nil {
			break
		}
		item = append(item, nb)
	}
	return item
}
