package sg

import (
	"encoding/json"
	"os"
	"regexp"
	"strings"
	"testing"
)

var reSimpleDef = regexp.MustCompile(`^\[((?:[^\]\\]|\\.)+)\]: *(<[^>]*>|\S+)(?: +("(?:[^"\\]|\\.)*"|'(?:[^'\\]|\\.)*'|\((?:[^)\\]|\\.)*\)))?$`)

// splitExample separates simple one-line link reference definitions (in blocks of their own) from a single paragraph.
func splitExample(md string) (para string, refs map[string]Ref, ok bool) {
	refs = map[string]Ref{}
	blocks := strings.Split(strings.TrimRight(md, "\n"), "\n\n")
	var paras []string
	for _, b := range blocks {
		lines := strings.Split(b, "\n")
		allDefs := true
		for _, l := range lines {
			if !reSimpleDef.MatchString(l) {
				allDefs = false
			}
		}
		if allDefs {
			for _, l := range lines {
				m := reSimpleDef.FindStringSubmatch(l)
				d := m[2]
				if strings.HasPrefix(d, "<") {
					d = d[1 : len(d)-1]
				}
				r := Ref{Dest: unescapeString(d)}
				if m[3] != "" {
					r.Title, r.HasTitle = unescapeString(m[3][1:len(m[3])-1]), true
				}
				k := NormLabel(m[1])
				if _, dup := refs[k]; !dup {
					refs[k] = r
				}
			}
			continue
		}
		paras = append(paras, b)
	}
	if len(paras) != 1 {
		return "", nil, false
	}
	return paras[0], refs, true
}

// The inline reference model must reproduce every specification example that consists of one paragraph (plus simple
// link reference definitions) and that it does not decline.
func TestInlineModelAgainstSpecExamples(t *testing.T) {
	repo := os.Getenv("VERIF_REPO")
	if repo == "" {
		repo = "/repo"
	}
	b, err := os.ReadFile(repo + "/_test/spec.json")
	if err != nil {
		t.Skip("spec.json not available: ", err)
	}
	var ex []struct {
		Markdown string `json:"markdown"`
		HTML     string `json:"html"`
		Example  int    `json:"example"`
		Section  string `json:"section"`
	}
	if err := json.Unmarshal(b, &ex); err != nil {
		t.Fatal(err)
	}
	inlineSections := map[string]bool{"Backslash escapes": true, "Entity and numeric character references": true, "Code spans": true,
		"Emphasis and strong emphasis": true, "Links": true, "Images": true, "Autolinks": true, "Raw HTML": true, "Hard line breaks": true,
		"Soft line breaks": true, "Textual content": true, "Inlines": true, "Paragraphs": true, "Precedence": true}
	n, declined := 0, 0
	bySection := map[string]int{}
	for _, e := range ex {
		if !inlineSections[e.Section] {
			continue
		}
		want := e.HTML
		if !strings.HasPrefix(want, "<p>") || !strings.HasSuffix(want, "</p>\n") || strings.Count(want, "<p>") != 1 {
			continue
		}
		para, refs, ok := splitExample(e.Markdown)
		if !ok {
			continue
		}
		// a paragraph whose first line would be a block construct, or that contains one, is not our business
		skip := false
		for i, l := range strings.Split(para, "\n") {
			tl := strings.TrimLeft(l, " ")
			if len(l)-len(tl) >= 4 && i == 0 {
				skip = true
			}
			for _, pre := range []string{"# ", "> ", "- ", "+ ", "* ", "```", "~~~", "1. ", "<div", "<pre", "<table", "***", "---", "___", "===", "    "} {
				if strings.HasPrefix(tl, pre) && (i == 0 || pre != "    ") {
					skip = true
				}
			}
		}
		if skip {
			continue
		}
		got, mok := InlineModel(para, refs)
		if !mok {
			declined++
			continue
		}
		n++
		bySection[e.Section]++
		if "<p>"+got+"</p>\n" != want {
			t.Errorf("example %d (%s): %q\n got %q\nwant %q", e.Example, e.Section, e.Markdown, "<p>"+got+"</p>\n", want)
		}
	}
	t.Logf("%d examples reproduced, %d declined; by section: %v", n, declined, bySection)
	if n < 250 {
		t.Fatalf("only %d examples compared", n)
	}
}
