package sg

import (
	"html"
	"regexp"
	"strings"
	"unicode"
	"unicode/utf8"
)

// InlineModel is an independent implementation of CommonMark 0.31.2 chapter 6 ("Inlines": code spans, emphasis, links,
// images, autolinks, raw HTML, hard and soft line breaks, text) together with backslash escapes (2.4) and entity and
// numeric character references (2.5), for the raw content of ONE paragraph.  It is written from the specification text
// and its appendix "A parsing strategy" (delimiter stack, "look for link or image", "process emphasis"), without the
// "openers bottom" optimisation.  It is a reference model for C02: for a paragraph the model supports, goldmark's HTML
// (unsafe mode, XHTML) must be "<p>" + InlineModel(...) + "</p>".
//
// Where the specification does not prescribe the HTML (how a renderer percent-encodes unusual URL characters, what an
// image description makes of raw HTML, autolinks or line breaks, tabs) the model declines: ok=false, and the case is not
// compared.  Declining is decided from the input alone, never from goldmark's output.
//
// refs maps normalised labels (NormLabel) to link reference definitions.

// Ref is a link reference definition: destination and title as they are to be rendered (already unescaped).
type Ref struct {
	Dest, Title string
	HasTitle    bool
}

type inode struct {
	// rendered content for atomic nodes and text
	html, plain string
	atomic      bool // code span, link, image, raw HTML, autolink, break: never touched by emphasis processing
	impure      bool // contains something whose contribution to an image description is only recommended
	// emphasis delimiter run
	delim             bool
	ch                byte
	count, orig       int
	canOpen, canClose bool
	onStack           bool
	tag               string
	// bracket opener
	bracket, image, active bool
	srcPos                 int // position just after the '[' in the source
}

func isASCIIPunct(c byte) bool {
	return c >= '!' && c <= '/' || c >= ':' && c <= '@' || c >= '[' && c <= '`' || c >= '{' && c <= '~'
}

// Unicode whitespace / punctuation as defined in section 2.1 of the specification (0.31.2: punctuation = general
// categories P and S).
func isUWS(r rune) bool {
	return r == 0 || r == ' ' || r == '\t' || r == '\n' || r == '\f' || r == '\r' || unicode.Is(unicode.Zs, r)
}
func isUPunct(r rune) bool {
	if r < 0x80 {
		return isASCIIPunct(byte(r))
	}
	return unicode.IsPunct(r) || unicode.IsSymbol(r)
}

func escHTMLText(s string) string {
	var b strings.Builder
	for i := 0; i < len(s); i++ {
		switch s[i] {
		case '&':
			b.WriteString("&amp;")
		case '<':
			b.WriteString("&lt;")
		case '>':
			b.WriteString("&gt;")
		case '"':
			b.WriteString("&quot;")
		default:
			b.WriteByte(s[i])
		}
	}
	return b.String()
}

// NormLabel normalises a link label for matching: strip, collapse internal whitespace, Unicode case fold.
func NormLabel(s string) string {
	f := strings.Fields(s) // spaces, tabs, line endings
	s = strings.Join(f, " ")
	var b strings.Builder
	for _, r := range s {
		// full case folding differs from simple folding for a few characters; the generator stays away from them
		// except for the one the specification exemplifies
		if r == 'ẞ' || r == 'ß' {
			b.WriteString("ss")
			continue
		}
		m := r
		for x := unicode.SimpleFold(r); x != r; x = unicode.SimpleFold(x) {
			if x < m {
				m = x
			}
		}
		b.WriteRune(unicode.ToLower(m))
	}
	return b.String()
}

var (
	reAutoURI   = regexp.MustCompile(`^<([A-Za-z][A-Za-z0-9+.\-]{1,31}:[^\x00-\x20<>\x7f]*)>`)
	reAutoEmail = regexp.MustCompile("^<([a-zA-Z0-9.!#$%&'*+/=?^_`{|}~-]+@[a-zA-Z0-9](?:[a-zA-Z0-9-]{0,61}[a-zA-Z0-9])?(?:\\.[a-zA-Z0-9](?:[a-zA-Z0-9-]{0,61}[a-zA-Z0-9])?)*)>")
	reOpenTag   = regexp.MustCompile("^<[A-Za-z][A-Za-z0-9-]*(?:[ \\n]+[A-Za-z_:][A-Za-z0-9_.:-]*(?:[ \\n]*=[ \\n]*(?:[^ \\n\"'=<>`]+|'[^']*'|\"[^\"]*\"))?)*[ \\n]*/?>")
	reCloseTag  = regexp.MustCompile(`^</[A-Za-z][A-Za-z0-9-]*[ \n]*>`)
	reComment   = regexp.MustCompile(`^(?:<!-->|<!--->|<!--(?s:.*?)-->)`)
	rePI        = regexp.MustCompile(`^<\?(?s:.*?)\?>`)
	reDecl      = regexp.MustCompile(`^<![A-Za-z][^>]*>`)
	reCDATA     = regexp.MustCompile(`^<!\[CDATA\[(?s:.*?)\]\]>`)
	reEntNum    = regexp.MustCompile(`^&#([0-9]{1,7});`)
	reEntHex    = regexp.MustCompile(`^&#[xX]([0-9a-fA-F]{1,6});`)
	reEntName   = regexp.MustCompile(`^&[A-Za-z0-9]+;`)
)

// entityAt decodes an entity or numeric character reference at the start of s.
func entityAt(s string) (decoded string, n int, ok bool) {
	if m := reEntNum.FindStringSubmatch(s); m != nil {
		v := 0
		for _, c := range m[1] {
			v = v*10 + int(c-'0')
		}
		return string(validRune(v)), len(m[0]), true
	}
	if m := reEntHex.FindStringSubmatch(s); m != nil {
		v := 0
		for _, c := range strings.ToLower(m[1]) {
			if c >= 'a' {
				v = v*16 + int(c-'a') + 10
			} else {
				v = v*16 + int(c-'0')
			}
		}
		return string(validRune(v)), len(m[0]), true
	}
	if m := reEntName.FindString(s); m != "" {
		// html.UnescapeString falls back to the legacy names without semicolon ("&amp2;" -> "&2;"): the whole name has
		// matched only if nothing of it is left over, i.e. the result does not end with the reference's own ';'
		if d := html.UnescapeString(m); d != m && (!strings.HasSuffix(d, ";") || m == "&semi;") && utf8.RuneCountInString(d) <= 2 {
			return d, len(m), true
		}
	}
	return "", 0, false
}

func validRune(v int) rune {
	if v == 0 || v > 0x10FFFF || v >= 0xD800 && v <= 0xDFFF {
		return 0xFFFD
	}
	return rune(v)
}

// unescapeString applies backslash escapes and entity references (link destinations, titles).
func unescapeString(s string) string {
	var b strings.Builder
	for i := 0; i < len(s); {
		switch {
		case s[i] == '\\' && i+1 < len(s) && isASCIIPunct(s[i+1]):
			b.WriteByte(s[i+1])
			i += 2
		case s[i] == '&':
			if d, n, ok := entityAt(s[i:]); ok {
				b.WriteString(d)
				i += n
			} else {
				b.WriteByte('&')
				i++
			}
		default:
			b.WriteByte(s[i])
			i++
		}
	}
	return b.String()
}

// hrefEscape renders a destination into an attribute value.  ok=false when it contains a character whose encoding the
// specification's examples do not fix.
func hrefEscape(d string) (string, bool) {
	var b strings.Builder
	for i := 0; i < len(d); i++ {
		c := d[i]
		switch {
		case c >= 'a' && c <= 'z', c >= 'A' && c <= 'Z', c >= '0' && c <= '9', strings.IndexByte("-_./:?=#+@()*", c) >= 0:
			b.WriteByte(c)
		case c == '&':
			b.WriteString("&amp;")
		case c == '%':
			if i+2 < len(d) && isHex(d[i+1]) && isHex(d[i+2]) {
				b.WriteByte(c)
			} else {
				return "", false
			}
		case c == ' ':
			b.WriteString("%20")
		case c == '\\':
			b.WriteString("%5C")
		case c == '[':
			b.WriteString("%5B")
		case c == ']':
			b.WriteString("%5D")
		case c == '`':
			b.WriteString("%60")
		case c == '"':
			b.WriteString("%22")
		case c >= 0x80:
			r, n := utf8.DecodeRuneInString(d[i:])
			if r == utf8.RuneError && n == 1 {
				return "", false
			}
			for k := 0; k < n; k++ {
				b.WriteString("%" + strings.ToUpper(hex2(d[i+k])))
			}
			i += n - 1
		default:
			return "", false
		}
	}
	return b.String(), true
}

func isHex(c byte) bool { return c >= '0' && c <= '9' || c >= 'a' && c <= 'f' || c >= 'A' && c <= 'F' }
func hex2(c byte) string {
	const h = "0123456789abcdef"
	return string([]byte{h[c>>4], h[c&15]})
}

type inlineParser struct {
	s        string
	refs     map[string]Ref
	nodes    []*inode
	brackets []*inode
	ok       bool
}

// InlineModel returns the HTML of the paragraph's inline content.
func InlineModel(raw string, refs map[string]Ref) (out string, ok bool) {
	// raw paragraph content: initial whitespace of every line is stripped, final whitespace of the paragraph too
	lines := strings.Split(raw, "\n")
	for i := range lines {
		lines[i] = strings.TrimLeft(lines[i], " ")
	}
	s := strings.TrimRight(strings.Join(lines, "\n"), " \n")
	for i := 0; i < len(s); i++ {
		if s[i] < 0x20 && s[i] != '\n' || s[i] == 0x7f {
			return "", false // tabs and control characters are outside the model
		}
	}
	if !utf8.ValidString(s) {
		return "", false
	}
	p := &inlineParser{s: s, refs: refs, ok: true}
	p.parse()
	if !p.ok {
		return "", false
	}
	p.nodes = processEmphasis(p.nodes)
	var b strings.Builder
	for _, n := range p.nodes {
		b.WriteString(n.render())
	}
	return b.String(), true
}

func (n *inode) render() string {
	switch {
	case n.tag != "":
		return n.tag
	case n.delim:
		return strings.Repeat(string(n.ch), n.count)
	}
	return n.html
}

func (n *inode) plainText() string {
	switch {
	case n.tag != "":
		return ""
	case n.delim:
		return strings.Repeat(string(n.ch), n.count)
	}
	return n.plain
}

func (p *inlineParser) text(t string) {
	if t == "" {
		return
	}
	if k := len(p.nodes); k > 0 {
		l := p.nodes[k-1]
		if !l.atomic && !l.delim && !l.bracket && l.tag == "" {
			l.plain += t
			l.html = escHTMLText(l.plain)
			return
		}
	}
	p.nodes = append(p.nodes, &inode{plain: t, html: escHTMLText(t)})
}

func (p *inlineParser) atom(htmlS, plain string, impure bool) {
	p.nodes = append(p.nodes, &inode{html: htmlS, plain: plain, atomic: true, impure: impure})
}

func (p *inlineParser) parse() {
	s := p.s
	i := 0
	for i < len(s) && p.ok {
		c := s[i]
		switch c {
		case '\\':
			switch {
			case i+1 < len(s) && s[i+1] == '\n':
				p.atom("<br />\n", "\n", true)
				i += 2
			case i+1 < len(s) && isASCIIPunct(s[i+1]):
				p.text(string(s[i+1]))
				i += 2
			default:
				p.text("\\")
				i++
			}
		case '\n':
			// trailing spaces of the line decide between a hard and a soft break and are removed either way
			sp := 0
			for k := i - 1; k >= 0 && s[k] == ' '; k-- {
				sp++
			}
			if sp > 0 {
				if k := len(p.nodes); k > 0 && !p.nodes[k-1].atomic && !p.nodes[k-1].delim && !p.nodes[k-1].bracket {
					l := p.nodes[k-1]
					if len(l.plain) >= sp && strings.HasSuffix(l.plain, strings.Repeat(" ", sp)) {
						l.plain = l.plain[:len(l.plain)-sp]
						l.html = escHTMLText(l.plain)
					} else {
						p.ok = false // spaces that are not part of a text node: should not happen
					}
				} else {
					p.ok = false
				}
			}
			if sp >= 2 {
				p.atom("<br />\n", "\n", true)
			} else {
				p.atom("\n", "\n", true)
			}
			i++
		case '`':
			n := 0
			for i+n < len(s) && s[i+n] == '`' {
				n++
			}
			closeAt := -1
			for k := i + n; k < len(s); {
				if s[k] != '`' {
					k++
					continue
				}
				m := 0
				for k+m < len(s) && s[k+m] == '`' {
					m++
				}
				if m == n {
					closeAt = k
					break
				}
				k += m
			}
			if closeAt < 0 {
				p.text(s[i : i+n])
				i += n
				break
			}
			// (a code span that spans lines inside an image description: how its line ending shows in alt is, like the rest of
			// alt rendering, only recommended - such an image is declined)
			multiline := strings.Contains(s[i+n:closeAt], "\n")
			content := strings.ReplaceAll(s[i+n:closeAt], "\n", " ")
			if len(content) >= 2 && content[0] == ' ' && content[len(content)-1] == ' ' && strings.Trim(content, " ") != "" {
				content = content[1 : len(content)-1]
			}
			p.atom("<code>"+escHTMLText(content)+"</code>", content, multiline)
			i = closeAt + n
		case '<':
			if m := reAutoURI.FindStringSubmatch(s[i:]); m != nil {
				href, ok := hrefEscape(m[1])
				if !ok {
					p.ok = false
					return
				}
				p.atom(`<a href="`+href+`">`+escHTMLText(m[1])+`</a>`, m[1], true)
				i += len(m[0])
				break
			}
			if m := reAutoEmail.FindStringSubmatch(s[i:]); m != nil {
				href, ok := hrefEscape(m[1])
				if !ok {
					p.ok = false
					return
				}
				p.atom(`<a href="mailto:`+href+`">`+escHTMLText(m[1])+`</a>`, m[1], true)
				i += len(m[0])
				break
			}
			if i+2 < len(s) && s[i+1] == '!' && s[i+2] >= 'a' && s[i+2] <= 'z' {
				// "<!" + lower-case letter: whether this opens a declaration changed between versions of the specification
				// and no example settles it; the model declines
				p.ok = false
				return
			}
			matched := ""
			for _, re := range []*regexp.Regexp{reOpenTag, reCloseTag, reComment, rePI, reDecl, reCDATA} {
				if m := re.FindString(s[i:]); m != "" {
					matched = m
					break
				}
			}
			if matched != "" {
				p.atom(matched, "", true)
				i += len(matched)
				break
			}
			p.text("<")
			i++
		case '&':
			if d, n, ok := entityAt(s[i:]); ok {
				p.text(d)
				i += n
			} else {
				p.text("&")
				i++
			}
		case '[':
			n := &inode{plain: "[", html: "[", bracket: true, active: true, srcPos: i + 1}
			p.nodes = append(p.nodes, n)
			p.brackets = append(p.brackets, n)
			i++
		case '!':
			if i+1 < len(s) && s[i+1] == '[' {
				n := &inode{plain: "![", html: "![", bracket: true, image: true, active: true, srcPos: i + 2}
				p.nodes = append(p.nodes, n)
				p.brackets = append(p.brackets, n)
				i += 2
			} else {
				p.text("!")
				i++
			}
		case ']':
			i = p.closeBracket(i)
		case '*', '_':
			j := i
			for j < len(s) && s[j] == c {
				j++
			}
			var before, after rune // 0 = beginning / end of the paragraph
			if i > 0 {
				before, _ = utf8.DecodeLastRuneInString(s[:i])
			}
			if j < len(s) {
				after, _ = utf8.DecodeRuneInString(s[j:])
			}
			left := !isUWS(after) && (!isUPunct(after) || isUWS(before) || isUPunct(before))
			right := !isUWS(before) && (!isUPunct(before) || isUWS(after) || isUPunct(after))
			n := &inode{delim: true, ch: c, count: j - i, orig: j - i, onStack: true}
			if c == '*' {
				n.canOpen, n.canClose = left, right
			} else {
				n.canOpen = left && (!right || isUPunct(before))
				n.canClose = right && (!left || isUPunct(after))
			}
			p.nodes = append(p.nodes, n)
			i = j
		default:
			j := i + 1
			for j < len(s) && strings.IndexByte("\\\n`<&[!]*_", s[j]) < 0 {
				j++
			}
			p.text(s[i:j])
			i = j
		}
	}
}

// skipWS skips spaces and at most one line ending (and the spaces after it); returns the new position.
func skipWS(s string, j int) int {
	for j < len(s) && s[j] == ' ' {
		j++
	}
	if j < len(s) && s[j] == '\n' {
		j++
		for j < len(s) && s[j] == ' ' {
			j++
		}
	}
	return j
}

// inlineTail parses "(destination title)" starting at s[j] == '('. Returns the raw destination, raw title and the
// position after ')'.
func inlineTail(s string, j int) (dest, title string, hasTitle bool, end int, ok bool) {
	j = skipWS(s, j+1)
	if j >= len(s) {
		return
	}
	k := j
	if s[j] == '<' {
		k = j + 1
		for k < len(s) && s[k] != '>' {
			if s[k] == '\n' || s[k] == '<' {
				return
			}
			if s[k] == '\\' && k+1 < len(s) && isASCIIPunct(s[k+1]) {
				k++
			}
			k++
		}
		if k >= len(s) {
			return
		}
		dest = s[j+1 : k]
		k++
	} else {
		depth := 0
	scan:
		for k < len(s) {
			c := s[k]
			switch {
			case c == '\\' && k+1 < len(s) && isASCIIPunct(s[k+1]):
				k += 2
			case c == '(':
				depth++
				k++
			case c == ')':
				if depth == 0 {
					break scan
				}
				depth--
				k++
			case c <= ' ' || c == 0x7f:
				break scan
			default:
				k++
			}
		}
		if depth != 0 {
			return
		}
		dest = s[j:k]
	}
	afterDest := k
	k = skipWS(s, k)
	if k < len(s) && k > afterDest && (s[k] == '"' || s[k] == '\'' || s[k] == '(') {
		cl := s[k]
		if cl == '(' {
			cl = ')'
		}
		m := k + 1
		found := false
		for m < len(s) {
			if s[m] == '\\' && m+1 < len(s) && isASCIIPunct(s[m+1]) {
				m += 2
				continue
			}
			if s[m] == cl {
				found = true
				break
			}
			if cl == ')' && s[m] == '(' {
				break
			}
			m++
		}
		if found {
			title, hasTitle = s[k+1:m], true
			k = skipWS(s, m+1)
		} else {
			k = afterDest
			k = skipWS(s, k)
		}
	}
	if k < len(s) && s[k] == ')' {
		return dest, title, hasTitle, k + 1, true
	}
	return "", "", false, 0, false
}

// labelAt parses a link label "[...]" at s[j] == '['. content is the raw text between the brackets.
func labelAt(s string, j int) (content string, end int, ok bool) {
	k := j + 1
	for k < len(s) {
		switch {
		case s[k] == '\\' && k+1 < len(s) && isASCIIPunct(s[k+1]):
			k += 2
		case s[k] == '[':
			return "", 0, false
		case s[k] == ']':
			if k-(j+1) > 999 {
				return "", 0, false
			}
			return s[j+1 : k], k + 1, true
		default:
			k++
		}
	}
	return "", 0, false
}

func validLabel(raw string) bool {
	if len(raw) > 999 || strings.TrimSpace(raw) == "" {
		return false
	}
	for k := 0; k < len(raw); k++ {
		if raw[k] == '\\' && k+1 < len(raw) && isASCIIPunct(raw[k+1]) {
			k++
			continue
		}
		if raw[k] == '[' || raw[k] == ']' {
			return false
		}
	}
	return true
}

// closeBracket implements "look for link or image" at s[i] == ']'; returns the next position.
func (p *inlineParser) closeBracket(i int) int {
	s := p.s
	if len(p.brackets) == 0 {
		p.text("]")
		return i + 1
	}
	op := p.brackets[len(p.brackets)-1]
	if !op.active {
		p.brackets = p.brackets[:len(p.brackets)-1]
		p.text("]")
		return i + 1
	}
	var dest, title string
	hasTitle, matched := false, false
	end := i + 1
	if i+1 < len(s) && s[i+1] == '(' {
		if d, t, ht, e, ok := inlineTail(s, i+1); ok {
			dest, title, hasTitle, end, matched = unescapeString(d), unescapeString(t), ht, e, true
		}
	}
	if !matched {
		text := s[op.srcPos:i]
		label, useText := "", true
		if i+1 < len(s) && s[i+1] == '[' {
			if l, e, ok := labelAt(s, i+1); ok {
				if strings.TrimSpace(l) == "" {
					if l != "" {
						p.ok = false // "[ ]" after a bracket: the specification's examples do not cover it
						return i + 1
					}
					end = e // collapsed reference
				} else {
					label, useText, end = l, false, e
				}
			}
		}
		if useText {
			label = text
		}
		if validLabel(label) {
			if r, ok := p.refs[NormLabel(label)]; ok {
				dest, title, hasTitle, matched = r.Dest, r.Title, r.HasTitle, true
			}
		}
		if !matched {
			end = i + 1
		}
	}
	// pop the opener
	p.brackets = p.brackets[:len(p.brackets)-1]
	if !matched {
		p.text("]")
		return i + 1
	}
	oi := -1
	for k := len(p.nodes) - 1; k >= 0; k-- {
		if p.nodes[k] == op {
			oi = k
			break
		}
	}
	children := processEmphasis(append([]*inode(nil), p.nodes[oi+1:]...))
	var hb, pb strings.Builder
	impure := false
	for _, n := range children {
		hb.WriteString(n.render())
		pb.WriteString(n.plainText())
		if n.impure {
			impure = true
		}
	}
	href, ok := hrefEscape(dest)
	if !ok {
		p.ok = false
		return end
	}
	t := ""
	if hasTitle {
		if title == "" {
			p.ok = false // an empty title: the specification has no example of how it is rendered
			return end
		}
		t = ` title="` + escHTMLText(title) + `"`
	}
	p.nodes = p.nodes[:oi]
	if op.image {
		if impure {
			p.ok = false // what raw HTML, autolinks and line breaks contribute to an image description is only recommended
			return end
		}
		p.nodes = append(p.nodes, &inode{html: `<img src="` + href + `" alt="` + escHTMLText(pb.String()) + `"` + t + ` />`, plain: pb.String(), atomic: true})
	} else {
		p.nodes = append(p.nodes, &inode{html: `<a href="` + href + `"` + t + `>` + hb.String() + `</a>`, plain: pb.String(), atomic: true, impure: impure})
		// links may not contain links: earlier link openers become inactive
		for k := len(p.brackets) - 1; k >= 0; k-- {
			if !p.brackets[k].image {
				if !p.brackets[k].active {
					break
				}
				p.brackets[k].active = false
			}
		}
	}
	return end
}

// processEmphasis implements the "process emphasis" procedure on a node list; every delimiter run in the list is on the
// stack initially (unless already taken off) and all of them are off the stack afterwards.
func processEmphasis(nodes []*inode) []*inode {
	index := func(n *inode) int {
		for i, x := range nodes {
			if x == n {
				return i
			}
		}
		return -1
	}
	insert := func(at int, n *inode) {
		nodes = append(nodes, nil)
		copy(nodes[at+1:], nodes[at:])
		nodes[at] = n
	}
	nextDelim := func(from int) *inode {
		for i := from; i < len(nodes); i++ {
			if nodes[i].delim && nodes[i].onStack {
				return nodes[i]
			}
		}
		return nil
	}
	cur := nextDelim(0)
	for cur != nil {
		ci := index(cur)
		if !cur.canClose {
			cur = nextDelim(ci + 1)
			continue
		}
		var opener *inode
		for i := ci - 1; i >= 0; i-- {
			o := nodes[i]
			if !o.delim || !o.onStack || o.ch != cur.ch || !o.canOpen {
				continue
			}
			if (o.canClose || cur.canOpen) && (o.orig+cur.orig)%3 == 0 && !(o.orig%3 == 0 && cur.orig%3 == 0) {
				continue
			}
			opener = o
			break
		}
		if opener == nil {
			old := cur
			cur = nextDelim(ci + 1)
			if !old.canOpen {
				old.onStack = false
			}
			continue
		}
		oi := index(opener)
		n := 1
		tag := "em"
		if opener.count >= 2 && cur.count >= 2 {
			n, tag = 2, "strong"
		}
		for i := oi + 1; i < ci; i++ {
			if nodes[i].delim {
				nodes[i].onStack = false
			}
		}
		opener.count -= n
		cur.count -= n
		insert(oi+1, &inode{tag: "<" + tag + ">"})
		ci++
		insert(ci, &inode{tag: "</" + tag + ">"})
		ci++
		if opener.count == 0 {
			opener.onStack = false
		}
		if cur.count == 0 {
			cur.onStack = false
			cur = nextDelim(ci + 1)
		}
	}
	for _, n := range nodes {
		if n.delim {
			n.onStack = false
		}
	}
	return nodes
}
