package sg

import (
	"encoding/json"
	"os"
	"strings"
	"testing"
)

// The reference implementation of the emphasis rules must reproduce every single-line example of the specification's
// "Emphasis and strong emphasis" section that lies in its alphabet.
func TestEmphHTMLAgainstSpecExamples(t *testing.T) {
	repo := os.Getenv("VERIF_REPO")
	if repo == "" {
		repo = "/repo"
	}
	b, err := os.ReadFile(repo + "/_test/spec.json")
	if err != nil {
		t.Skip("spec.json not available: ", err)
	}
	var ex []struct {
		Markdown string `json:"markdown"`
		HTML     string `json:"html"`
		Example  int    `json:"example"`
		Section  string `json:"section"`
	}
	if err := json.Unmarshal(b, &ex); err != nil {
		t.Fatal(err)
	}
	n := 0
	for _, e := range ex {
		if e.Section != "Emphasis and strong emphasis" {
			continue
		}
		md := strings.TrimSuffix(e.Markdown, "\n")
		if strings.Contains(md, "\n") || !EmphAlphabetOK(md) || strings.HasPrefix(md, "*") && strings.HasPrefix(md, "* ") || md != strings.TrimSpace(md) {
			continue
		}
		// lines that would be block constructs are not paragraphs
		if strings.HasPrefix(md, "* ") || strings.HasPrefix(md, "- ") || strings.HasPrefix(md, "+ ") || strings.HasPrefix(md, "#") {
			continue
		}
		want := strings.TrimSuffix(e.HTML, "\n")
		got := "<p>" + EmphHTML(md) + "</p>"
		n++
		if got != want {
			t.Errorf("example %d: %q\n got %s\nwant %s", e.Example, md, got, want)
		}
	}
	if n < 80 {
		t.Fatalf("only %d examples compared", n)
	}
	t.Logf("%d examples reproduced", n)
}
