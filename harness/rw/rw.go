// Package rw provides a read-only page buffer: a hardware write-sanitizer for byte slices handed to goldmark.
package rw

import (
	"fmt"
	"runtime/debug"
	"syscall"
	"unsafe"
)

// ROBuffer owns an anonymous mapping whose protection is flipped between RW (while loading) and R (while in use).
type ROBuffer struct {
	mem  []byte
	base uintptr
}

// New maps size bytes (rounded up to pages).
func New(size int) (*ROBuffer, error) {
	ps := syscall.Getpagesize()
	size = (size + ps - 1) / ps * ps
	m, err := syscall.Mmap(-1, 0, size, syscall.PROT_READ|syscall.PROT_WRITE, syscall.MAP_ANON|syscall.MAP_PRIVATE)
	if err != nil {
		return nil, err
	}
	return &ROBuffer{mem: m, base: uintptr(unsafe.Pointer(&m[0]))}, nil
}

// Load copies src into the mapping followed by spare bytes of 0xAA, makes the whole mapping read-only and
// returns a slice with len(src) and cap len(src)+spare: both the bytes and the spare capacity are write-protected.
func (b *ROBuffer) Load(src []byte, spare int) ([]byte, error) {
	if len(src)+spare > len(b.mem) {
		return nil, fmt.Errorf("input too large for the mapping")
	}
	if err := syscall.Mprotect(b.mem, syscall.PROT_READ|syscall.PROT_WRITE); err != nil {
		return nil, err
	}
	copy(b.mem, src)
	for i := 0; i < spare; i++ {
		b.mem[len(src)+i] = 0xAA
	}
	if err := syscall.Mprotect(b.mem, syscall.PROT_READ); err != nil {
		return nil, err
	}
	n := len(src) + spare
	if n == 0 {
		return b.mem[:0:0], nil
	}
	return b.mem[:len(src):n], nil
}

// Contains reports whether addr lies inside the mapping and its offset.
func (b *ROBuffer) Contains(addr uintptr) (int, bool) {
	if addr >= b.base && addr < b.base+uintptr(len(b.mem)) {
		return int(addr - b.base), true
	}
	return 0, false
}

// Fault describes a write attempt observed as a page fault.
type Fault struct {
	Addr    uintptr
	Offset  int
	InBuf   bool
	Message string
	Stack   []byte
}

// Guard runs f with faults turned into panics and reports a fault on the buffer (other panics are re-reported as Other).
func (b *ROBuffer) Guard(f func()) (fault *Fault, other any, otherStack []byte) {
	old := debug.SetPanicOnFault(true)
	defer debug.SetPanicOnFault(old)
	defer func() {
		if r := recover(); r != nil {
			st := debug.Stack()
			type addrer interface{ Addr() uintptr }
			if ae, ok := r.(addrer); ok {
				a := ae.Addr()
				off, in := b.Contains(a)
				fault = &Fault{Addr: a, Offset: off, InBuf: in, Message: fmt.Sprint(r), Stack: st}
				return
			}
			other, otherStack = r, st
		}
	}()
	f()
	return
}
