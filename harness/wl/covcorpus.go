package wl

import (
	"bytes"
	"compress/gzip"
	_ "embed"
	"encoding/binary"
	"io"
	"sync"
)

// The coverage-distilled corpus: inputs that Go's coverage-guided fuzzing engine kept because they reached code no
// earlier input had reached, collected over long campaigns under the oracles of several properties
// (tools/distill_corpus.go writes the file).  It is a committed, deterministic workload: every run of every
// input-quantified property replays it, so what hours of guided search found is re-checked in seconds.
//
//go:embed covcorpus.bin.gz
var covCorpusGz []byte

var (
	covOnce sync.Once
	covDocs [][]byte
)

// CovCorpus returns the distilled corpus (possibly empty).
func CovCorpus() [][]byte {
	covOnce.Do(func() {
		zr, err := gzip.NewReader(bytes.NewReader(covCorpusGz))
		if err != nil {
			return
		}
		b, err := io.ReadAll(zr)
		if err != nil {
			return
		}
		for len(b) > 0 {
			n, k := binary.Uvarint(b)
			if k <= 0 || int(n) > len(b)-k {
				break
			}
			covDocs = append(covDocs, b[k:k+int(n)])
			b = b[k+int(n):]
		}
	})
	return covDocs
}

// EncodeCovCorpus is the inverse of CovCorpus' decoding (used by the distilling tool).
func EncodeCovCorpus(docs [][]byte) []byte {
	var raw bytes.Buffer
	var tmp [binary.MaxVarintLen64]byte
	for _, d := range docs {
		k := binary.PutUvarint(tmp[:], uint64(len(d)))
		raw.Write(tmp[:k])
		raw.Write(d)
	}
	var out bytes.Buffer
	zw, _ := gzip.NewWriterLevel(&out, gzip.BestCompression)
	zw.Write(raw.Bytes())
	zw.Close()
	return out.Bytes()
}
