// Package wl is the shared workload library: exhaustive short strings, token soup,
// the repository's own corpus, mutators and pathological deep families.
// Everything is a pure function of the PRNG handed in.
package wl

import (
	"bytes"
	_ "embed"
	"encoding/json"
	"math/rand"
	"os"
	"path/filepath"
	"strings"
)

// Alphabet14 is the quick alphabet of Markdown-significant units.
var Alphabet14 = []string{"a", " ", "\n", "*", "_", "`", "[", "]", "(", ")", "<", ">", "#", "-"}

// Alphabet18 is the thorough alphabet.
var Alphabet18 = []string{"a", " ", "\n", "\t", "*", "_", "`", "[", "]", "(", ")", "<", ">", "#", "-", "\\", "!", "&"}

// AlphabetWide adds the remaining units used by extensions and hostile bytes.
var AlphabetWide = []string{"a", " ", "\n", "\t", "\r", "*", "_", "`", "[", "]", "(", ")", "<", ">", "#", "-", "+", "1.", "\\", "!", "&", ":", "|", "~", "=", "\"", "'", "\x00", "\x80", "é", "あ", "^", "{", "}", ".", "/", "9", "0", "s", "w", "@", ";", "%", "$", ",", "?"}

// ShortCount returns the number of strings of length 0..maxLen over an alphabet of k units.
func ShortCount(k, maxLen int) int {
	n, p := 0, 1
	for l := 0; l <= maxLen; l++ {
		n += p
		p *= k
	}
	return n
}

// ShortAt returns the i-th string (by length, then lexicographic) over the alphabet.
func ShortAt(alpha []string, maxLen int, i int) string {
	k := len(alpha)
	p := 1
	for l := 0; l <= maxLen; l++ {
		if i < p {
			var b strings.Builder
			idx := make([]int, l)
			for j := l - 1; j >= 0; j-- {
				idx[j] = i % k
				i /= k
			}
			for _, x := range idx {
				b.WriteString(alpha[x])
			}
			return b.String()
		}
		i -= p
		p *= k
	}
	return ""
}

// Tokens is the soup vocabulary.
var Tokens = []string{
	// text
	"a", "b", "foo", "bar", "baz", "word", "x", "1", "2", "10", " ", "  ", "   ", "    ", "\n", "\n\n", "\t", "\n    ", "\n  ", "\n   ",
	// block openers
	"# ", "## ", "###### ", "####### ", "#", " #", "===", "---", "- ", "+ ", "* ", "1. ", "1) ", "2. ", "10. ", "123456789. ", "0. ",
	"> ", ">", ">>", "> > ", "***", "___", "* * *", "- - -", "```", "````", "~~~", "```go", "``` a b", "~~~ x ~", "    code", "\tcode",
	// html blocks (types 1-7)
	"<script>", "</script>", "<pre>", "</pre>", "<style>", "</style>", "<textarea>", "</textarea>", "<!--", "-->", "<!-- c -->", "<?", "?>", "<?php x ?>", "<!DOCTYPE", "<!X>", "<![CDATA[", "]]>",
	"<div>", "</div>", "<div", "<table>", "<p>", "</p>", "<a href=\"x\">", "</a>", "<b>", "</b>", "<x-y z='1'>", "<br/>", "<img src=x>",
	// inline
	"*", "**", "***", "_", "__", "`", "``", "` `", "[", "]", "(", ")", "![", "](", "](u)", "](/url \"t\")", "](<u v>)", "][", "[]", "[ref]", "[ref]: /url", "[ref]: <u> 'title'", "[ref]:", "\n[ref]: /u \"t\"\n",
	"<http://a.b>", "<a@b.c>", "<mailto:x>", "http://a.b", "mailto:", "(mailto:)", " tel:.", "tel:", "mailto:. ", "gopher://g.h", "*mailto:*", "_tel:_", "~mailto:~", "(tel:...)", "https://x.y/z?q=1&r=2", "www.a.b", "a@b.c", "ftp://f.g",
	"\\", "\\*", "\\[", "\\\\", "\\\n", "  \n", "\\ ", "&", "&amp;", "&#35;", "&#x23;", "&#0;", "&#xD800;", "&#1234567;", "&foo;", "&copy", "&quot;", "&ouml;",
	// extensions
	"|", "| a | b |", "|---|---|", "| :-- | --: |", "|:-:|", "a | b", "--- | ---", "\\|", "~~", "~", "~~~", "[ ] ", "[x] ", "[X] ", "- [ ] ", "[^1]", "[^1]: ", "[^a]", "[^a]: note", "\n[^1]: n\n", "![^1]",
	": ", "\n: def", "term\n: def", "'", "\"", "--", "---", "...", "<<", ">>", "'s", "\"q\"", "'90", "'90s", "'tis", "''", "\"\"", "1/2", "9", "0", "'a'", "a'b", "(\"", "\")",
	"{#id}", "{.c}", "{#i .c k=\"v\"}", "{k=v}", " {#x}", "{", "}", "{#a<b}",
	"{id=[]}", "{title=[]}", "{data-x=[]}", "{k=[]}", "{title=[[]]}", "{title={}}", "{title=\"\"}", "{title=''}", "{. .x}", "{.}", "{#}", "{k=}", "# a {title=[]}\n", "# a {id=[] .c}\n", "{title=[\"\"]}", "{title=0}", "{title=-0}", "{title=1e999}",
	"{.a class=null}", "{class=null .b}", "{class=null class=x}", "# T {.a class=null}\n",
	"{id=1}", "{id=true}", "{id=-1.5e3}", "{id=[1,\"a\"]}", "{id={a=1}}", "{id=\"x\"}", "{class=1}", "{.a class=\"b\"}", "{id=null}", "{title=\"a\\\"b\"}", "{data-x=1}", "{onclick=\"x\"}", "# h {id=1}\n", "h {id=1}\n===\n",
	// a "paragraph" that a paragraph transformer takes away (only definitions; a table head) directly followed by a line that
	// asks for the paragraph before it (Setext underline, definition description, delimiter row), also as a later item
	"[ref]: /url\n: def\n", "term\n: def\n\n[ref]: /url\n: def2\n", "\n[ref]: /url\n===\n", "\n[ref]: /u 't'\n---\n", "\n[r1]: /u\n[r2]: /v\n: d\n", "| a |\n|---|\n===\n", "| a |\n|---|\n: d\n",
	"t1\n: d1\n\n[ref]: /url\n\n: d2\n", "\n[ref]: /url\n| a |\n|---|\n", "- [ref]: /url\n  ===\n", "> [ref]: /url\n> : d\n", "[^1]: [ref]: /u\n    : d\n",
	// schemes
	"javascript:", "JAVASCRIPT:", "vbscript:", "file:", "data:", "data:image/png;", "data:text/html,",
	// hostile bytes
	"\x00", "\r", "\r\n", "\x80", "\xc3", "\xe3\x81", "\xff", "\xc3\x28", "é", "あ", "漢字", "한", "​", "　", "。", " ", "\x0b", "\x0c", "\x1b", "\x7f",
	// Unicode line / paragraph separators, next-line, byte order mark, no-break and zero-width spaces, soft hyphen, a combining mark
	"\u2028", "\u2029", "\u0085", "\ufeff", "\u00a0", "\u200b", "\u00ad", "\u20d2", "\u2003", "\u3000",
	// named references whose expansion is not one harmless character
	"&nvlt;", "&nvgt;", "&NewLine;", "&Tab;", "&lt;", "&gt;", "&bne;", "&fjlig;", "&nbsp;", "&ThickSpace;", "&zwnj;", "&lrm;", "&#x2028;", "&#xFEFF;", "&#65279;",
}

//go:embed entities.txt
var entitiesTxt string

// EntityNames are all HTML5 named character references that end in a semicolon ("AElig;" ... "zwnj;"), taken from the
// table of Go's html package.
var EntityNames = strings.Fields(entitiesTxt)

// Soup returns a random concatenation of 1..maxTok tokens.
func Soup(r *rand.Rand, maxTok int) []byte {
	n := 1 + r.Intn(maxTok)
	var b []byte
	for i := 0; i < n; i++ {
		if r.Intn(40) == 0 {
			b = append(b, AttrBlock(r)...)
			continue
		}
		b = append(b, Tokens[r.Intn(len(Tokens))]...)
	}
	return b
}

var attrNames = []string{"class", "id", "title", "lang", "k", "data-x", "style", "onclick", "width", "Class", "cLaSs", "a.b", "a:b", "_x"}
var attrValues = []string{"v", "a", "note", "1", "-1.5", "1e3", "true", "false", "null", "\"q\"", "\"a b\"", "'s'", "\"a\\\"b\"", "\"\"", "[1,2]", "[\"a\",b]", "{a=1}", "x<y", "&amp;", "é"}

// allowedAttrNames are names goldmark's attribute allow-lists accept (global and per element).
var allowedAttrNames = strings.Split("accesskey,autocapitalize,autofocus,class,contenteditable,dir,draggable,enterkeyhint,hidden,id,inert,inputmode,is,itemid,itemprop,itemref,itemscope,itemtype,lang,part,role,slot,spellcheck,style,tabindex,title,translate,"+
	"cite,start,reversed,type,value,align,color,noshade,size,width,download,hreflang,media,ping,referrerpolicy,rel,shape,target,border,crossorigin,decoding,height,importance,intrinsicsize,ismap,loading,sizes,srcset,usemap,"+
	"bgcolor,cellpadding,cellspacing,frame,rules,summary,char,charoff,valign,abbr,axis,colspan,headers,rowspan,scope", ",")

// HashTwins returns byte strings of the same length and the same djb2 hash (h*33+c, the hash of util.BytesFilter) as
// name: one byte raised by d and the next lowered by 33*d.  ok filters the bytes allowed in a twin (nil: any byte).
// Keys of an allow-list that are told apart only by their hash are the hostile input of a hashed set.
func HashTwins(name []byte, ok func(pos int, c byte) bool) [][]byte {
	var out [][]byte
	for i := 0; i+1 < len(name); i++ {
		for _, d := range []int{1, -1, 2, -2, 3, -3} {
			a, b := int(name[i])+d, int(name[i+1])-33*d
			if a < 0 || a > 255 || b < 0 || b > 255 {
				continue
			}
			if ok != nil && (!ok(i, byte(a)) || !ok(i+1, byte(b))) {
				continue
			}
			t := append([]byte(nil), name...)
			t[i], t[i+1] = byte(a), byte(b)
			out = append(out, t)
		}
	}
	return out
}

// attrTwinNames: valid attribute names that collide with an allowed name.
var attrTwinNames = func() []string {
	var out []string
	nameChar := func(pos int, c byte) bool {
		if c >= 'a' && c <= 'z' || c >= 'A' && c <= 'Z' || c == '_' || c == ':' {
			return true
		}
		return pos > 0 && (c >= '0' && c <= '9' || c == '.' || c == '-')
	}
	for _, n := range allowedAttrNames {
		for _, t := range HashTwins([]byte(n), nameChar) {
			out = append(out, string(t))
		}
	}
	return out
}()

// AttrBlock returns a random attribute block such as ` {#i .c class=a .d k="v"}`: every combination and order of the
// shorthand (.class, #id) and key=value forms (unquoted, double-quoted, single-quoted, numbers, arrays, nested).
func AttrBlock(r *rand.Rand) []byte { return AttrBlockWith(r, 4) }

// AttrBlockWith is AttrBlock with a look-alike name (a hash twin of an allowed name) in one of twinOdds named attributes.
func AttrBlockWith(r *rand.Rand, twinOdds int) []byte {
	var b []byte
	if r.Intn(2) == 0 {
		b = append(b, ' ')
	}
	b = append(b, '{')
	for n := r.Intn(5); n >= 0; n-- {
		switch r.Intn(6) {
		case 0:
			b = append(b, "."+[]string{"c", "wide", "a-b", "x1"}[r.Intn(4)]...)
		case 1:
			b = append(b, "#"+[]string{"i", "main", "a-b", "x1"}[r.Intn(4)]...)
		default:
			if r.Intn(twinOdds) == 0 && len(attrTwinNames) > 0 {
				b = append(b, attrTwinNames[r.Intn(len(attrTwinNames))]...)
			} else {
				b = append(b, attrNames[r.Intn(len(attrNames))]...)
			}
			b = append(b, '=')
			b = append(b, attrValues[r.Intn(len(attrValues))]...)
		}
		if n > 0 {
			b = append(b, []string{" ", " ", "  ", ""}[r.Intn(4)]...)
		}
	}
	if r.Intn(12) != 0 {
		b = append(b, '}')
	}
	if r.Intn(3) == 0 {
		b = append(b, '\n')
	}
	return b
}

// SoupFrom returns a random concatenation from a specific vocabulary.
func SoupFrom(r *rand.Rand, vocab []string, maxTok int) []byte {
	n := 1 + r.Intn(maxTok)
	var b []byte
	for i := 0; i < n; i++ {
		b = append(b, vocab[r.Intn(len(vocab))]...)
	}
	return b
}

// Example is one markdown/html pair of the repository's corpus.
type Example struct {
	Source   string // file it came from
	No       int
	Markdown string
	HTML     string
	Section  string
}

// SpecExamples loads _test/spec.json.
func SpecExamples(repo string) ([]Example, error) {
	b, err := os.ReadFile(filepath.Join(repo, "_test", "spec.json"))
	if err != nil {
		return nil, err
	}
	var raw []struct {
		Markdown string `json:"markdown"`
		HTML     string `json:"html"`
		Example  int    `json:"example"`
		Section  string `json:"section"`
	}
	if err := json.Unmarshal(b, &raw); err != nil {
		return nil, err
	}
	out := make([]Example, 0, len(raw))
	for _, e := range raw {
		out = append(out, Example{Source: "spec.json", No: e.Example, Markdown: e.Markdown, HTML: e.HTML, Section: e.Section})
	}
	return out, nil
}

// TxtCases loads goldmark's own "//- - - -//" separated test case files (markdown part only is used as seed).
func TxtCases(path string) []Example {
	b, err := os.ReadFile(path)
	if err != nil {
		return nil
	}
	var out []Example
	lines := strings.Split(string(b), "\n")
	const sep = "//- - - - - - - - -//"
	const end = "//= = = = = = = = = = = = = = = = = = = = = = = =//"
	i := 0
	no := 0
	for i < len(lines) {
		// header line(s) until sep
		for i < len(lines) && strings.TrimSpace(lines[i]) != sep {
			i++
		}
		i++
		var md, ht []string
		for i < len(lines) && strings.TrimSpace(lines[i]) != sep {
			md = append(md, lines[i])
			i++
		}
		i++
		for i < len(lines) && strings.TrimSpace(lines[i]) != end {
			ht = append(ht, lines[i])
			i++
		}
		i++
		if len(md) > 0 {
			no++
			out = append(out, Example{Source: filepath.Base(path), No: no, Markdown: strings.Join(md, "\n") + "\n", HTML: strings.Join(ht, "\n") + "\n"})
		}
	}
	return out
}

// Corpus returns every markdown input shipped with the repository.
func Corpus(repo string) []Example {
	out, _ := SpecExamples(repo)
	for _, f := range []string{"_test/extra.txt", "_test/options.txt"} {
		out = append(out, TxtCases(filepath.Join(repo, f))...)
	}
	m, _ := filepath.Glob(filepath.Join(repo, "extension", "_test", "*.txt"))
	for _, f := range m {
		out = append(out, TxtCases(f)...)
	}
	return out
}

func splitLines(b []byte) [][]byte {
	var out [][]byte
	st := 0
	for i, c := range b {
		if c == '\n' {
			out = append(out, b[st:i+1])
			st = i + 1
		}
	}
	if st < len(b) {
		out = append(out, b[st:])
	}
	return out
}

// PrefixLines puts prefix in front of every line (including blank ones and an unterminated last line).
func PrefixLines(doc []byte, prefix string) []byte {
	var out []byte
	for _, l := range splitLines(doc) {
		out = append(out, prefix...)
		out = append(out, l...)
	}
	return out
}

// IndentLines puts first in front of the first line and rest in front of the other non-blank lines.
func IndentLines(doc []byte, first, rest string) []byte {
	var out []byte
	for i, l := range splitLines(doc) {
		if i == 0 {
			out = append(out, first...)
		} else if len(bytes.TrimSpace(l)) > 0 {
			out = append(out, rest...)
		}
		out = append(out, l...)
	}
	return out
}

// Mutate applies one random structural or byte-level mutation.
func Mutate(r *rand.Rand, doc []byte, other []byte) []byte {
	d := append([]byte(nil), doc...)
	switch r.Intn(16) {
	case 0: // byte flip
		if len(d) > 0 {
			d[r.Intn(len(d))] = byte(r.Intn(256))
		}
	case 1: // byte insert
		i := r.Intn(len(d) + 1)
		ins := Tokens[r.Intn(len(Tokens))]
		d = append(d[:i:i], append([]byte(ins), d[i:]...)...)
	case 2: // byte delete
		if len(d) > 0 {
			i := r.Intn(len(d))
			d = append(d[:i:i], d[i+1:]...)
		}
	case 3: // token insert at line start
		ls := splitLines(d)
		if len(ls) > 0 {
			i := r.Intn(len(ls))
			ls[i] = append([]byte(Tokens[r.Intn(len(Tokens))]), ls[i]...)
			d = bytes.Join(ls, nil)
		}
	case 4: // line duplicate
		ls := splitLines(d)
		if len(ls) > 0 {
			i := r.Intn(len(ls))
			ls = append(ls[:i+1:i+1], ls[i:]...)
			d = bytes.Join(ls, nil)
		}
	case 5: // line delete
		ls := splitLines(d)
		if len(ls) > 1 {
			i := r.Intn(len(ls))
			ls = append(ls[:i:i], ls[i+1:]...)
			d = bytes.Join(ls, nil)
		}
	case 6: // line swap
		ls := splitLines(d)
		if len(ls) > 1 {
			i, j := r.Intn(len(ls)), r.Intn(len(ls))
			ls[i], ls[j] = ls[j], ls[i]
			d = bytes.Join(ls, nil)
		}
	case 7: // splice
		if len(other) > 0 {
			i := r.Intn(len(d) + 1)
			j := r.Intn(len(other) + 1)
			d = append(d[:i:i], other[j:]...)
		}
	case 8:
		d = PrefixLines(d, "> ")
	case 9:
		d = IndentLines(d, "- ", "  ")
	case 10:
		d = IndentLines(d, "1. ", "   ")
	case 11:
		d = PrefixLines(d, "    ")
	case 12:
		d = bytes.ReplaceAll(d, []byte("\n"), []byte("\r\n"))
	case 13:
		if r.Intn(2) == 0 {
			d = bytes.ReplaceAll(d, []byte("    "), []byte("\t"))
		} else {
			d = bytes.ReplaceAll(d, []byte("\t"), []byte("    "))
		}
	case 14: // truncate at a line
		ls := splitLines(d)
		if len(ls) > 1 {
			d = bytes.Join(ls[:1+r.Intn(len(ls)-1)], nil)
		}
	case 15: // truncate at a byte / drop final newline
		if len(d) > 0 {
			d = d[:r.Intn(len(d))+1]
			if r.Intn(2) == 0 {
				d = bytes.TrimRight(d, "\n")
			}
		}
	}
	return d
}

// Mix produces a random document from the standard mixture: soup, corpus item, or mutated corpus item(s).
func Mix(r *rand.Rand, corpus []Example) []byte {
	switch x := r.Intn(12); {
	case x >= 10:
		// an input of the coverage-distilled corpus, as it is or mutated / spliced with another one
		cov := CovCorpus()
		if len(cov) == 0 {
			return Soup(r, 1+r.Intn(30))
		}
		d := cov[r.Intn(len(cov))]
		if x == 10 {
			return d
		}
		o := cov[r.Intn(len(cov))]
		for i := 1 + r.Intn(3); i > 0; i-- {
			d = Mutate(r, d, o)
		}
		if len(d) > 4096 {
			d = d[:4096]
		}
		return d
	case x < 4 || len(corpus) == 0:
		return Soup(r, 1+r.Intn(30))
	case x < 5:
		return []byte(corpus[r.Intn(len(corpus))].Markdown)
	default:
		d := []byte(corpus[r.Intn(len(corpus))].Markdown)
		o := []byte(corpus[r.Intn(len(corpus))].Markdown)
		n := 1 + r.Intn(3)
		for i := 0; i < n; i++ {
			d = Mutate(r, d, o)
		}
		if len(d) > 4096 {
			d = d[:4096]
		}
		return d
	}
}

// DeepFamily names a scalable pathological input family.
type DeepFamily struct {
	Name string
	Gen  func(n int) []byte
}

func rep(s string, n int) string { return strings.Repeat(s, n) }

// DeepFamilies are inputs whose nesting/backtracking grows with n.
var DeepFamilies = []DeepFamily{
	{"quote-nest", func(n int) []byte { return []byte(rep(">", n) + " a") }},
	{"quote-space-nest", func(n int) []byte { return []byte(rep("> ", n) + "a") }},
	{"open-brackets", func(n int) []byte { return []byte(rep("[", n)) }},
	{"bracket-pairs", func(n int) []byte { return []byte(rep("[a]", n)) }},
	{"nested-brackets", func(n int) []byte { return []byte(rep("[", n) + "a" + rep("]", n)) }},
	{"emph-open", func(n int) []byte { return []byte(rep("*a ", n)) }},
	{"emph-mixed", func(n int) []byte {
		// goldmark's delimiter matching is quadratic on this family (6 CPU-s at n=2*10^4, 24 s at 4*10^4, ~100 s at 8*10^4): the size is
		// capped so that the worst legitimate case stays a factor 4 below the CPU bound of C01 (see DESIGN.md section 6, observations)
		if n > 40000 {
			n = 40000
		}
		return []byte(rep("*a_", n))
	}},
	{"emph-nested", func(n int) []byte { return []byte(rep("*", n) + "a" + rep("*", n)) }},
	{"backticks", func(n int) []byte { return []byte(rep("`a", n)) }},
	{"backtick-runs", func(n int) []byte {
		var b strings.Builder
		for i := 1; i <= n && b.Len() < 200000; i++ {
			b.WriteString(rep("`", i) + " ")
		}
		return []byte(b.String())
	}},
	{"list-nest", func(n int) []byte {
		var b strings.Builder
		if n > 1500 {
			n = 1500 // the input itself grows quadratically (2.2 MB at 1500 levels)
		}
		for i := 0; i < n; i++ {
			b.WriteString(rep(" ", 2*i) + "- a\n")
		}
		return []byte(b.String())
	}},
	{"list-nest-oneline", func(n int) []byte { return []byte(rep("- ", n) + "a") }},
	{"image-links", func(n int) []byte { return []byte(rep("![", n) + rep("](u)", n)) }},
	{"link-in-link", func(n int) []byte { return []byte(rep("[a](", n) + rep(")", n)) }},
	{"html-comments", func(n int) []byte { return []byte(rep("<!--", n)) }},
	{"html-open", func(n int) []byte { return []byte(rep("<a ", n)) }},
	{"long-line", func(n int) []byte { return []byte(rep("a", n)) }},
	{"long-spaces", func(n int) []byte { return []byte("a" + rep(" ", n) + "b") }},
	{"many-lines", func(n int) []byte { return []byte(rep("a\n", n)) }},
	{"blank-lines", func(n int) []byte { return []byte("a" + rep("\n", n) + "b") }},
	{"entities", func(n int) []byte { return []byte(rep("&amp;", n)) }},
	{"backslashes", func(n int) []byte { return []byte(rep("\\", n)) }},
	{"refdefs", func(n int) []byte {
		var b strings.Builder
		if n > 5000 {
			n = 5000
		}
		for i := 0; i < n; i++ {
			b.WriteString("[r" + itoa(i) + "]: /u\n")
		}
		b.WriteString("\n")
		for i := 0; i < n; i++ {
			b.WriteString("[r" + itoa(i) + "] ")
		}
		return []byte(b.String())
	}},
	{"table-wide", func(n int) []byte {
		if n > 4000 {
			n = 4000
		}
		return []byte(rep("|a", n) + "|\n" + rep("|-", n) + "|\n" + rep("|b", n) + "|\n")
	}},
	{"table-long", func(n int) []byte {
		if n > 20000 {
			n = 20000
		}
		return []byte("|a|b|\n|-|-|\n" + rep("|c|d|\n", n))
	}},
	{"footnotes", func(n int) []byte {
		var b strings.Builder
		if n > 3000 {
			n = 3000
		}
		for i := 0; i < n; i++ {
			b.WriteString("[^" + itoa(i) + "] ")
		}
		b.WriteString("\n\n")
		for i := 0; i < n; i++ {
			b.WriteString("[^" + itoa(i) + "]: n\n")
		}
		return []byte(b.String())
	}},
	{"strike-tildes", func(n int) []byte { return []byte(rep("~~a", n)) }},
	{"quotes-typo", func(n int) []byte { return []byte(rep("\"a'", n)) }},
	{"attr-open", func(n int) []byte { return []byte("# h " + rep("{#a ", n)) }},
	{"setext-lazy", func(n int) []byte { return []byte(rep("> a\nb\n", n) + "===\n") }},
	{"deflist", func(n int) []byte {
		if n > 5000 {
			n = 5000
		}
		return []byte(rep("t\n: d\n\n", n))
	}},
	{"cont-bytes", func(n int) []byte { return []byte(rep("\x80", n) + "\n" + rep("\x80", n)) }},
	{"tabs", func(n int) []byte { return []byte(rep("\t", n) + "a") }},
	{"autolinks", func(n int) []byte { return []byte(rep("<http://a.b>", n)) }},
	{"linkify-www", func(n int) []byte { return []byte(rep("www.a.b ", n)) }},
	{"parens-url", func(n int) []byte { return []byte("[a](" + rep("(", n) + rep(")", n) + ")") }},
	// families around the size limits the specification or the implementation names (999-character labels, 9-digit list
	// numbers, 32 nested parentheses, 7/6-digit numeric references, 6 heading levels)
	{"long-label-shortcut", func(n int) []byte { return []byte("[" + rep("a", n) + "]") }},
	{"long-label-image", func(n int) []byte { return []byte("![" + rep("a", n) + "] b") }},
	{"long-label-collapsed", func(n int) []byte { return []byte("[" + rep("a", n) + "][]\n\n[" + rep("a", n) + "]: /u") }},
	{"long-label-full", func(n int) []byte { return []byte("[t][" + rep("a", n) + "]\n\n[" + rep("A", n) + "]: /u") }},
	{"long-label-words", func(n int) []byte { return []byte("[" + rep("ab ", n) + "] (x)") }},
	{"long-label-footnote", func(n int) []byte { return []byte("[^" + rep("a", n) + "]\n\n[^" + rep("a", n) + "]: n") }},
	{"long-link-text", func(n int) []byte { return []byte("[" + rep("a ", n) + "](/u)") }},
	{"long-title", func(n int) []byte { return []byte("[a](/u \"" + rep("t", n) + "\")") }},
	{"long-destination", func(n int) []byte { return []byte("[a](<" + rep("u", n) + ">) <http://" + rep("h", n) + ">") }},
	{"list-number-digits", func(n int) []byte { return []byte(rep("1", n) + ". a\n" + rep("2", n) + ") b") }},
	{"heading-level", func(n int) []byte { return []byte(rep("#", n) + " a " + rep("#", n) + "\n\na\n" + rep("=", n)) }},
	{"numeric-reference-digits", func(n int) []byte {
		return []byte("&#" + rep("1", n) + "; &#x" + rep("f", n) + "; &#0" + rep("0", n) + "65;")
	}},
	{"fence-length", func(n int) []byte { return []byte(rep("`", n) + "\na\n" + rep("`", n) + "\n" + rep("~", n) + " i\nb") }},
	{"indent-columns", func(n int) []byte {
		return []byte(rep(" ", n) + "- a\n" + rep(" ", n) + "> b\n" + rep(" ", n) + "# c\n" + rep(" ", n) + "```\n" + rep(" ", n) + "d")
	}},
	{"table-columns", func(n int) []byte {
		if n > 3000 {
			n = 3000
		}
		return []byte(rep("|a", n) + "|\n" + rep("|:-:", n) + "|\n" + rep("|b", n+1) + "|\n|c|")
	}},
	{"heading-attributes", func(n int) []byte { return []byte("# h {" + rep("k=v ", n) + "#i}") }},
	// a run of n openers that stay open, then a tail in which links, images, references and emphasis open and close normally:
	// whatever the parser keeps per open bracket / delimiter (a stack, a bottom marker, a depth counter with a limit) is n deep
	// when the ordinary constructs of the tail are resolved
	{"open-brackets-then-links", func(n int) []byte { return []byte(rep("[", capN(n, 3000)) + " *a [*b*](u) [*c [*d*](v) *e") }},
	{"open-brackets-then-links-next-line", func(n int) []byte {
		return []byte(rep("[", capN(n, 3000)) + "\n*a [*b*](u) [*c [*d*](v) *e\n_f [g][] _h\n\n[g]: /u")
	}},
	{"open-images-then-links", func(n int) []byte { return []byte(rep("![", capN(n, 3000)) + " *a ![*b*](u) [*c ![d](v) *e ~~f [g](h) ~~i") }},
	{"open-emphasis-then-links", func(n int) []byte { return []byte(rep("*a ", capN(n, 3000)) + "[*b](u) *c* [d][] _e [f](g)_ **h\n\n[d]: /u") }},
	{"open-brackets-then-references", func(n int) []byte {
		return []byte(rep("[", capN(n, 3000)) + "x][r] [r][] ![r] [*e*][R] ] ] *y\n\n[r]: /u 't'")
	}},
	{"brackets-and-emphasis-interleaved", func(n int) []byte {
		n = capN(n, 1500)
		return []byte(rep("[*", n) + "a" + rep("*](u) ", 3) + "[b](v) *c [d](w) *e")
	}},
	{"open-brackets-each-with-text", func(n int) []byte { return []byte(rep("[a *b ", capN(n, 2000)) + "[c](u) *d* [e](v) f* g") }},
	{"open-parens-in-destination-then-links", func(n int) []byte { return []byte("[a](" + rep("(", capN(n, 3000)) + " b *c [d](e) *f [g](h) i") }},
	// a link candidate whose text nests n containers (images, emphasis, both) with an inner link at the bottom, each container
	// followed by a sibling: whatever walks the link text to decide "links may not contain links" must get all the way down
	{"link-around-nested-images-with-inner-link", func(n int) []byte {
		n = capN(n, 300)
		// the inner link sits after k of the n containers have closed again: at the bottom, one level up, half-way, at the top
		k := []int{0, 1, n / 2, n - 1}[n%4]
		if k < 0 {
			k = 0
		}
		return []byte("[" + rep("![t ", n) + "x" + rep(" y](u)", k) + " [inner](v)" + rep(" y](u)", n-k) + " z](w)")
	}},
	{"link-around-nested-emphasis-with-inner-link", func(n int) []byte {
		n = capN(n, 300)
		k := []int{1, n / 2, 0, n - 1}[n%4]
		if k < 0 {
			k = 0
		}
		if k > n {
			k = n
		}
		return []byte("[o " + rep("*a ", n) + "x" + rep(" b*", k) + " [inner](v)" + rep(" b*", n-k) + " z][r]\n\n[r]: /w")
	}},
	{"link-around-nested-images-and-emphasis-with-inner-link", func(n int) []byte {
		n = capN(n, 200)
		return []byte("[" + rep("![t *e ", n) + "[inner](v) <http://x.y>" + rep(" f* y](u)", n) + "](w)")
	}},
	{"emphasis-run-length", func(n int) []byte {
		return []byte(rep("*", n) + "a" + rep("*", n) + " " + rep("_", n) + "b" + rep("_", n))
	}},
	// counted structures: n instances of a construct in an order or shape that makes the count matter (the thresholds at
	// which an implementation switches algorithm, grows or recycles a buffer are unknown, so these are run at every boundary size)
	{"footnotes-reverse", func(n int) []byte { return footnoteDoc(n, func(i int) int { return n - 1 - i }, 1, false) }},
	{"footnotes-shuffled", func(n int) []byte { return footnoteDoc(n, func(i int) int { return (i*7 + 3) % max1(n) }, 1, false) }},
	{"footnotes-defs-first", func(n int) []byte { return footnoteDoc(n, func(i int) int { return n - 1 - i }, 1, true) }},
	{"footnotes-twice", func(n int) []byte { return footnoteDoc(n, func(i int) int { return (i*5 + 1) % max1(n) }, 2, false) }},
	{"footnotes-some-unreferenced", func(n int) []byte {
		var b strings.Builder
		n = capN(n, 2000)
		for i := n - 1; i >= 0; i-- {
			if i%3 != 0 {
				b.WriteString("x[^f" + itoa(i) + "] ")
			}
		}
		b.WriteString("\n\n")
		for i := 0; i < n; i++ {
			b.WriteString("[^f" + itoa(i) + "]: note " + itoa(i) + " [^f" + itoa((i+1)%max1(n)) + "]\n\n")
		}
		return []byte(b.String())
	}},
	{"refdefs-bottom", func(n int) []byte {
		var b strings.Builder
		n = capN(n, 3000)
		for i := n - 1; i >= 0; i-- {
			b.WriteString("[R" + itoa(i) + "] ")
		}
		b.WriteString("\n\n")
		for i := 0; i < n; i++ {
			b.WriteString("[r" + itoa(i) + "]: /u" + itoa(i) + " \"t" + itoa(i) + "\"\n")
		}
		return []byte(b.String())
	}},
	{"refdefs-last-used", func(n int) []byte {
		var b strings.Builder
		n = capN(n, 3000)
		for i := 0; i < n; i++ {
			b.WriteString("[r" + itoa(i) + "]: /u" + itoa(i) + "\n")
		}
		b.WriteString("\n[r" + itoa(n-1) + "] [text][R" + itoa(n/2) + "] [r0][]\n")
		return []byte(b.String())
	}},
	{"refdefs-spread", func(n int) []byte {
		var b strings.Builder
		n = capN(n, 2000)
		for i := 0; i < n; i++ {
			b.WriteString("see [r" + itoa((i*3+1)%max1(n)) + "] and ![R  " + itoa(i) + "][r" + itoa(i) + "]\n\n[r" + itoa(i) + "]: <u " + itoa(i) + ">\n\n")
		}
		return []byte(b.String())
	}},
	{"headings-same", func(n int) []byte { return []byte(rep("# a\n", capN(n, 3000)) + "\na\n===\n") }},
	{"headings-long-common-prefix", func(n int) []byte {
		var b strings.Builder
		for i := 0; i < capN(n, 600); i++ {
			b.WriteString("## " + rep("section ", 10) + itoa(i%3) + "\n\n")
		}
		return []byte(b.String())
	}},
	{"heading-long-title-twice", func(n int) []byte {
		return []byte("# " + rep("a", n) + "\n\n# " + rep("a", n) + "\n\n# " + rep("a", n) + " b\n")
	}},
	{"table-sparse", func(n int) []byte {
		n = capN(n, 520)
		return []byte(rep("|h", n) + "|\n" + rep("|-", n) + "|\n" + rep("|x|\n", n))
	}},
	{"table-sparse-xl", func(n int) []byte {
		// the same beyond half a million padded cells (only run by the checks that name it)
		if n < 600 {
			return nil
		}
		n = capN(n, 1100)
		return []byte(rep("|h", n) + "|\n" + rep("|-", n) + "|\n" + rep("|x|\n", n))
	}},
	{"table-ragged", func(n int) []byte {
		var b strings.Builder
		n = capN(n, 300)
		b.WriteString(rep("|h", n) + "|\n" + rep("|:-", n) + "|\n")
		for i := 0; i <= n+2; i++ {
			b.WriteString(rep("|c", i) + "|\n")
		}
		return []byte(b.String())
	}},
	{"table-code-and-escaped-pipes", func(n int) []byte {
		var b strings.Builder
		b.WriteString("| a | b |\n|---|:-:|\n")
		for i := 0; i < capN(n, 2000); i++ {
			switch i % 4 {
			case 0:
				b.WriteString("| `x` \\| `y` | `p\\|q` |\n")
			case 1:
				b.WriteString("| \\| `a\\|b` \\| `c` | d \\| e\n")
			case 2:
				b.WriteString("| `` ` `` \\| ` | *e* `f` \\|\n")
			default:
				b.WriteString("| g |\n")
			}
		}
		return []byte(b.String())
	}},
	{"list-loose-before-last", func(n int) []byte { return []byte(rep("- a\n", capN(n, 5000)) + "\n- z\n") }},
	{"list-second-block-after-blank", func(n int) []byte { return []byte(rep("- a\n", capN(n, 5000)) + "- b\n\n  c\n- d\n") }},
	{"para-lines-then-loose-list", func(n int) []byte { return []byte(rep("text\n", capN(n, 5000)) + "\n- a\n  - b\n\n  - c\n- d\n") }},
	{"quote-lines-then-loose-list", func(n int) []byte { return []byte(rep("> text\n", capN(n, 5000)) + ">\n> - a\n>\n> - b\n") }},
	{"item-lines-then-loose-list", func(n int) []byte {
		return []byte("1. x\n" + rep("   text\n", capN(n, 5000)) + "\n   - a\n\n   - b\n2. y\n")
	}},
	{"quote-nest-multi-line", func(n int) []byte {
		n = capN(n, 400)
		return []byte(rep(">", n) + " a\n" + rep(">", n) + " b\n" + rep(">", n/2) + " c\n")
	}},
	{"long-url-with-specials", func(n int) []byte {
		u := "data:image/png;base64," + rep("A", n) + "&\"x"
		return []byte("![a](<" + u + " y>) [b](" + u + ") [c][r]\n\n[r]: <" + u + " z>\n")
	}},
	{"long-text-special-at-end", func(n int) []byte {
		return []byte(rep("a", n) + "<&\"\n\n    " + rep("b", n) + "<&\"\n\n`" + rep("c", n) + "<&\"`\n\n```\n" + rep("d", n) + "<\n```\n")
	}},
	{"long-alt", func(n int) []byte { return []byte("![" + rep("a ", n) + "*b* `c` \"<&](u \"" + rep("t", n) + "<\")") }},
	{"long-attribute-value", func(n int) []byte {
		return []byte("# h {title=\"" + rep("a", n) + "<&\" data-x=" + rep("1", n) + "}\n")
	}},
	{"multi-line-inline-title", func(n int) []byte {
		n = capN(n, 500)
		return []byte("[a](/u \"" + rep("t\n", n) + "t\") ![b](/v '" + rep("s\n", n) + rep("s", 70) + "') [c](/w (" + rep("r\n", n+1) + "r))\n")
	}},
	{"multi-line-inline-title-long-first-line", func(n int) []byte {
		n = capN(n, 3000)
		return []byte("[a](/u \"" + rep("t", n) + "\nsecond line\") ![b](/v '" + rep("s", n) + "\nx\ny') [c](/w (" + rep("r", n) + "\nz))\n\n> [d](/u \"" + rep("q", n) + "\n> in a quote\")\n\n- ![e](/v '" + rep("p", n) + "\n  in an item')\n")
	}},
	{"multi-line-code-span-long-first-line", func(n int) []byte {
		n = capN(n, 3000)
		return []byte("`" + rep("c", n) + "\nsecond` and <span title=\"" + rep("h", n) + "\nx\"> and [" + rep("l", n) + "\nm](/u)\n\n> `" + rep("d", n) + "\n> e`\n")
	}},
	{"wrapped-reference-label", func(n int) []byte {
		n = capN(n, 300)
		l := rep("a\n", n) + "b"
		return []byte("p [x]\nq [y]\n\n> [" + l + "] ![" + l + "] [" + l + "][]\n\n[" + strings.ReplaceAll(l, "\n", " ") + "]: /u\n")
	}},
	{"lazy-continuation-lines", func(n int) []byte {
		return []byte("> a\n" + rep("b\n", capN(n, 5000)) + "\n- c\n" + rep("d\n", capN(n, 5000)))
	}},
	{"html-block-lines", func(n int) []byte {
		return []byte("<div>\n" + rep("x\n", capN(n, 5000)) + "</div>\n\n<!--\n" + rep("y\n", capN(n, 5000)) + "-->\nz\n")
	}},
	{"fence-lines", func(n int) []byte {
		return []byte("```\n" + rep("x\n", capN(n, 5000)) + "```\n\n~~~\n" + rep("y\n", capN(n, 5000)))
	}},
	{"hard-breaks", func(n int) []byte { return []byte(rep("a  \n", capN(n, 5000)) + rep("b\\\n", capN(n, 5000)) + "c") }},
	{"task-items", func(n int) []byte { return []byte(rep("- [x] a\n- [ ] b\n", capN(n, 3000))) }},
	{"strikethroughs", func(n int) []byte { return []byte(rep("~~a~~ ~b~ ", capN(n, 5000))) }},
	{"wide-character-references", func(n int) []byte {
		n = capN(n, 3000)
		return []byte(rep("&#x65E5;", n) + "\n" + rep("&#x672C;", n) + "\n&#x3001;\nabc&#x3002;\n&#26085;\n&#26412;\n")
	}},
	{"emails-and-urls", func(n int) []byte { return []byte(rep("a@b.c http://d.e/f?g=h&i www.j.k ", capN(n, 3000))) }},
	{"images-in-links", func(n int) []byte { return []byte(rep("[![a](b)](c) ", capN(n, 3000))) }},
	{"definition-terms", func(n int) []byte { return []byte(rep("t\n", capN(n, 2000)) + ": d\n: e\n") }},
	{"long-linkified-url", func(n int) []byte {
		return []byte("see http://a.b/" + rep("x", n) + " end (www.c.d/" + rep("y", n) + ") *e@f.g" + rep("h", capN(n, 60)) + "*\n")
	}},
	{"long-destination-with-escapes", func(n int) []byte {
		u := "/p" + rep("a", n) + "\\_x&amp;y"
		return []byte("[a](" + u + ") ![b](" + u + " \"t\") [c]\n\n[c]: " + u + "\n")
	}},
	{"numeric-reference-leading-zeros", func(n int) []byte {
		z := rep("0", n)
		return []byte("[a](&#x" + z + "6a;avascript:alert(1)) [b](&#" + z + "106;avascript:x) ![c](java&#x" + z + "73;cript:y) <&#x" + z + "6a;avascript:z> &#x" + z + "41; [r]\n\n[r]: <vb&#" + z + "115;cript:w>\n")
	}},
	{"byte-order-mark", func(n int) []byte {
		return []byte("\ufeff" + []string{"# title", "- item", "> quote", "```\ncode\n```", "| a |\n|---|\n", "[r]: /u\n\n[r]", "    code", "text"}[n%8] + "\n\n" + rep("\ufeffa\n", capN(n, 200)))
	}},
	{"unicode-separators", func(n int) []byte {
		return []byte(rep("a\u2028b\u2029c\u0085d\u00a0e\n", capN(n, 2000)) + "f  \ng\u2028\nh\n")
	}},
	{"nested-emphasis-alternating", func(n int) []byte {
		n = capN(n, 2000)
		var b strings.Builder
		for i := 0; i < n; i++ {
			b.WriteString([]string{"*", "_"}[i%2])
		}
		b.WriteString("a")
		for i := n - 1; i >= 0; i-- {
			b.WriteString([]string{"*", "_"}[i%2])
		}
		return []byte(b.String())
	}},
}

func capN(n, m int) int {
	if n > m {
		return m
	}
	return n
}

func max1(n int) int {
	if n < 1 {
		return 1
	}
	return n
}

// footnoteDoc: n footnotes; the k-th reference (k = 0..n-1) goes to footnote order(k); each referenced times times;
// definitions before or after the references.
func footnoteDoc(n int, order func(int) int, times int, defsFirst bool) []byte {
	n = capN(n, 2500)
	var refs, defs strings.Builder
	for t := 0; t < times; t++ {
		for k := 0; k < n; k++ {
			refs.WriteString("x[^f" + itoa(order(k)) + "] ")
			if k%10 == 9 {
				refs.WriteString("\n")
			}
		}
		refs.WriteString("\n\n")
	}
	for i := 0; i < n; i++ {
		defs.WriteString("[^f" + itoa(i) + "]: note " + itoa(i) + "\n\n")
	}
	if defsFirst {
		return []byte(defs.String() + refs.String())
	}
	return []byte(refs.String() + defs.String())
}

// FirstLimitFamily is the index of the first of the "limit" families (cheap at every boundary size).
var FirstLimitFamily = func() int {
	for i, f := range DeepFamilies {
		if f.Name == "long-label-shortcut" {
			return i
		}
	}
	return len(DeepFamilies)
}()

// BoundarySizes are the sizes at which the families above are run by the structural monitors: small values and both sides of
// powers of two and of the limits the specification names.
var BoundarySizes = []int{0, 1, 2, 3, 4, 5, 6, 7, 8, 9, 10, 11, 15, 16, 17, 31, 32, 33, 63, 64, 65, 99, 100, 101, 127, 128, 129, 255, 256, 257,
	511, 512, 513, 997, 998, 999, 1000, 1001, 1002, 1023, 1024, 1025, 2047, 2048, 2049, 4095, 4096, 4097}

func itoa(i int) string {
	if i == 0 {
		return "0"
	}
	var b [20]byte
	p := len(b)
	for i > 0 {
		p--
		b[p] = byte('0' + i%10)
		i /= 10
	}
	return string(b[p:])
}
