package wl

import (
	"math/rand"
	"testing"
)

func TestShortEnumeration(t *testing.T) {
	alpha := []string{"a", "b", "c"}
	n := ShortCount(len(alpha), 3)
	if n != 1+3+9+27 {
		t.Fatalf("ShortCount = %d", n)
	}
	seen := map[string]bool{}
	for i := 0; i < n; i++ {
		seen[ShortAt(alpha, 3, i)] = true
	}
	if len(seen) != n {
		t.Fatalf("enumeration has duplicates: %d distinct of %d", len(seen), n)
	}
}

func TestPrefixLines(t *testing.T) {
	got := string(PrefixLines([]byte("a\n\nb"), "> "))
	if got != "> a\n> \n> b" {
		t.Fatalf("PrefixLines = %q", got)
	}
}

func TestGeneratorsAreDeterministic(t *testing.T) {
	a := Soup(rand.New(rand.NewSource(5)), 20)
	b := Soup(rand.New(rand.NewSource(5)), 20)
	if string(a) != string(b) {
		t.Fatal("Soup is not a function of the PRNG")
	}
}
