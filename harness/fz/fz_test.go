// Package fz drives the per-case oracles of the monitors with Go's coverage-guided fuzzing engine.
//
//	VERIF_FUZZ_PROP=C03 go test -tags verif -run '^$' -fuzz '^FuzzProp$' -fuzztime 2000000x ./fz
//
// The engine only *adds* inputs: the verdict on each execution is the property's own oracle (props.FuzzOne).
// A rejected execution makes the target fail; Go minimises the input and writes it to testdata/fuzz/FuzzProp/,
// from where the driver (cmd/vcheck) picks it up, re-checks it through the property's Replay and reports it.
package fz

import (
	"os"
	"path/filepath"
	"testing"
	"time"

	"verif/props"
	"verif/wl"
)

func repo() string {
	if d := os.Getenv("VERIF_REPO"); d != "" {
		return d
	}
	return "/repo"
}

func FuzzProp(f *testing.F) {
	id := os.Getenv("VERIF_FUZZ_PROP")
	if id == "" {
		id = "C01"
	}
	if !props.FuzzServes(id) {
		f.Skip("property not served by the coverage-guided engine: " + id)
	}
	// seeds: the distilled corpus of earlier campaigns, then the repository's own examples
	n := 0
	for _, e := range wl.CovCorpus() {
		f.Add(e, uint16(n*7))
		n++
	}
	for i, e := range wl.Corpus(repo()) {
		if len(e.Markdown) <= 600 && i%3 == 0 {
			f.Add([]byte(e.Markdown), uint16(i))
		}
	}
	f.Add([]byte("\x80\x80\n\x80\x80"), uint16(5*32))
	maxLen := 2048
	hang := os.Getenv("VERIF_FUZZ_HANGDIR")
	f.Fuzz(func(t *testing.T, data []byte, sel uint16) {
		if len(data) > maxLen {
			return
		}
		var tm *time.Timer
		if id == "C01" && hang != "" {
			// a case that is still running after 60 s of wall time is handed to the driver, which decides on the CPU
			// time of an isolated replay; the worker must die for the engine to record the input
			in := append([]byte(nil), data...)
			tm = time.AfterFunc(60*time.Second, func() {
				_ = os.WriteFile(filepath.Join(hang, "hang.in"), in, 0o644)
				_ = os.WriteFile(filepath.Join(hang, "hang.sel"), []byte{byte(sel), byte(sel >> 8)}, 0o644)
				os.Exit(7)
			})
		}
		bad, cfgName, detail, _ := props.FuzzOne(id, sel, data)
		if tm != nil {
			tm.Stop()
		}
		if bad {
			t.Fatalf("property %s rejected this execution: config=%s %s", id, cfgName, detail)
		}
	})
}
