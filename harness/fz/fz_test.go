// Package fz drives the per-case oracles of the monitors with Go's coverage-guided fuzzing engine.
//
//	VERIF_FUZZ_PROP=C03 go test -tags verif -run '^$' -fuzz '^FuzzProp$' -fuzztime 2000000x ./fz
//
// The engine only *adds* inputs: the verdict on each execution is the property's own oracle (props.FuzzOne).
// A rejected execution is written to $VERIF_FUZZ_OUT/bad-<locus hash>.json (the smallest input per locus is kept)
// and makes the target fail; the driver (cmd/vcheck) re-checks each recorded case in a fresh process and reports it.
package fz

import (
	"crypto/sha1"
	"encoding/json"
	"fmt"
	"os"
	"path/filepath"
	"strconv"
	"testing"
	"time"

	"verif/props"
	"verif/wl"
)

func repo() string {
	if d := os.Getenv("VERIF_REPO"); d != "" {
		return d
	}
	return "/repo"
}

// Record is what the target leaves behind for the driver.
type Record struct {
	Sel    uint16            `json:"sel"`
	Data   []byte            `json:"data"`
	Result *props.FuzzResult `json:"result,omitempty"`
	Hang   bool              `json:"hang,omitempty"`
}

func leave(dir, name string, rec *Record) {
	if dir == "" {
		return
	}
	b, err := json.Marshal(rec)
	if err != nil {
		return
	}
	p := filepath.Join(dir, name)
	if st, err := os.Stat(p); err == nil && st.Size() <= int64(len(b)) {
		return
	}
	tmp := fmt.Sprintf("%s.%d.tmp", p, os.Getpid())
	if os.WriteFile(tmp, b, 0o644) == nil {
		_ = os.Rename(tmp, p)
	}
}

func FuzzProp(f *testing.F) {
	id := os.Getenv("VERIF_FUZZ_PROP")
	if id == "" {
		id = "C01"
	}
	if !props.FuzzServes(id) {
		f.Skip("property not served by the coverage-guided engine: " + id)
	}
	// seeds: the distilled corpus of earlier campaigns, then the repository's own examples
	// (the whole corpus is replayed through the oracle by the check itself; as seeds of the engine a sample is enough in
	// the quick tier, because gathering baseline coverage costs about 3 ms per seed)
	cov := wl.CovCorpus()
	step, off := 1, 0
	if n, err := strconv.Atoi(os.Getenv("VERIF_FUZZ_SEEDS")); err == nil && n > 0 && len(cov) > n {
		step = len(cov) / n
		off, _ = strconv.Atoi(os.Getenv("VERIF_SEED"))
		if off < 0 {
			off = -off
		}
		off %= step
	}
	for i := off; i < len(cov); i += step {
		f.Add(cov[i], uint16(i*7))
	}
	for i, e := range wl.Corpus(repo()) {
		if len(e.Markdown) <= 600 && i%3 == 0 {
			f.Add([]byte(e.Markdown), uint16(i))
		}
	}
	f.Add([]byte("\x80\x80\n\x80\x80"), uint16(5*32))
	maxLen := 2048
	out := os.Getenv("VERIF_FUZZ_OUT")
	f.Fuzz(func(t *testing.T, data []byte, sel uint16) {
		if len(data) > maxLen {
			return
		}
		var tm *time.Timer
		if id == "C01" && out != "" {
			// a case that is still running after 60 s of wall time is handed to the driver, which decides on the CPU
			// time of an isolated replay; the worker has to die for the engine to move on
			in := append([]byte(nil), data...)
			tm = time.AfterFunc(60*time.Second, func() {
				leave(out, fmt.Sprintf("hang-%d.json", os.Getpid()), &Record{Sel: sel, Data: in, Hang: true})
				os.Exit(7)
			})
		}
		r := props.FuzzOne(id, sel, data)
		if tm != nil {
			tm.Stop()
		}
		if r.Bad {
			h := sha1.Sum([]byte(r.Class + "|" + r.Locus))
			leave(out, fmt.Sprintf("bad-%x.json", h[:6]), &Record{Sel: sel, Data: append([]byte(nil), data...), Result: &r})
			t.Fatalf("property %s rejected this execution: config=%s class=%s locus=%s", id, r.Config, r.Class, r.Locus)
		}
	})
}
