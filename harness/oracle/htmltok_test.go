package oracle

import "testing"

func TestTokenizerRejects(t *testing.T) {
	bad := map[string]string{
		`<p title=a>x</p>`:                "unquoted-attribute",
		`<p title='a'>x</p>`:              "unquoted-attribute",
		`<!--x-->`:                        "foreign-comment",
		`<p>a & b</p>`:                    "bare-ampersand",
		`<p>a &amp b</p>`:                 "bare-ampersand",
		`<p>a &#; b</p>`:                  "bare-ampersand",
		`<a href="x"y">z</a>`:             "malformed-tag",
		`<p>x`:                            "bad-nesting",
		`<p><em>x</p></em>`:               "bad-nesting",
		`</p>`:                            "bad-nesting",
		`<br></br>`:                       "bad-nesting",
		`<p>1 < 2</p>`:                    "raw-lt-in-text",
		`<script>x</script>`:              "foreign-element",
		`<p onclick="x">y</p>`:            "foreign-attribute",
		`<p id="a" id="b">y</p>`:          "duplicate-attribute",
		`<img src="x" alt="a<br />b" />x`: "",
		`<p />`:                           "bad-nesting",
		`<p  class="a">x</p>`:             "malformed-tag",
		`<img src="x`:                     "unterminated-tag",
	}
	for in, class := range bad {
		_, err := Tokenize([]byte(in))
		if class == "" {
			// '<' inside a double-quoted value is legal HTML (XML well-formedness is checked separately)
			if err != nil {
				t.Errorf("%q: unexpected rejection %v", in, err)
			}
			continue
		}
		if err == nil {
			t.Errorf("%q: accepted, want %s", in, class)
		} else if err.Class != class {
			t.Errorf("%q: rejected as %s, want %s (%v)", in, err.Class, class, err)
		}
	}
}

func TestTokenizerAccepts(t *testing.T) {
	good := []string{
		"",
		"<p>a &amp; b &lt; c &#35; &#x23; &copy;</p>\n",
		"<h1 id=\"x\">t</h1>\n<blockquote>\n<p>q</p>\n</blockquote>\n",
		"<ul>\n<li><input checked=\"\" disabled=\"\" type=\"checkbox\" /> t</li>\n</ul>\n",
		"<p><a href=\"/u?a=1&amp;b=2\" title=\"t &quot;q&quot;\">l</a> <img src=\"i\" alt=\"a\"> <code>c</code><br>\nx</p>\n",
		"<!-- raw HTML omitted -->\n<p>x <!-- raw HTML omitted --> y</p>\n",
		"<table>\n<thead>\n<tr>\n<th align=\"left\">a</th>\n</tr>\n</thead>\n<tbody>\n<tr>\n<td style=\"text-align:left\">b</td>\n</tr>\n</tbody>\n</table>\n",
		"<p data-x=\"1\" data-a:b.c-d_e=\"2\">x</p>",
		"<hr />\n<hr>\n",
	}
	for _, in := range good {
		toks, err := Tokenize([]byte(in))
		if err != nil {
			t.Errorf("%q: rejected: %v", in, err)
			continue
		}
		root := Tree(toks)
		n := 0
		root.Each(func(*Elem) { n++ })
		starts := 0
		for _, tk := range toks {
			if tk.Kind == TokStart {
				starts++
			}
		}
		if n != starts {
			t.Errorf("%q: tree has %d elements, token stream has %d start tags", in, n, starts)
		}
	}
}

func TestTreeTextAndAncestors(t *testing.T) {
	toks, err := Tokenize([]byte(`<ul><li id="a">x <em>y</em><ul><li>z</li></ul></li></ul>`))
	if err != nil {
		t.Fatal(err)
	}
	root := Tree(toks)
	var inner *Elem
	root.Each(func(e *Elem) {
		if e.Name == "li" {
			if _, ok := e.Get("id"); !ok {
				inner = e
			}
		}
	})
	if inner == nil || inner.Ancestor("li") == nil || inner.Ancestor("li").Text.String() != "x yz" {
		t.Fatalf("ancestor/text bookkeeping wrong: %+v", inner)
	}
}
