package oracle

import (
	"fmt"

	"github.com/yuin/goldmark/ast"
	east "github.com/yuin/goldmark/extension/ast"
	"github.com/yuin/goldmark/text"
)

// Problem is one violated AST invariant.
type Problem struct {
	Class  string // structure / kind / placement / position
	Locus  string // short stable description (kind names, accessor)
	Detail string
}

// PublicKinds is the set of node kinds a parsed tree may contain.
var PublicKinds = map[ast.NodeKind]bool{
	ast.KindDocument: true, ast.KindTextBlock: true, ast.KindParagraph: true, ast.KindHeading: true, ast.KindThematicBreak: true,
	ast.KindCodeBlock: true, ast.KindFencedCodeBlock: true, ast.KindBlockquote: true, ast.KindList: true, ast.KindListItem: true, ast.KindHTMLBlock: true,
	ast.KindText: true, ast.KindString: true, ast.KindCodeSpan: true, ast.KindEmphasis: true, ast.KindLink: true, ast.KindImage: true, ast.KindAutoLink: true, ast.KindRawHTML: true,
	east.KindDefinitionList: true, east.KindDefinitionTerm: true, east.KindDefinitionDescription: true,
	east.KindFootnoteLink: true, east.KindFootnoteBacklink: true, east.KindFootnote: true, east.KindFootnoteList: true,
	east.KindStrikethrough: true, east.KindTable: true, east.KindTableRow: true, east.KindTableHeader: true, east.KindTableCell: true, east.KindTaskCheckBox: true,
}

// Stats are what the walker observed.
type WalkStats struct {
	Nodes    int
	Segments int
	Kinds    map[ast.NodeKind]int
}

func segOK(s text.Segment, n int) bool {
	return 0 <= s.Start && s.Start <= s.Stop && s.Stop <= n
}

// CheckAST verifies the C05 invariants of a parsed tree through accessors only. It is iterative.
func CheckAST(root ast.Node, src []byte, st *WalkStats) []Problem {
	var probs []Problem
	add := func(class, locus, detail string) {
		if len(probs) < 20 {
			probs = append(probs, Problem{class, locus, detail})
		}
	}
	n := len(src)
	seen := map[ast.Node]bool{}
	if root.Parent() != nil {
		add("structure", "root has parent", "the returned root has a non-nil Parent()")
	}
	if root.Kind() != ast.KindDocument {
		add("kind", "root:"+root.Kind().String(), "root is not a Document")
	}
	type frame struct {
		n      ast.Node
		inLink bool
		depth  int
	}
	stack := []frame{{root, false, 0}}
	for len(stack) > 0 {
		f := stack[len(stack)-1]
		stack = stack[:len(stack)-1]
		node := f.n
		kind := node.Kind()
		kname := kind.String()
		if seen[node] {
			add("structure", "node reached twice:"+kname, "a node is reachable through two paths")
			continue
		}
		seen[node] = true
		if st != nil {
			st.Nodes++
			if st.Kinds != nil {
				st.Kinds[kind]++
			}
		}
		if !PublicKinds[kind] {
			add("kind", "non-public kind:"+kname, fmt.Sprintf("node of kind %q (bookkeeping or unknown) left in the tree", kname))
		}
		// --- children list consistency
		cnt := 0
		var prev ast.Node
		for c := node.FirstChild(); c != nil; c = c.NextSibling() {
			cnt++
			if cnt > 5_000_000 {
				add("structure", "sibling cycle:"+kname, "sibling chain does not terminate")
				break
			}
			if c.Parent() != node {
				pk := "nil"
				if c.Parent() != nil {
					pk = c.Parent().Kind().String()
				}
				add("structure", "Parent mismatch:"+kname+">"+c.Kind().String(), fmt.Sprintf("child %s of %s has Parent() = %s", c.Kind(), kname, pk))
			}
			if c.PreviousSibling() != prev {
				add("structure", "PreviousSibling mismatch:"+kname+">"+c.Kind().String(), fmt.Sprintf("child #%d (%s) of %s: PreviousSibling() disagrees with the forward chain", cnt, c.Kind(), kname))
			}
			prev = c
		}
		if node.LastChild() != prev {
			add("structure", "LastChild mismatch:"+kname, fmt.Sprintf("%s.LastChild() is not the last node of the forward chain", kname))
		}
		if node.ChildCount() != cnt {
			add("structure", "ChildCount mismatch:"+kname, fmt.Sprintf("%s.ChildCount() = %d but it has %d children", kname, node.ChildCount(), cnt))
		}
		if node.HasChildren() != (cnt > 0) {
			add("structure", "HasChildren mismatch:"+kname, fmt.Sprintf("%s.HasChildren() = %v with %d children", kname, node.HasChildren(), cnt))
		}
		if fc := node.FirstChild(); fc != nil && fc.PreviousSibling() != nil {
			add("structure", "FirstChild has previous:"+kname, "FirstChild().PreviousSibling() != nil")
		}
		// --- placement
		if p := node.Parent(); p != nil {
			switch node.Type() {
			case ast.TypeInline:
				if p.Type() == ast.TypeDocument {
					add("placement", "inline under document:"+kname, fmt.Sprintf("inline %s directly under the document", kname))
				}
			case ast.TypeBlock:
				if p.Type() == ast.TypeInline {
					add("placement", "block under inline:"+p.Kind().String()+">"+kname, fmt.Sprintf("block %s under inline %s", kname, p.Kind()))
				}
			case ast.TypeDocument:
				add("placement", "nested document", "a Document node below the root")
			}
			if kind == ast.KindListItem && p.Kind() != ast.KindList {
				add("placement", "list item outside list:"+p.Kind().String(), fmt.Sprintf("ListItem under %s", p.Kind()))
			}
			if p.Kind() == ast.KindList && kind != ast.KindListItem {
				add("placement", "non-item in list:"+kname, fmt.Sprintf("%s directly under List", kname))
			}
			if p.Kind() == ast.KindCodeSpan && kind != ast.KindText {
				add("placement", "non-text in code span:"+kname, fmt.Sprintf("%s under CodeSpan", kname))
			}
		}
		inLink := f.inLink
		switch v := node.(type) {
		case *ast.Link:
			if f.inLink {
				add("placement", "link in link", "ast.Link with an ast.Link ancestor")
			}
			inLink = true
		case *ast.Heading:
			if v.Level < 1 || v.Level > 6 {
				add("kind", "heading level", fmt.Sprintf("Heading level %d", v.Level))
			}
		case *ast.Emphasis:
			if v.Level < 1 || v.Level > 2 {
				add("kind", "emphasis level", fmt.Sprintf("Emphasis level %d", v.Level))
			}
		}
		// --- positions
		chk := func(s text.Segment, what string) {
			if st != nil {
				st.Segments++
			}
			if !segOK(s, n) {
				add("position", what+":"+kname, fmt.Sprintf("%s of %s = [%d,%d) with source length %d", what, kname, s.Start, s.Stop, n))
			}
		}
		if node.Type() == ast.TypeBlock {
			if ls := node.Lines(); ls != nil {
				for i := 0; i < ls.Len(); i++ {
					s := ls.At(i)
					chk(s, "line")
					if i > 0 {
						if p := ls.At(i - 1); p.Stop > s.Start {
							add("position", "lines not increasing:"+kname, fmt.Sprintf("lines %d and %d of %s: [%d,%d) then [%d,%d)", i-1, i, kname, p.Start, p.Stop, s.Start, s.Stop))
						}
					}
				}
			}
		}
		switch v := node.(type) {
		case *ast.Text:
			chk(v.Segment, "text segment")
		case *ast.RawHTML:
			if v.Segments != nil {
				for i := 0; i < v.Segments.Len(); i++ {
					chk(v.Segments.At(i), "raw html segment")
				}
			}
		case *ast.HTMLBlock:
			if v.HasClosure() {
				chk(v.ClosureLine, "closure line")
			}
		case *ast.FencedCodeBlock:
			if v.Info != nil {
				chk(v.Info.Segment, "info segment")
			}
		case *ast.AutoLink:
			func() {
				defer func() {
					if r := recover(); r != nil {
						add("position", "autolink value:"+kname, fmt.Sprintf("AutoLink.Label panics: %v", r))
					}
				}()
				_ = v.Label(src)
				if st != nil {
					st.Segments++
				}
			}()
		}
		// --- inline content order, for blocks that directly hold inlines
		if node.Type() == ast.TypeBlock {
			if fc := node.FirstChild(); fc != nil && fc.Type() == ast.TypeInline {
				checkInlineOrder(node, n, add)
			}
		}
		for c := node.LastChild(); c != nil; c = c.PreviousSibling() {
			stack = append(stack, frame{c, inLink, f.depth + 1})
			if len(stack) > 10_000_000 {
				break
			}
		}
	}
	return probs
}

// checkInlineOrder: the Text segments below block b appear in document order and inside b's lines.
func checkInlineOrder(b ast.Node, srcLen int, add func(class, locus, detail string)) {
	lines := b.Lines()
	var stack []ast.Node
	for c := b.LastChild(); c != nil; c = c.PreviousSibling() {
		stack = append(stack, c)
	}
	last := text.NewSegment(-1, -1)
	have := false
	steps := 0
	for len(stack) > 0 {
		nd := stack[len(stack)-1]
		stack = stack[:len(stack)-1]
		if steps++; steps > 2_000_000 {
			return
		}
		if nd.Type() != ast.TypeInline {
			continue
		}
		if t, ok := nd.(*ast.Text); ok {
			s := t.Segment
			if !segOK(s, srcLen) {
				continue // reported elsewhere
			}
			if have && (s.Start < last.Start || s.Start < last.Stop) {
				add("position", "text out of order:"+b.Kind().String(), fmt.Sprintf("text segment [%d,%d) follows [%d,%d) in document order under %s", s.Start, s.Stop, last.Start, last.Stop, b.Kind()))
			}
			if s.Stop > s.Start || !have {
				last, have = s, true
			}
			if lines != nil && lines.Len() > 0 {
				inside := false
				for i := 0; i < lines.Len(); i++ {
					l := lines.At(i)
					if l.Start <= s.Start && s.Stop <= l.Stop {
						inside = true
						break
					}
				}
				if !inside {
					add("position", "text outside block lines:"+b.Kind().String(), fmt.Sprintf("text segment [%d,%d) is inside none of the %d lines of %s", s.Start, s.Stop, lines.Len(), b.Kind()))
				}
			}
		}
		for c := nd.LastChild(); c != nil; c = c.PreviousSibling() {
			stack = append(stack, c)
		}
	}
}
