package oracle

import (
	"fmt"
	"sort"
	"strings"

	"github.com/yuin/goldmark/ast"
	east "github.com/yuin/goldmark/extension/ast"
	"github.com/yuin/goldmark/text"
)

// Snapshot serialises everything a tree exposes through accessors and exported fields
// (kinds, attributes, lines, segments, flags, field values), so that two snapshots of the same
// tree taken before and after an operation can be compared.
func Snapshot(root ast.Node) string {
	var b strings.Builder
	type fr struct {
		n ast.Node
		d int
	}
	stack := []fr{{root, 0}}
	count := 0
	for len(stack) > 0 {
		f := stack[len(stack)-1]
		stack = stack[:len(stack)-1]
		n := f.n
		count++
		if count > 300000 {
			b.WriteString("…truncated")
			break
		}
		fmt.Fprintf(&b, "%d:%s", f.d, n.Kind().String())
		if as := n.Attributes(); len(as) > 0 {
			var parts []string
			for _, a := range as {
				parts = append(parts, fmt.Sprintf("%s=%s", a.Name, attrVal(a.Value)))
			}
			fmt.Fprintf(&b, "{%s}", strings.Join(parts, ","))
		}
		if n.Type() == ast.TypeBlock {
			if ls := n.Lines(); ls != nil && ls.Len() > 0 {
				b.WriteString(" L")
				for i := 0; i < ls.Len(); i++ {
					b.WriteString(segStr(ls.At(i)))
				}
			}
			if n.HasBlankPreviousLines() {
				b.WriteString(" bpl")
			}
		}
		switch v := n.(type) {
		case *ast.Text:
			fmt.Fprintf(&b, " %s soft=%v hard=%v raw=%v", segStr(v.Segment), v.SoftLineBreak(), v.HardLineBreak(), v.IsRaw())
		case *ast.String:
			fmt.Fprintf(&b, " %q raw=%v code=%v", v.Value, v.IsRaw(), v.IsCode())
		case *ast.Heading:
			fmt.Fprintf(&b, " level=%d", v.Level)
		case *ast.Emphasis:
			fmt.Fprintf(&b, " level=%d", v.Level)
		case *ast.List:
			fmt.Fprintf(&b, " marker=%q tight=%v start=%d", v.Marker, v.IsTight, v.Start)
		case *ast.ListItem:
			fmt.Fprintf(&b, " offset=%d", v.Offset)
		case *ast.FencedCodeBlock:
			if v.Info != nil {
				fmt.Fprintf(&b, " info=%s", segStr(v.Info.Segment))
			}
		case *ast.HTMLBlock:
			fmt.Fprintf(&b, " type=%d closure=%s", v.HTMLBlockType, segStr(v.ClosureLine))
		case *ast.Link:
			fmt.Fprintf(&b, " dest=%q title=%q", v.Destination, v.Title)
		case *ast.Image:
			fmt.Fprintf(&b, " dest=%q title=%q", v.Destination, v.Title)
		case *ast.AutoLink:
			fmt.Fprintf(&b, " type=%d proto=%q", v.AutoLinkType, v.Protocol)
		case *ast.RawHTML:
			if v.Segments != nil {
				for i := 0; i < v.Segments.Len(); i++ {
					b.WriteString(segStr(v.Segments.At(i)))
				}
			}
		case *east.Table:
			fmt.Fprintf(&b, " align=%v", v.Alignments)
		case *east.TableRow:
			fmt.Fprintf(&b, " align=%v", v.Alignments)
		case *east.TableHeader:
			fmt.Fprintf(&b, " align=%v", v.Alignments)
		case *east.TableCell:
			fmt.Fprintf(&b, " align=%d", v.Alignment)
		case *east.TaskCheckBox:
			fmt.Fprintf(&b, " checked=%v", v.IsChecked)
		case *east.Footnote:
			fmt.Fprintf(&b, " index=%d ref=%q", v.Index, v.Ref)
		case *east.FootnoteLink:
			fmt.Fprintf(&b, " index=%d refcount=%d refindex=%d", v.Index, v.RefCount, v.RefIndex)
		case *east.FootnoteBacklink:
			fmt.Fprintf(&b, " index=%d refcount=%d refindex=%d", v.Index, v.RefCount, v.RefIndex)
		case *east.FootnoteList:
			fmt.Fprintf(&b, " count=%d", v.Count)
		case *east.DefinitionDescription:
			fmt.Fprintf(&b, " tight=%v", v.IsTight)
		case *ast.Document:
			if m := v.Meta(); len(m) > 0 {
				keys := make([]string, 0, len(m))
				for k := range m {
					keys = append(keys, k)
				}
				sort.Strings(keys)
				fmt.Fprintf(&b, " meta=%v", keys)
			}
		}
		b.WriteByte('\n')
		for c := n.LastChild(); c != nil; c = c.PreviousSibling() {
			stack = append(stack, fr{c, f.d + 1})
		}
	}
	return b.String()
}

func segStr(s text.Segment) string {
	if s.Padding != 0 || s.ForceNewline {
		return fmt.Sprintf("[%d,%d,p%d,f%v]", s.Start, s.Stop, s.Padding, s.ForceNewline)
	}
	return fmt.Sprintf("[%d,%d]", s.Start, s.Stop)
}

func attrVal(v interface{}) string {
	switch t := v.(type) {
	case []byte:
		return fmt.Sprintf("%q", t)
	case string:
		return fmt.Sprintf("s%q", t)
	default:
		return fmt.Sprintf("%v", t)
	}
}
