package oracle

import (
	"fmt"
	"html"
	"strings"
)

// Strict tokenizer for goldmark's safe-mode output, written from the statement of C03
// (not from goldmark's renderer): properly nested elements from a fixed vocabulary, double-quoted
// attribute values only, no raw '<' in text, no raw '"' in values, every '&' a well-formed character
// reference, the only comment is the placeholder.

// TokKind is the kind of an output token.
type TokKind int

// Token kinds.
const (
	TokStart TokKind = iota
	TokEnd
	TokText
	TokComment
)

// Attr is one attribute of a start tag.
type Attr struct {
	Name  string
	Raw   string // value as written
	Value string // character references decoded
}

// Token is one token of the output.
type Token struct {
	Kind  TokKind
	Name  string // element name (start/end)
	Attrs []Attr
	Text  string // raw text (TokText) or comment body
	Pos   int
	Void  bool
	Depth int // depth of the open-element stack before this token
	Path  string
}

// Get returns the decoded value of an attribute.
func (t *Token) Get(name string) (string, bool) {
	for _, a := range t.Attrs {
		if a.Name == name {
			return a.Value, true
		}
	}
	return "", false
}

// Placeholder is the only comment safe mode may emit.
const Placeholder = "<!-- raw HTML omitted -->"

// Elements is the renderer's element vocabulary (core + built-in extensions).
var Elements = map[string]bool{
	"p": true, "h1": true, "h2": true, "h3": true, "h4": true, "h5": true, "h6": true, "blockquote": true, "pre": true, "code": true,
	"ul": true, "ol": true, "li": true, "hr": true, "br": true, "a": true, "em": true, "strong": true, "img": true,
	"del": true, "table": true, "thead": true, "tbody": true, "tr": true, "th": true, "td": true, "input": true,
	"sup": true, "div": true, "dl": true, "dt": true, "dd": true,
}

// VoidElements take no end tag.
var VoidElements = map[string]bool{"br": true, "hr": true, "img": true, "input": true}

// attribute names: goldmark's global/per-element allow-lists (exported *AttributeFilter variables) plus the names its renderers write literally.
var attrNames = func() map[string]bool {
	m := map[string]bool{}
	for _, list := range []string{
		// GlobalAttributeFilter
		"accesskey,autocapitalize,autofocus,class,contenteditable,dir,draggable,enterkeyhint,hidden,id,inert,inputmode,is,itemid,itemprop,itemref,itemscope,itemtype,lang,part,role,slot,spellcheck,style,tabindex,title,translate",
		"cite",                           // blockquote
		"start,reversed,type",            // list
		"value",                          // list item
		"align,color,noshade,size,width", // hr
		"download,hreflang,media,ping,referrerpolicy,rel,shape,target",                                                             // link
		"align,border,crossorigin,decoding,height,importance,intrinsicsize,ismap,loading,referrerpolicy,sizes,srcset,usemap,width", // image
		"align,bgcolor,border,cellpadding,cellspacing,frame,rules,summary,width",                                                   // table
		"align,bgcolor,char,charoff,valign",                                                                                        // thead/tbody/tr
		"abbr,align,axis,bgcolor,char,charoff,colspan,headers,height,rowspan,scope,valign,width",                                   // th/td
		// written literally by renderers
		"href,src,alt,title,class,id,start,align,style,type,checked,disabled,role",
	} {
		for _, n := range strings.Split(list, ",") {
			m[n] = true
		}
	}
	return m
}()

// AttrAllowed reports whether an attribute name belongs to the vocabulary.
func AttrAllowed(name string) bool {
	if attrNames[name] {
		return true
	}
	if strings.HasPrefix(name, "data-") {
		for i := 5; i < len(name); i++ {
			c := name[i]
			if !(c >= 'a' && c <= 'z' || c >= 'A' && c <= 'Z' || c >= '0' && c <= '9' || c == '_' || c == ':' || c == '.' || c == '-') {
				return false
			}
		}
		return true
	}
	return false
}

// TokError describes why an output was rejected.
type TokError struct {
	Class string // stable class of the rejection
	Pos   int
	Msg   string
}

func (e *TokError) Error() string { return fmt.Sprintf("%s at offset %d: %s", e.Class, e.Pos, e.Msg) }

func isNameStart(c byte) bool { return c >= 'a' && c <= 'z' || c >= 'A' && c <= 'Z' }
func isNameChar(c byte) bool {
	return isNameStart(c) || c >= '0' && c <= '9'
}
func isAttrNameChar(c byte) bool {
	return isNameChar(c) || c == '_' || c == ':' || c == '.' || c == '-'
}

// checkRefs verifies that every '&' in s starts a well-formed character reference.
func checkRefs(s string, base int) *TokError {
	for i := 0; i < len(s); i++ {
		if s[i] != '&' {
			continue
		}
		j := i + 1
		ok := false
		if j < len(s) && s[j] == '#' {
			j++
			if j < len(s) && (s[j] == 'x' || s[j] == 'X') {
				j++
				st := j
				for j < len(s) && (s[j] >= '0' && s[j] <= '9' || s[j] >= 'a' && s[j] <= 'f' || s[j] >= 'A' && s[j] <= 'F') {
					j++
				}
				ok = j > st && j < len(s) && s[j] == ';'
			} else {
				st := j
				for j < len(s) && s[j] >= '0' && s[j] <= '9' {
					j++
				}
				ok = j > st && j < len(s) && s[j] == ';'
			}
		} else if j < len(s) && isNameStart(s[j]) {
			for j < len(s) && isNameChar(s[j]) {
				j++
			}
			ok = j < len(s) && s[j] == ';'
		}
		if !ok {
			end := i + 12
			if end > len(s) {
				end = len(s)
			}
			return &TokError{"bare-ampersand", base + i, fmt.Sprintf("'&' does not start a well-formed character reference: %q", s[i:end])}
		}
	}
	return nil
}

// Tokenize checks a safe-mode output and returns its tokens, or the first reason to reject it.
func Tokenize(out []byte) ([]Token, *TokError) {
	s := string(out)
	var toks []Token
	var stack []string
	i := 0
	path := func() string { return strings.Join(stack, ">") }
	for i < len(s) {
		if s[i] != '<' {
			j := strings.IndexByte(s[i:], '<')
			if j < 0 {
				j = len(s)
			} else {
				j += i
			}
			txt := s[i:j]
			if e := checkRefs(txt, i); e != nil {
				return toks, e
			}
			toks = append(toks, Token{Kind: TokText, Text: txt, Pos: i, Depth: len(stack), Path: path()})
			i = j
			continue
		}
		// '<'
		if strings.HasPrefix(s[i:], "<!--") {
			if strings.HasPrefix(s[i:], Placeholder) {
				toks = append(toks, Token{Kind: TokComment, Text: Placeholder, Pos: i, Depth: len(stack), Path: path()})
				i += len(Placeholder)
				continue
			}
			return toks, &TokError{"foreign-comment", i, "a comment other than the raw-HTML placeholder"}
		}
		if i+1 < len(s) && s[i+1] == '/' {
			j := i + 2
			st := j
			for j < len(s) && isNameChar(s[j]) {
				j++
			}
			name := s[st:j]
			if name == "" || j >= len(s) || s[j] != '>' {
				return toks, &TokError{"raw-lt-in-text", i, fmt.Sprintf("'<' that is not a well-formed tag: %q", clip(s[i:], 20))}
			}
			if !Elements[name] {
				return toks, &TokError{"foreign-element", i, "end tag </" + name + "> outside the vocabulary"}
			}
			if VoidElements[name] {
				return toks, &TokError{"bad-nesting", i, "end tag for void element " + name}
			}
			if len(stack) == 0 || stack[len(stack)-1] != name {
				top := "(nothing open)"
				if len(stack) > 0 {
					top = stack[len(stack)-1]
				}
				return toks, &TokError{"bad-nesting", i, fmt.Sprintf("end tag </%s> while <%s> is the innermost open element", name, top)}
			}
			stack = stack[:len(stack)-1]
			toks = append(toks, Token{Kind: TokEnd, Name: name, Pos: i, Depth: len(stack), Path: path()})
			i = j + 1
			continue
		}
		// start tag
		j := i + 1
		st := j
		for j < len(s) && isNameChar(s[j]) {
			j++
		}
		name := s[st:j]
		if name == "" || !isNameStart(name[0]) {
			return toks, &TokError{"raw-lt-in-text", i, fmt.Sprintf("'<' that does not start a tag: %q", clip(s[i:], 20))}
		}
		if !Elements[name] {
			return toks, &TokError{"foreign-element", i, "element <" + name + "> outside the vocabulary"}
		}
		tok := Token{Kind: TokStart, Name: name, Pos: i, Depth: len(stack), Path: path(), Void: VoidElements[name]}
		closed := false
		for !closed {
			if j >= len(s) {
				return toks, &TokError{"unterminated-tag", i, "start tag <" + name + " not terminated"}
			}
			switch {
			case s[j] == '>':
				j++
				closed = true
			case strings.HasPrefix(s[j:], " />"):
				if !tok.Void {
					return toks, &TokError{"bad-nesting", j, "self-closing syntax on non-void element " + name}
				}
				j += 3
				closed = true
			case s[j] == ' ' || s[j] == '\n':
				j++
				if j < len(s) && (s[j] == '>' || s[j] == ' ') {
					return toks, &TokError{"malformed-tag", j, fmt.Sprintf("stray whitespace in start tag <%s: %q", name, clip(s[i:], 40))}
				}
				as := j
				for j < len(s) && isAttrNameChar(s[j]) {
					j++
				}
				an := s[as:j]
				if an == "" {
					if strings.HasPrefix(s[j:], "/>") && j > 0 && s[j-1] == ' ' && tok.Void {
						// " />" handled above; reaching here means the space was consumed: accept
						j += 2
						closed = true
						continue
					}
					return toks, &TokError{"malformed-tag", j, fmt.Sprintf("unexpected %q inside start tag <%s", clip(s[j:], 10), name)}
				}
				if !AttrAllowed(an) {
					return toks, &TokError{"foreign-attribute", as, fmt.Sprintf("attribute %q on <%s> outside the vocabulary", an, name)}
				}
				if !strings.HasPrefix(s[j:], "=\"") {
					return toks, &TokError{"unquoted-attribute", j, fmt.Sprintf("attribute %s on <%s> is not followed by =\"…\": %q", an, name, clip(s[as:], 30))}
				}
				j += 2
				vs := j
				k := strings.IndexByte(s[j:], '"')
				if k < 0 {
					return toks, &TokError{"unterminated-tag", vs, "attribute value not terminated"}
				}
				j += k
				raw := s[vs:j]
				j++
				if e := checkRefs(raw, vs); e != nil {
					return toks, e
				}
				for _, a := range tok.Attrs {
					if a.Name == an {
						return toks, &TokError{"duplicate-attribute", as, fmt.Sprintf("attribute %s appears twice on <%s>", an, name)}
					}
				}
				tok.Attrs = append(tok.Attrs, Attr{Name: an, Raw: raw, Value: html.UnescapeString(raw)})
			default:
				return toks, &TokError{"malformed-tag", j, fmt.Sprintf("unexpected %q inside start tag <%s", clip(s[j:], 10), name)}
			}
		}
		toks = append(toks, tok)
		if !tok.Void {
			stack = append(stack, name)
		}
		i = j
	}
	if len(stack) > 0 {
		return toks, &TokError{"bad-nesting", len(s), "unclosed element(s) at end of output: " + path()}
	}
	return toks, nil
}

func clip(s string, n int) string {
	if len(s) > n {
		return s[:n]
	}
	return s
}
