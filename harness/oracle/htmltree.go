package oracle

import "strings"

// Elem is an element of the tree built from the strict tokenizer's tokens.
type Elem struct {
	Name     string
	Attrs    []Attr
	Children []*Elem // element children only
	Parent   *Elem
	Text     strings.Builder // concatenated descendant text (raw, references not decoded)
	Pos      int
}

// Get returns the decoded value of an attribute.
func (e *Elem) Get(name string) (string, bool) {
	for _, a := range e.Attrs {
		if a.Name == name {
			return a.Value, true
		}
	}
	return "", false
}

// Kids returns the element children with the given name.
func (e *Elem) Kids(name string) []*Elem {
	var out []*Elem
	for _, c := range e.Children {
		if c.Name == name {
			out = append(out, c)
		}
	}
	return out
}

// Ancestor returns the nearest ancestor with the given name, or nil.
func (e *Elem) Ancestor(name string) *Elem {
	for p := e.Parent; p != nil; p = p.Parent {
		if p.Name == name {
			return p
		}
	}
	return nil
}

// Tree builds the element tree of an accepted output. The returned root has Name "".
func Tree(toks []Token) *Elem {
	root := &Elem{}
	cur := root
	for i := range toks {
		t := &toks[i]
		switch t.Kind {
		case TokStart:
			e := &Elem{Name: t.Name, Attrs: t.Attrs, Parent: cur, Pos: t.Pos}
			cur.Children = append(cur.Children, e)
			if !t.Void {
				cur = e
			}
		case TokEnd:
			if cur.Parent != nil {
				cur = cur.Parent
			}
		case TokText:
			for p := cur; p != nil; p = p.Parent {
				p.Text.WriteString(t.Text)
			}
		}
	}
	return root
}

// Each visits every element in document order.
func (e *Elem) Each(f func(*Elem)) {
	for _, c := range e.Children {
		f(c)
		c.Each(f)
	}
}
