package oracle

import (
	"hash/fnv"

	"github.com/yuin/goldmark/ast"
)

// Shape summarises a parsed tree: a signature of its first 64 nodes in pre-order
// (kind, depth), whether it is non-trivial (has a node other than Document/Paragraph/Text),
// the kinds present and the maximum depth.
type Shape struct {
	Sig        uint64
	NonTrivial bool
	Nodes      int
	MaxDepth   int
	Kinds      map[ast.NodeKind]int
}

// ShapeOf computes the shape of a tree. It is iterative, so deep trees cannot exhaust the stack.
func ShapeOf(root ast.Node) Shape {
	sh := Shape{Kinds: map[ast.NodeKind]int{}}
	h := fnv.New64a()
	type fr struct {
		n ast.Node
		d int
	}
	stack := []fr{{root, 0}}
	for len(stack) > 0 {
		f := stack[len(stack)-1]
		stack = stack[:len(stack)-1]
		n := f.n
		k := n.Kind()
		sh.Kinds[k]++
		sh.Nodes++
		if f.d > sh.MaxDepth {
			sh.MaxDepth = f.d
		}
		if sh.Nodes <= 64 {
			h.Write([]byte{byte(k), byte(k >> 8), byte(f.d)})
		}
		if k != ast.KindDocument && k != ast.KindParagraph && k != ast.KindText {
			sh.NonTrivial = true
		}
		if sh.Nodes > 200000 {
			break
		}
		// push children in reverse so that they pop in order
		for c := n.LastChild(); c != nil; c = c.PreviousSibling() {
			stack = append(stack, fr{c, f.d + 1})
		}
	}
	sh.Sig = h.Sum64()
	return sh
}
