package props

import (
	"fmt"
	"math/rand"
	"strings"

	"github.com/yuin/goldmark"
	"github.com/yuin/goldmark/ast"
	east "github.com/yuin/goldmark/extension/ast"

	"verif/cfg"
	"verif/core"
	"verif/oracle"
	"verif/wl"
)

// C17 — every rendered table is rectangular.

func init() {
	register(&Prop{
		ID:    "C17",
		Level: "exploration",
		Rule: "cases = (configuration with the Table extension, safe mode, document). The output is tokenized by the strict tokenizer and every <table> is inspected: exactly one <thead> holding exactly one <tr> of k>=1 <th>, at most one <tbody>, every body <tr> has exactly k <td>, " +
			"the alignment (align attribute or text-align style, both pinned methods are exercised) of every body cell is that of its column's header cell or absent (padded cell); the parsed tree is inspected too: Table.Alignments, header and every row have the same length and each cell's alignment is its column's or none. " +
			"By construction: for generated tables the generator knows the number of columns, body rows, the alignment of each column and how many cells each row has in the source; a table with exactly that shape must be rendered, written cells must carry their column's alignment, cells beyond the row's source cells must be empty, " +
			"and a candidate whose header cell count differs from the delimiter row's must not produce any <table>. " +
			"Documents: generated tables (row lengths 0..k+3, escaped pipes, pipes in code spans, optional leading/trailing pipes, delimiter cells with every alignment and stray spaces) at top level, in quotes, in list items and right after paragraph text; pipe/dash/colon soup; corpus mutants. " +
			"Non-trivial = the output contains a table; distinct = distinct (columns, per-row source cell counts, alignments, container, configuration).",
		Assumptions: []string{
			"safe mode, Attribute off: every <table> in the output is written by the table renderer",
			"outputs the strict tokenizer rejects are counted and left to C03; panics/errors are left to C01",
			"by-construction expectations are used only for tables the generator places where GFM certainly forms a table (after a blank line or as the direct continuation of paragraph lines), with cell texts free of block syntax",
		},
		Run:    runC17,
		Replay: replayC17,
		Floors: func(m *Merged) []string {
			var out []string
			if m.Counters["tables_inspected"] < 50000 {
				out = append(out, fmt.Sprintf("only %d tables inspected", m.Counters["tables_inspected"]))
			}
			if len(m.Sets["shapes"]) < 30 {
				out = append(out, fmt.Sprintf("only %d distinct (columns, row length - columns) shapes", len(m.Sets["shapes"])))
			}
			if m.Counters["rows_padded"] < 1000 || m.Counters["rows_truncated"] < 1000 {
				out = append(out, "too few padded/truncated rows")
			}
			if m.Counters["mismatched_candidates_checked"] < 1000 {
				out = append(out, "too few header/delimiter mismatches checked")
			}
			for _, k := range []string{"top", "quote", "list", "after-paragraph"} {
				if m.Sets["containers"][k] == 0 {
					out = append(out, "container never used: "+k)
				}
			}
			return out
		},
		Exhaustive: func(tier string) string { return "" },
	})
}

type c17Expect struct {
	valid     bool
	cols      int
	aligns    []string // "", "left", "right", "center"
	rowCells  []int    // source cell count of each body row
	container string
	mismatch  bool // header cells != delimiter cells: no table at all
}

type c17Finding struct{ class, locus, detail string }

func cellAlign(e *oracle.Elem) (string, bool) {
	if v, ok := e.Get("align"); ok {
		return v, true
	}
	if v, ok := e.Get("style"); ok {
		v = strings.TrimSpace(v)
		if strings.HasPrefix(v, "text-align:") {
			return strings.TrimSuffix(strings.TrimSpace(v[len("text-align:"):]), ";"), true
		}
		return "style?" + v, true
	}
	return "", false
}

type c17Table struct {
	cols   int
	aligns []string
	rows   [][]*oracle.Elem
}

// c17Verify inspects every table of an accepted output.
func c17Verify(out []byte, doc ast.Node, exp *c17Expect, alignNone bool) (fs []c17Finding, tables []c17Table, tokOK bool) {
	toks, terr := oracle.Tokenize(out)
	if terr != nil {
		return nil, nil, false
	}
	root := oracle.Tree(toks)
	add := func(class, locus, format string, a ...any) {
		fs = append(fs, c17Finding{class, locus, fmt.Sprintf(format, a...) + "\noutput: " + string(q(out))})
	}
	root.Each(func(t *oracle.Elem) {
		if t.Name != "table" {
			return
		}
		heads := t.Kids("thead")
		bodies := t.Kids("tbody")
		if len(heads) != 1 || len(bodies) > 1 || len(t.Children) != len(heads)+len(bodies) {
			add("table-structure", "sections", "<table> has %d <thead>, %d <tbody>, %d children", len(heads), len(bodies), len(t.Children))
			return
		}
		hrows := heads[0].Kids("tr")
		if len(hrows) != 1 || len(heads[0].Children) != 1 {
			add("table-structure", "header-rows", "<thead> has %d rows (%d children)", len(hrows), len(heads[0].Children))
			return
		}
		ths := hrows[0].Kids("th")
		if len(ths) == 0 || len(ths) != len(hrows[0].Children) {
			add("table-structure", "header-cells", "header row has %d <th> among %d children", len(ths), len(hrows[0].Children))
			return
		}
		tb := c17Table{cols: len(ths)}
		for _, th := range ths {
			a, _ := cellAlign(th)
			tb.aligns = append(tb.aligns, a)
		}
		if len(bodies) == 1 {
			for ri, tr := range bodies[0].Children {
				if tr.Name != "tr" {
					add("table-structure", "body-child", "<tbody> child %d is <%s>", ri, tr.Name)
					continue
				}
				tds := tr.Kids("td")
				if len(tds) != len(tr.Children) {
					add("table-structure", "row-child", "body row %d has non-<td> children", ri)
				}
				if len(tds) != tb.cols {
					add("row-not-rectangular", c17Sign(len(tds)-tb.cols), "body row %d has %d cells, header has %d", ri, len(tds), tb.cols)
				}
				for j, td := range tds {
					if a, has := cellAlign(td); has && j < tb.cols && a != tb.aligns[j] {
						add("cell-alignment-differs-from-column", "", "body row %d cell %d has alignment %q, its column's header has %q", ri, j, a, tb.aligns[j])
					}
				}
				tb.rows = append(tb.rows, tds)
			}
		}
		tables = append(tables, tb)
	})
	// tree side
	if doc != nil {
		ast.Walk(doc, func(n ast.Node, entering bool) (ast.WalkStatus, error) {
			if !entering {
				return ast.WalkContinue, nil
			}
			t, ok := n.(*east.Table)
			if !ok {
				return ast.WalkContinue, nil
			}
			k := len(t.Alignments)
			ri := 0
			for r := t.FirstChild(); r != nil; r = r.NextSibling() {
				cnt := 0
				for cell := r.FirstChild(); cell != nil; cell = cell.NextSibling() {
					if tc, ok := cell.(*east.TableCell); ok {
						if cnt < k && tc.Alignment != t.Alignments[cnt] && tc.Alignment != east.AlignNone {
							add("tree-cell-alignment", "", "tree: row %d cell %d has alignment %v, column has %v", ri, cnt, tc.Alignment, t.Alignments[cnt])
						}
					} else {
						add("tree-table-structure", "cell-kind", "tree: row %d has a child of kind %s", ri, cell.Kind())
					}
					cnt++
				}
				if cnt != k {
					add("tree-row-not-rectangular", c17Sign(cnt-k), "tree: row %d (%s) has %d cells, Table.Alignments has %d", ri, r.Kind(), cnt, k)
				}
				if ri == 0 && r.Kind() != east.KindTableHeader || ri > 0 && r.Kind() != east.KindTableRow {
					add("tree-table-structure", "row-kind", "tree: child %d of the table is %s", ri, r.Kind())
				}
				ri++
			}
			if ri == 0 {
				add("tree-table-structure", "empty", "tree: table without header")
			}
			return ast.WalkSkipChildren, nil
		})
	}
	// by construction
	if exp != nil {
		switch {
		case exp.mismatch:
			if len(tables) > 0 {
				add("mismatched-candidate-became-table", exp.container, "header and delimiter row have different cell counts, yet %d table(s) were rendered", len(tables))
			}
		case exp.valid:
			if len(tables) != 1 {
				add("expected-table-missing", exp.container, "expected exactly one table with %d columns and %d body rows, found %d tables", exp.cols, len(exp.rowCells), len(tables))
				break
			}
			tb := tables[0]
			if tb.cols != exp.cols || len(tb.rows) != len(exp.rowCells) {
				add("table-shape-by-construction", exp.container, "expected %d columns x %d body rows, rendered %d x %d", exp.cols, len(exp.rowCells), tb.cols, len(tb.rows))
				break
			}
			if !alignNone {
				for j, a := range exp.aligns {
					if tb.aligns[j] != a {
						add("column-alignment-by-construction", "header", "column %d should be aligned %q, header cell has %q", j, a, tb.aligns[j])
					}
				}
			}
			for ri, row := range tb.rows {
				for j, td := range row {
					if j >= exp.cols {
						break
					}
					written := j < exp.rowCells[ri]
					a, has := cellAlign(td)
					if written && !alignNone && (a != exp.aligns[j] || has != (exp.aligns[j] != "")) {
						add("column-alignment-by-construction", "written-cell", "row %d cell %d is written in the source and should carry alignment %q, has %q", ri, j, exp.aligns[j], a)
					}
					txt := td.Text.String()
					want := fmt.Sprintf("r%dc%d", ri, j)
					if written && !strings.Contains(txt, want) {
						add("cell-content-by-construction", "written-cell", "row %d cell %d should contain %q, has %q", ri, j, want, txt)
					}
					if !written && strings.TrimSpace(txt) != "" {
						add("cell-content-by-construction", "padded-cell", "row %d cell %d is beyond the row's %d source cells and should be empty, has %q", ri, j, exp.rowCells[ri], txt)
					}
				}
			}
			text := string(out)
			for ri, n := range exp.rowCells {
				for j := exp.cols; j < n; j++ {
					if strings.Contains(text, fmt.Sprintf("r%dc%d", ri, j)) {
						add("excess-cell-rendered", "", "row %d cell %d exceeds the %d columns but its text appears in the output", ri, j, exp.cols)
					}
				}
			}
		}
	}
	return fs, tables, true
}

func c17Sign(d int) string {
	if d < 0 {
		return "too-few"
	}
	return "too-many"
}

type c17Doc struct {
	src []byte
	exp *c17Expect
}

var c17AlignDelims = map[string][]string{
	"":       {"---", "-", "----------", " --- ", "  -  "},
	"left":   {":--", ":-", " :--- ", ":----------"},
	"right":  {"--:", "-:", " ---: "},
	"center": {":-:", ":---:", " :-: "},
}

// c17Gen writes one table candidate.
func c17Gen(r *rand.Rand) c17Doc {
	k := 1 + r.Intn(5)
	exp := &c17Expect{cols: k, valid: true}
	names := []string{"", "left", "right", "center"}
	lead := r.Intn(3) != 0
	trail := r.Intn(3) != 0
	if k == 1 && !lead && !trail {
		lead = true // a one-column table needs a pipe
	}
	row := func(cells []string, lead, trail bool) string {
		s := strings.Join(cells, "|")
		if !lead {
			// keep the row's own indentation at 0 so that container prefixes cannot add up to an indented code block
			s = strings.TrimLeft(s, " ")
		}
		if lead {
			s = "|" + s
		}
		if trail {
			s += "|"
		}
		return s
	}
	pad := func(s string) string {
		return strings.Repeat(" ", r.Intn(3)) + s + strings.Repeat(" ", r.Intn(3))
	}
	// header
	hk := k
	if r.Intn(8) == 0 {
		// mismatch between header and delimiter row
		hk = k + 1 + r.Intn(2)
		if r.Intn(2) == 0 && k > 1 {
			hk = k - 1
		}
		exp.mismatch, exp.valid = true, false
	}
	var hcells []string
	for j := 0; j < hk; j++ {
		hcells = append(hcells, pad(fmt.Sprintf("h%d", j)))
	}
	var dcells []string
	for j := 0; j < k; j++ {
		a := names[r.Intn(4)]
		exp.aligns = append(exp.aligns, a)
		ds := c17AlignDelims[a]
		dcells = append(dcells, ds[r.Intn(len(ds))])
	}
	var lines []string
	hl, ht := lead, trail
	if hk == 1 && !hl && !ht {
		hl = true
	}
	lines = append(lines, row(hcells, hl, ht))
	dl, dt := lead, trail
	if r.Intn(4) == 0 {
		dl = r.Intn(2) == 0
		dt = r.Intn(2) == 0
	}
	if k == 1 && !dl && !dt {
		dl = true
	}
	if !dl {
		// without a leading pipe a first cell such as "  -  " would read as a bullet list marker
		dcells[0] = strings.TrimSpace(dcells[0])
	}
	lines = append(lines, row(dcells, dl, dt))
	nr := r.Intn(5)
	for ri := 0; ri < nr; ri++ {
		n := k
		switch r.Intn(4) {
		case 0:
			n = r.Intn(k + 1) // short (possibly 0 -> written as a lone pipe)
		case 1:
			n = k + 1 + r.Intn(3)
		}
		var cells []string
		for j := 0; j < n; j++ {
			c := fmt.Sprintf("r%dc%d", ri, j)
			switch r.Intn(8) {
			case 0:
				c += " \\| x"
			case 1:
				c += " `a\\|b`"
			case 2:
				c = "*" + c + "*"
			case 3:
				c += " `c`"
			case 4:
				c = "[" + c + "](u)"
			}
			cells = append(cells, pad(c))
		}
		rl, rt := lead, trail
		if r.Intn(4) == 0 {
			rl, rt = r.Intn(2) == 0, r.Intn(2) == 0
		}
		if n == 0 {
			lines = append(lines, "|")
			exp.rowCells = append(exp.rowCells, 0)
			continue
		}
		if n == 1 && !rl && !rt {
			rl = true
		}
		lines = append(lines, row(cells, rl, rt))
		exp.rowCells = append(exp.rowCells, n)
	}
	body := strings.Join(lines, "\n") + "\n"
	var src string
	switch r.Intn(6) {
	case 0, 1:
		exp.container = "top"
		src = body
		if r.Intn(2) == 0 {
			src = "para\n\n" + body + "\nafter\n"
		}
	case 2:
		exp.container = "quote"
		src = string(wl.PrefixLines([]byte(body), "> "))
	case 3:
		exp.container = "list"
		src = string(wl.IndentLines([]byte(body), "- ", "  "))
	case 4:
		exp.container = "after-paragraph"
		src = "some text\nmore text\n" + body
	default:
		exp.container = "top"
		src = string(wl.PrefixLines([]byte(body), strings.Repeat(" ", 1+r.Intn(3))))
	}
	return c17Doc{src: []byte(src), exp: exp}
}

func c17Specs() []cfg.Spec {
	var out []cfg.Spec
	for _, base := range []cfg.Spec{{Only: []string{cfg.STable}}, {Ext: cfg.ExtGFM}, {Ext: cfg.ExtAll}} {
		for _, al := range []string{"align=attr", "align=style", "align=default", "align=none"} {
			for _, x := range []bool{false, true} {
				s, _ := cfg.Parse(base.Name() + "," + al)
				s.XHTML = x
				out = append(out, s)
			}
		}
	}
	// the extension's exported parts wired by hand, without its AST transformer
	out = append(out, cfg.Spec{Only: []string{cfg.STableParts}}, cfg.Spec{Only: []string{cfg.STableParts}, XHTML: true})
	return out
}

func c17Eval(md goldmark.Markdown, spec cfg.Spec, src []byte, exp *c17Expect) (fs []c17Finding, tables []c17Table, status string) {
	res := parseRender(md, src)
	if !res.OK() {
		return nil, nil, "fail"
	}
	fs, tables, ok := c17Verify(res.Out, res.Doc, exp, strings.Contains(spec.Name(), "align=none"))
	if !ok {
		return nil, nil, "tokenizer"
	}
	return fs, tables, "ok"
}

func c17Check(c *core.Ctx, pool *cfg.Pool, spec cfg.Spec, d c17Doc) {
	name := spec.Name()
	md := pool.Get(spec)
	c.Begin(name, d.src)
	fs, tables, status := c17Eval(md, spec, d.src, d.exp)
	c.End()
	c.Eval()
	c.Observe("configs", name)
	switch status {
	case "fail":
		c.Count("conversion_failed_left_to_C01", 1)
		return
	case "tokenizer":
		c.Count("output_rejected_by_tokenizer_left_to_C03", 1)
		return
	}
	c.Count("documents", 1)
	c.Count("tables_inspected", int64(len(tables)))
	for _, tb := range tables {
		c.Count("body_rows_inspected", int64(len(tb.rows)))
		c.Max("columns", int64(tb.cols))
	}
	if d.exp != nil {
		c.Observe("containers", d.exp.container)
		if d.exp.mismatch {
			c.Count("mismatched_candidates_checked", 1)
		}
		if d.exp.valid {
			c.Count("tables_compared_by_construction", 1)
			var sb strings.Builder
			fmt.Fprintf(&sb, "%d|%v|%v|%s", d.exp.cols, d.exp.rowCells, d.exp.aligns, d.exp.container)
			c.Sig(core.HashStr(sb.String(), name))
			for _, n := range d.exp.rowCells {
				c.Observe("shapes", fmt.Sprintf("%d,%+d", d.exp.cols, n-d.exp.cols))
				if n < d.exp.cols {
					c.Count("rows_padded", 1)
				} else if n > d.exp.cols {
					c.Count("rows_truncated", 1)
				}
			}
		}
	} else if len(tables) > 0 {
		var sb strings.Builder
		for _, tb := range tables {
			fmt.Fprintf(&sb, "%d x %d %v;", tb.cols, len(tb.rows), tb.aligns)
		}
		c.Sig(core.HashStr(sb.String(), name))
	}
	for _, f := range fs {
		if c.Seen(f.class, f.locus) {
			c.Violation(&core.Violation{Class: f.class, Locus: f.locus, Config: name, Input: d.src})
			continue
		}
		min, detail := d.src, f.detail
		byConstruction := strings.HasSuffix(f.class, "by-construction") || f.class == "expected-table-missing" || f.class == "mismatched-candidate-became-table" || f.class == "excess-cell-rendered"
		if !byConstruction {
			fresh := spec.Build()
			min = core.Minimize(d.src, func(b []byte) bool {
				xs, _, st := c17Eval(fresh, spec, b, nil)
				if st != "ok" {
					return false
				}
				for _, x := range xs {
					if x.class == f.class && x.locus == f.locus {
						return true
					}
				}
				return false
			}, 800)
			xs, _, _ := c17Eval(fresh, spec, min, nil)
			for _, x := range xs {
				if x.class == f.class && x.locus == f.locus {
					detail = x.detail
				}
			}
		}
		var script any
		if d.exp != nil {
			script = map[string]any{"valid": d.exp.valid, "mismatch": d.exp.mismatch, "cols": d.exp.cols, "aligns": d.exp.aligns, "row_cells": d.exp.rowCells, "container": d.exp.container}
		}
		c.Violation(&core.Violation{Class: f.class, Locus: f.locus, Config: name, Input: min, Detail: detail, Script: script})
	}
}

func replayC17(c *core.Ctx, v *core.Violation) (bool, string) {
	spec := specOf(v.Config)
	var exp *c17Expect
	if m, ok := v.Script.(map[string]any); ok {
		exp = &c17Expect{}
		exp.valid, _ = m["valid"].(bool)
		exp.mismatch, _ = m["mismatch"].(bool)
		if f, ok := m["cols"].(float64); ok {
			exp.cols = int(f)
		}
		exp.container, _ = m["container"].(string)
		if a, ok := m["aligns"].([]any); ok {
			for _, x := range a {
				s, _ := x.(string)
				exp.aligns = append(exp.aligns, s)
			}
		}
		if a, ok := m["row_cells"].([]any); ok {
			for _, x := range a {
				f, _ := x.(float64)
				exp.rowCells = append(exp.rowCells, int(f))
			}
		}
	}
	fs, _, st := c17Eval(spec.Build(), spec, v.Input, exp)
	if st != "ok" {
		return false, "not evaluable (C01/C03)"
	}
	for _, f := range fs {
		if f.class == v.Class && f.locus == v.Locus {
			return true, f.detail
		}
	}
	if len(fs) > 0 {
		return true, "different: " + fs[0].class + " " + fs[0].detail
	}
	return false, "all tables are rectangular"
}

var c17Soup = []string{"|", "|", "|", "-", "--", "---", ":", ":-", "-:", ":-:", " ", " ", "\n", "\n", "a", "b", "\\|", "`", "`|`", "`a\\|b`", "||", "|-", "-|", "|-|", "|:-|", "| a | b |\n", "|---|---|\n", "| c |\n", "a | b\n", "-|-\n", "c|d|e\n",
	"> ", "- ", "  ", "    ", "\n\n", "text\n", "*", "[", "](u)", "<b>", "&amp;", "\\", "\\\\|", "| |\n", "|\n", "|-\n", "-\n", ":\n", "|:|\n", "| :--: |\n", "|- -|\n", "| --- | --- \n", "\t", "\r\n", "\x00", "é", "|a", "b|"}

func runC17(c *core.Ctx) {
	pool := cfg.NewPool()
	specs := c17Specs()
	corpus := loadCorpus(c)
	r := c.Rng
	n1 := c.PerShard(c.N(500000, 15000000))
	for i := 0; i < n1; i++ {
		sp := specs[r.Intn(len(specs))]
		d := c17Gen(r)
		c17Check(c, pool, sp, d)
		if c.WantSample() && i%6000 == 3 {
			c.Sample(map[string]any{"config": sp.Name(), "document": q(d.src), "expected_columns": d.exp.cols, "source_cells_per_row": d.exp.rowCells, "alignments": d.exp.aligns, "mismatch": d.exp.mismatch})
		}
	}
	n2 := c.PerShard(c.N(400000, 12000000))
	for i := 0; i < n2; i++ {
		var src []byte
		if i%3 != 2 {
			src = wl.SoupFrom(r, c17Soup, 2+r.Intn(24))
		} else {
			src = mixDoc(r, corpus)
			for k := 1 + r.Intn(3); k > 0; k-- {
				p := r.Intn(len(src) + 1)
				ins := c17Soup[r.Intn(len(c17Soup))]
				src = append(src[:p:p], append([]byte(ins), src[p:]...)...)
			}
		}
		c17Check(c, pool, specs[r.Intn(len(specs))], c17Doc{src: src})
	}
	// 3. sibling documents through one reused source buffer: tables of the same shape whose delimiter rows differ only in
	// their colons, written one after the other into the same backing array (a caller that recycles its read buffer).
	// Anything remembered by reference to the source rather than by value shows up as the previous document's alignments.
	arena := make([]byte, 0, 1<<16)
	cellsOf := []string{"---", ":--", "--:", ":-:"}
	namesOf := []string{"", "left", "right", "center"}
	n3 := c.PerShard(c.N(60000, 2000000))
	for i := 0; i < n3; i++ {
		k := 1 + r.Intn(4)
		sp := specs[r.Intn(len(specs))]
		// a handful of siblings of one shape in a row
		for sib := 2 + r.Intn(3); sib > 0; sib-- {
			exp := &c17Expect{cols: k, valid: true, container: "top"}
			var hdr, del, row strings.Builder
			for j := 0; j < k; j++ {
				a := r.Intn(4)
				exp.aligns = append(exp.aligns, namesOf[a])
				fmt.Fprintf(&hdr, "| h%d ", j)
				del.WriteString("|" + cellsOf[a])
				fmt.Fprintf(&row, "| r0c%d ", j)
			}
			exp.rowCells = []int{k}
			doc := hdr.String() + "|\n" + del.String() + "|\n" + row.String() + "|\n"
			arena = append(arena[:0], doc...)
			c17Check(c, pool, sp, c17Doc{src: arena[:len(doc):len(doc)], exp: exp})
			c.Count("sibling_documents_through_one_buffer", 1)
		}
		if i%4 == 0 {
			d := c17Gen(r)
			if len(d.src) < cap(arena) {
				arena = append(arena[:0], d.src...)
				d.src = arena[:len(d.src):len(d.src)]
				c17Check(c, pool, sp, d)
			}
		}
	}
}
