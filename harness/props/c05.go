package props

import (
	"fmt"
	"github.com/yuin/goldmark"
	"github.com/yuin/goldmark/parser"
	"strings"

	"github.com/yuin/goldmark/ast"
	"github.com/yuin/goldmark/text"

	"verif/cfg"
	"verif/core"
	"verif/oracle"
	"verif/wl"
)

// C05 — every parsed AST is a well-formed tree with all positions inside the source.

func init() {
	register(&Prop{
		ID:    "C05",
		Level: "exploration",
		Rule: "cases = (parser-side configuration, source); the tree returned by Parser.Parse is walked through accessors only and every structural, kind/placement and position invariant of the statement is asserted on every node. " +
			"Sources: exhaustive short strings, token soup, corpus and mutants; configurations: 9 extension sets x {AutoHeadingID, Attribute} = 36. " +
			"Non-trivial = tree has a node other than Document/Paragraph/Text; distinct = distinct (AST shape signature, extension set).",
		Assumptions: []string{
			"the walker reads the tree only through the public ast.Node accessors and exported fields",
			"ast.AutoLink inside ast.Link is not flagged (the statement speaks of links nested in links); inline-under-container placement is checked exactly as stated (inline directly under the document; block under inline; list item outside list; non-item in list; non-text in code span)",
			"a panic inside Parse is counted and left to C01",
		},
		Run:    runC05,
		Replay: replayC05,
		Floors: func(m *Merged) []string {
			var out []string
			if len(m.Sets["node_kinds"]) < 28 {
				out = append(out, fmt.Sprintf("only %d node kinds inspected", len(m.Sets["node_kinds"])))
			}
			if len(m.Sets["configs"]) < 36 {
				out = append(out, fmt.Sprintf("only %d parser-side configurations exercised", len(m.Sets["configs"])))
			}
			return out
		},
		Exhaustive: func(tier string) string {
			if tier == "thorough" {
				return "all strings of length<=5 over the 18-unit alphabet x 36 parser-side configurations; all strings of length<=3 over the 36-unit alphabet x 36 configurations"
			}
			return "all strings of length<=4 over the 14-unit alphabet x 9 extension sets (parser options alternating); all strings of length<=2 over the 36-unit alphabet x 36 configurations"
		},
	})
}

var c05Seeds = []struct{ cfg, in string }{
	{"core", "- Foo\n--"},
	{"gfm", "| a | b |\n|---|---|\n| c | d |"},
	{"gfm", "a\n\n| a |\n|---|"},
	{"all", "Term\n: def\n\n| a |\n|-|\n"},
	{"footnote", "one[^a] two[^c] three[^b]\n\n[^a]: 1\n[^b]: 2\n[^c]: 3\n"},
	{"core", "[![*[b](c)*](x)](y)"},
	{"core", "[a [b](c) d](e)"},
	{"all,autoid,attr", "# h {#x .y}\n\nSetext {#z}\n===\n"},
}

func c05Problems(spec cfg.Spec, src []byte, st *oracle.WalkStats) (ps []oracle.Problem, doc ast.Node, panicked bool) {
	md := spec.Build()
	pv, _ := core.Try(func() { doc = md.Parser().Parse(text.NewReader(src)) })
	if pv != nil || doc == nil {
		return nil, nil, true
	}
	return oracle.CheckAST(doc, src, st), doc, false
}

func c05Check(c *core.Ctx, pool *cfg.Pool, spec cfg.Spec, src []byte, st *oracle.WalkStats) {
	name := spec.Name()
	md := pool.Get(spec)
	c.Begin(name, src)
	var doc ast.Node
	pv, _ := core.Try(func() { doc = md.Parser().Parse(text.NewReader(src)) })
	c.End()
	c.Eval()
	c.Observe("configs", name)
	if pv != nil || doc == nil {
		c.Count("parse_panics_left_to_C01", 1)
		return
	}
	probs := oracle.CheckAST(doc, src, st)
	observeShape(c, doc, extName(spec))
	// one document in five is parsed once more with a parser.Context of the caller's that is kept across documents
	// (parser.WithContext): the tree it gives must be as well-formed, and as much inside ITS source, as any other
	if c05CtxTick++; c05CtxTick%5 == 0 {
		c05WithContext(c, md, name, src, st)
	}
	for _, p := range probs {
		class, locus := "ast-"+p.Class, p.Locus
		if c.Seen(class, locus) {
			c.Violation(&core.Violation{Class: class, Locus: locus, Config: name, Input: src})
			continue
		}
		min := core.Minimize(src, func(b []byte) bool {
			ps, _, _ := c05Problems(spec, b, nil)
			for _, q := range ps {
				if q.Class == p.Class && q.Locus == p.Locus {
					return true
				}
			}
			return false
		}, 1200)
		c.Violation(&core.Violation{Class: class, Locus: locus, Config: name, Input: min, Detail: p.Detail})
	}
}

var (
	c05Ctx     = parser.NewContext()
	c05CtxTick int
	c05CtxDocs int
)

func c05WithContext(c *core.Ctx, md goldmark.Markdown, name string, src []byte, st *oracle.WalkStats) {
	if c05CtxDocs++; c05CtxDocs%4000 == 0 {
		c05Ctx = parser.NewContext() // a caller's context does not live for ever either
	}
	var doc ast.Node
	pv, _ := core.Try(func() { doc = md.Parser().Parse(text.NewReader(src), parser.WithContext(c05Ctx)) })
	c.Eval()
	c.Count("trees_parsed_with_a_reused_context", 1)
	if pv != nil || doc == nil {
		c.Count("parse_panics_left_to_C01", 1)
		return
	}
	for _, p := range oracle.CheckAST(doc, src, st) {
		c.Violation(&core.Violation{Class: "ast-" + p.Class + ":reused-parser-context", Locus: p.Locus, Config: name, Input: src,
			Detail: "parsed with a parser.Context that earlier documents were parsed with (parser.WithContext)\n" + p.Detail})
	}
}

// c05ContextPairs: footnote and definition documents in pairs on one context - the first leaves something in the context
// (definitions nobody referenced; references nobody defined), the second asks for exactly that.
func c05ContextPairs(c *core.Ctx, pool *cfg.Pool, st *oracle.WalkStats) {
	firsts := []string{"[^1]: a note nobody refers to, long enough that its positions lie beyond the end of a short document\n", "[^a]: x\n\n[^b]: y\n\n[^undefined]\n", "text[^1]\n", "[foo]: /url 'a title that is long enough to lie beyond the end of a short source'\n", "# heading\n\n[^1]: n\n\n    code\n",
		"x[^1]\n\n[^1]: referenced\n\n[^2]: not referenced, with *emphasis* and a [link](/u) inside it\n"}
	seconds := []string{"see[^1]\n", "[^1]\n", "a[^a] b[^b] c[^2]\n", "[foo] ![foo]\n", "[^1]: own\n\n[^1]\n", "x\n"}
	k := 0
	for _, sp := range []cfg.Spec{{Ext: cfg.ExtFootnote}, {Ext: cfg.ExtAll}, {Ext: cfg.ExtAll, AutoHeadingID: true, Attribute: true}} {
		md := pool.Get(sp)
		for _, f := range firsts {
			for _, s2 := range seconds {
				k++
				if !c.Mine(k) {
					continue
				}
				ctx := parser.NewContext()
				for _, d := range []string{f, s2, s2} {
					src := []byte(d)
					var doc ast.Node
					pv, _ := core.Try(func() { doc = md.Parser().Parse(text.NewReader(src), parser.WithContext(ctx)) })
					c.Eval()
					c.Count("trees_parsed_with_a_reused_context", 1)
					if pv != nil || doc == nil {
						c.Count("parse_panics_left_to_C01", 1)
						continue
					}
					for _, p := range oracle.CheckAST(doc, src, st) {
						c.Violation(&core.Violation{Class: "ast-" + p.Class + ":reused-parser-context", Locus: p.Locus, Config: sp.Name(), Input: src,
							Detail: fmt.Sprintf("parsed with the parser.Context that had parsed %s before\n%s", q([]byte(f)), p.Detail)})
					}
				}
			}
		}
	}
}

func replayC05(c *core.Ctx, v *core.Violation) (bool, string) {
	ps, _, pan := c05Problems(specOf(v.Config), v.Input, nil)
	if pan {
		return false, "Parse panicked (C01)"
	}
	for _, p := range ps {
		if "ast-"+p.Class == v.Class && p.Locus == v.Locus {
			return true, p.Detail
		}
	}
	if len(ps) > 0 {
		return true, "different problem: " + ps[0].Locus + ": " + ps[0].Detail
	}
	return false, "tree is well-formed"
}

func runC05(c *core.Ctx) {
	pool := cfg.NewPool()
	specs := cfg.ParserSide()
	rich := richSafe()
	corpus := loadCorpus(c)
	st := &oracle.WalkStats{Kinds: map[ast.NodeKind]int{}}
	r := c.Rng
	if c.Shard == 0 {
		for _, s := range c05Seeds {
			c05Check(c, pool, specOf(s.cfg), []byte(s.in), st)
		}
	}
	c05ContextPairs(c, pool, st)
	// 1. exhaustive short strings
	alpha, maxLen := wl.Alphabet14, 4
	if !c.Quick() {
		alpha, maxLen = wl.Alphabet18, 5
	}
	n1 := wl.ShortCount(len(alpha), maxLen)
	for i := 0; i < n1; i++ {
		if !c.Mine(i) {
			continue
		}
		src := []byte(wl.ShortAt(alpha, maxLen, i))
		c05Check(c, pool, rich[i%len(rich)], src, st)
		if c.Quick() {
			for e := 0; e < cfg.NExt; e++ {
				c05Check(c, pool, specs[e*4+(i+e)%4], src, st)
			}
		} else {
			for _, sp := range specs {
				c05Check(c, pool, sp, src, st)
			}
		}
	}
	// 2. wide alphabet
	wideLen := c.N(2, 3)
	n2 := wl.ShortCount(len(wl.AlphabetWide), wideLen)
	for i := 0; i < n2; i++ {
		if !c.Mine(i) {
			continue
		}
		src := []byte(wl.ShortAt(wl.AlphabetWide, wideLen, i))
		for _, sp := range specs {
			c05Check(c, pool, sp, src, st)
		}
	}
	// 2b. scalable families at boundary sizes (label length 999, 9-digit numbers, 32 parentheses, powers of two ...)
	k := 0
	for fi, fam := range wl.DeepFamilies {
		for _, n := range wl.BoundarySizes {
			// the nesting families are quadratic or worse: they stay small here (C01 runs them large, one at a time)
			if fi < wl.FirstLimitFamily && n > 257 {
				continue
			}
			if strings.HasSuffix(fam.Name, "-xl") && n != 1025 {
				continue
			}
			for e := 0; e < cfg.NExt; e++ {
				k++
				if !c.Mine(k) {
					continue
				}
				c05Check(c, pool, specs[e*4+(k/7)%4], fam.Gen(n), st)
				c.Count("family_cases", 1)
			}
		}
	}
	// 3. soup / corpus / mutants
	n3 := c.PerShard(c.N(150000, 5000000))
	for i := 0; i < n3; i++ {
		src := mixDoc(r, corpus)
		for k := 0; k < 4; k++ {
			sp := specs[r.Intn(len(specs))]
			if k == 0 {
				sp = specs[cfg.ExtAll*4+r.Intn(4)]
			}
			if k == 1 && i%2 == 0 {
				sp = rich[r.Intn(len(rich))]
			}
			c05Check(c, pool, sp, src, st)
		}
		if c.WantSample() && i%3000 == 3 {
			c.Sample(map[string]any{"input": q(src), "nodes_inspected_so_far": st.Nodes})
		}
	}
	c.Count("nodes_inspected", int64(st.Nodes))
	c.Count("segments_checked", int64(st.Segments))
	for k, v := range st.Kinds {
		c.Count("kind:"+k.String(), int64(v))
	}
}
