package props

import (
	"bytes"
	"encoding/json"
	"fmt"
	"math/rand"
	"sort"
	"strings"

	"github.com/yuin/goldmark"
	"github.com/yuin/goldmark/ast"
	"github.com/yuin/goldmark/text"

	"verif/cfg"
	"verif/core"
	"verif/oracle"
	"verif/sg"
	"verif/wl"
)

// convResult is the outcome of one conversion executed under recover().
type convResult struct {
	Out   []byte
	Doc   ast.Node
	Err   error
	Panic any
	Stack []byte
	Phase string // "parse" or "render" when it panicked
}

func (r *convResult) OK() bool { return r.Panic == nil && r.Err == nil }

// parseRender runs Parser().Parse and Renderer().Render (the two steps Convert performs).
func parseRender(md goldmark.Markdown, src []byte) (res convResult) {
	res.Phase = "parse"
	defer func() {
		if p := recover(); p != nil {
			res.Panic = p
			res.Stack = stackOf()
		}
	}()
	doc := md.Parser().Parse(text.NewReader(src))
	res.Doc = doc
	res.Phase = "render"
	var buf bytes.Buffer
	res.Err = md.Renderer().Render(&buf, src, doc)
	res.Out = buf.Bytes()
	res.Phase = ""
	return
}

// convArena is the recycled read buffer of this worker: every third Convert issued through convert() reads its document from
// it (the previous occupant is overwritten), as a caller does that reuses one buffer for all requests. The output of a
// conversion does not depend on where its source lives, so no oracle changes; whatever goldmark keeps of a source beyond
// the call (and later reads) is stale here. Not used in the race build, whose conversions run concurrently.
var (
	convArena srcArena
	convTick  uint32
)

// convert runs md.Convert under recover().
func convert(md goldmark.Markdown, src []byte) (res convResult) {
	if !raceEnabled {
		if convTick++; convTick%3 == 0 {
			src = convArena.load(src)
		}
	}
	res.Phase = "convert"
	defer func() {
		if p := recover(); p != nil {
			res.Panic = p
			res.Stack = stackOf()
		}
	}()
	var buf bytes.Buffer
	res.Err = md.Convert(src, &buf)
	res.Out = buf.Bytes()
	res.Phase = ""
	return
}

func stackOf() []byte {
	// trimmed stack: keep goldmark frames
	b := make([]byte, 16384)
	n := runtimeStack(b)
	return b[:n]
}

// panicLocus extracts "message @ first goldmark frame" from a panic value and stack.
func panicLocus(pv any, stack []byte) string {
	msg := fmt.Sprint(pv)
	if len(msg) > 120 {
		msg = msg[:120]
	}
	frame := ""
	lines := strings.Split(string(stack), "\n")
	for i := 0; i+1 < len(lines); i++ {
		l := lines[i]
		if strings.HasPrefix(l, "github.com/yuin/goldmark") {
			f := l
			if j := strings.LastIndexByte(f, '('); j > 0 {
				f = f[:j]
			}
			frame = strings.TrimPrefix(f, "github.com/yuin/goldmark")
			break
		}
	}
	// strip variable numbers from the message so that one defect gives one group
	msg = stripDigits(msg)
	return msg + " @ " + frame
}

func stripDigits(s string) string {
	var b strings.Builder
	prev := false
	for _, r := range s {
		if r >= '0' && r <= '9' {
			if !prev {
				b.WriteByte('N')
			}
			prev = true
			continue
		}
		prev = false
		b.WriteRune(r)
	}
	return b.String()
}

// specOf resolves a configuration name.
func specOf(name string) cfg.Spec {
	s, ok := cfg.Parse(name)
	if !ok {
		panic("cannot parse configuration name " + name)
	}
	return s
}

// loadCorpus loads the repository's own inputs (cached per process).
var corpusCache []wl.Example

func loadCorpus(c *core.Ctx) []wl.Example {
	if corpusCache == nil {
		corpusCache = wl.Corpus(c.Repo)
		if len(corpusCache) == 0 {
			c.Note("corpus could not be loaded from " + c.Repo)
		}
	}
	return corpusCache
}

// pickSpecs chooses n distinct specs from a list, determined by the rng.
func pickSpecs(r *rand.Rand, all []cfg.Spec, n int) []cfg.Spec {
	if n >= len(all) {
		return all
	}
	idx := r.Perm(len(all))[:n]
	out := make([]cfg.Spec, n)
	for i, x := range idx {
		out[i] = all[x]
	}
	return out
}

// observeShape records AST statistics of an executed case and returns the shape.
func observeShape(c *core.Ctx, doc ast.Node, extra string) oracle.Shape {
	sh := oracle.ShapeOf(doc)
	if sh.NonTrivial {
		c.Sig(sh.Sig ^ core.HashStr(extra))
	}
	for k := range sh.Kinds {
		c.Observe("node_kinds", k.String())
	}
	c.Max("ast_depth", int64(sh.MaxDepth))
	return sh
}

func q(b []byte) string {
	s := fmt.Sprintf("%q", b)
	if len(s) > 300 {
		s = s[:300] + "…"
	}
	return s
}

func newRand(seed int64) *rand.Rand { return rand.New(rand.NewSource(seed)) }

func sortStrings(s []string) { sort.Strings(s) }

func jsonMarshal(v any) ([]byte, error)   { return json.Marshal(v) }
func jsonUnmarshal(b []byte, v any) error { return json.Unmarshal(b, v) }

// mixDoc is the shared random-document source of the monitors: the standard mixture of the workload library (soup, corpus,
// mutants, distilled corpus) and, one time in six, a document from one of the property-specific generators (footnote
// documents, tables, heading multisets, URL spellings in URL-bearing constructs, by-construction CommonMark documents,
// attribute blocks, definition blocks with references). Every generator written for one property thereby feeds all.
func mixDoc(r *rand.Rand, corpus []wl.Example) []byte {
	if r.Intn(6) != 0 {
		return wl.Mix(r, corpus)
	}
	switch r.Intn(7) {
	case 0:
		return c16Gen(r, cfg.Spec{Ext: cfg.ExtAll}, r.Intn(3) == 0).src
	case 1:
		return c17Gen(r).src
	case 2:
		all := append(append([]string{}, c15Texts...), c15Extra...)
		seq := make([]string, 1+r.Intn(8))
		for i := range seq {
			seq[i] = all[r.Intn(len(all))]
		}
		return c15Build(r, seq, cfg.Spec{Ext: cfg.ExtAll, AutoHeadingID: true}).src
	case 3:
		sp := c04Spell(r)
		con := c04Constructs[r.Intn(len(c04Constructs))]
		return []byte(strings.ReplaceAll(con.Tmpl, "%U", sp.Text))
	case 4:
		return []byte(sg.Document(r, 3, 6, 4, nil).Markdown)
	case 5:
		return append(append([]byte("# h *e*"), wl.AttrBlockWith(r, 2)...), wl.Soup(r, 8)...)
	default:
		defs, dsrc := c09GenDefs(r)
		d := c09InjectRefs(r, wl.Soup(r, 10), defs)
		return append(append(d, "\n\n"...), dsrc...)
	}
}
