package props

import (
	"bytes"
	"fmt"
	"math/rand"
	"strings"

	"github.com/yuin/goldmark/text"

	"verif/core"
	"verif/wl"
)

// C18 — Reader, BlockReader and Segment behave as a cursor over the source (reference cursor in lock-step).

func init() {
	register(&Prop{
		ID:    "C18",
		Level: "exploration",
		Rule: "cases = (reader kind, source, segment list, call sequence). The real text.Reader / text.BlockReader and a reference cursor " +
			"(concatenated-view model) execute the same calls; every return value is compared, and after the sequence PeekLine, Peek, Position and LineOffset are compared. " +
			"Exhaustive part: all sources up to length L over a 10-symbol alphabet x all call sequences up to length K over 12 operations, for both reader kinds. " +
			"distinct_nontrivial = distinct (source, sequence) pairs in which the cursor changed line at least once or restored a saved position (hash-counted).",
		Assumptions: []string{
			"preconditions honoured by the generator: Advance(n) with n <= remaining bytes; SetPosition only with values returned by Position of the same reader; padding only after a partially consumed TAB (1..3); FindClosure only with zero padding; BlockReader segments are non-empty, increasing, one physical line each and every segment but the last ends at its line's newline",
			"LineOffset is compared only where a current line exists (PeekLine non-nil); BlockReader.Position's segment is compared only before the end of the block (the implementation leaves it unspecified afterwards)",
			"after FindClosure with Advance that finds nothing the position is unspecified by the documentation: the model adopts the reader's position there",
		},
		Run:    runC18,
		Replay: replayC18,
		Exhaustive: func(tier string) string {
			if tier == "thorough" {
				return "all sources of length <= 5 over {a,space,TAB,LF,CR,é,[,],`,\\} x all call sequences of length <= 4 over the 12 operations, Reader and BlockReader (two canonical segmentations)"
			}
			return "all sources of length <= 4 over {a,space,TAB,LF,CR,é,[,],`,\\} x all call sequences of length <= 3 over the 12 operations, Reader and BlockReader (two canonical segmentations)"
		},
		Floors: func(m *Merged) []string {
			var out []string
			for _, op := range c18OpNames {
				if m.Sets["calls"][op] == 0 {
					out = append(out, "operation never exercised: "+op)
				}
			}
			return out
		},
	})
}

var c18Alpha = []string{"a", " ", "\t", "\n", "\r", "é", "[", "]", "`", "\\"}

var c18OpNames = []string{"PeekLine", "Peek", "Advance", "AdvanceLine", "Save", "Restore", "LineOffset", "FindClosure", "FindClosureAdv", "TabPad", "Value"}

// ---- reference cursor ----

type c18Cursor struct {
	src   []byte
	lines []text.Segment // physical lines (Reader) or the given segments (BlockReader)
	block bool
	line  int
	pos   text.Segment
}

func physLines(src []byte) []text.Segment {
	var out []text.Segment
	st := 0
	for i, c := range src {
		if c == '\n' {
			out = append(out, text.NewSegment(st, i+1))
			st = i + 1
		}
	}
	if st < len(src) {
		out = append(out, text.NewSegment(st, len(src)))
	}
	return out
}

func newC18Cursor(src []byte, lines []text.Segment, block bool) *c18Cursor {
	c := &c18Cursor{src: src, lines: lines, block: block}
	if len(lines) > 0 {
		c.pos = lines[0]
	} else {
		c.pos = text.NewSegment(0, 0)
		if block {
			c.pos = text.NewSegment(-1, -1)
		}
	}
	return c
}

func (c *c18Cursor) atEnd() bool {
	if c.line >= len(c.lines) {
		return true
	}
	if c.block {
		return c.pos.Start >= c.lines[len(c.lines)-1].Stop
	}
	return c.pos.Start >= len(c.src)
}

func (c *c18Cursor) view() []byte {
	if c.atEnd() {
		return nil
	}
	v := bytes.Repeat([]byte{' '}, c.pos.Padding)
	return append(v, c.src[c.pos.Start:c.pos.Stop]...)
}

func (c *c18Cursor) peek() byte {
	if c.atEnd() {
		return text.EOF
	}
	if c.pos.Padding > 0 {
		return ' '
	}
	return c.src[c.pos.Start]
}

func (c *c18Cursor) remaining() int {
	if c.atEnd() {
		return 0
	}
	n := c.pos.Padding + c.pos.Stop - c.pos.Start
	for i := c.line + 1; i < len(c.lines); i++ {
		n += c.lines[i].Padding + c.lines[i].Stop - c.lines[i].Start
	}
	return n
}

func (c *c18Cursor) restOfLine() int { return c.pos.Padding + c.pos.Stop - c.pos.Start }

func (c *c18Cursor) advanceLine() {
	c.line++
	if c.line < len(c.lines) {
		c.pos = c.lines[c.line]
		return
	}
	if !c.block {
		c.pos = text.NewSegment(len(c.src), len(c.src))
	}
}

// advance drops n bytes from the concatenation of the remaining views.
func (c *c18Cursor) advance(n int) {
	for n > 0 && !c.atEnd() {
		if c.pos.Padding > 0 {
			c.pos.Padding--
			n--
			continue
		}
		last := c.pos.Start == c.pos.Stop-1
		if last {
			if c.block {
				if c.line+1 < len(c.lines) {
					c.advanceLine()
				} else {
					c.pos.Start++
				}
			} else {
				if c.src[c.pos.Start] == '\n' {
					c.advanceLine()
				} else {
					c.pos.Start++ // end of a last line without newline
				}
			}
			n--
			continue
		}
		c.pos.Start++
		n--
	}
}

func (c *c18Cursor) lineOffset() int {
	head := 0
	if c.block {
		if c.line < len(c.lines) {
			head = c.lines[c.line].Start
		}
	} else {
		head = c.pos.Start
		if head > len(c.src) {
			head = len(c.src)
		}
		for head > 0 && c.src[head-1] != '\n' {
			head--
		}
	}
	v := 0
	for i := head; i < c.pos.Start; i++ {
		if c.src[i] == '\t' {
			v += 4 - v%4
		} else {
			v++
		}
	}
	return v - c.pos.Padding
}

func segValue(s text.Segment, src []byte) []byte {
	v := bytes.Repeat([]byte{' '}, s.Padding)
	v = append(v, src[s.Start:s.Stop]...)
	if s.ForceNewline && len(v) > 0 && v[len(v)-1] != '\n' {
		v = append(v, '\n')
	}
	return v
}

// ---- lock-step execution ----

type c18Op struct {
	Name string `json:"op"`
	Arg  int    `json:"arg,omitempty"`
	Arg2 int    `json:"arg2,omitempty"`
}

type c18Case struct {
	Src   []byte         `json:"src"`
	Block bool           `json:"block"`
	Segs  []text.Segment `json:"segs,omitempty"`
	Ops   []c18Op        `json:"ops"`
}

func (k c18Case) String() string {
	var b strings.Builder
	kind := "Reader"
	if k.Block {
		kind = fmt.Sprintf("BlockReader%v", k.Segs)
	}
	fmt.Fprintf(&b, "%s(%q):", kind, k.Src)
	for _, o := range k.Ops {
		fmt.Fprintf(&b, " %s", o.Name)
		if o.Name == "Advance" || o.Name == "TabPad" || o.Name == "Value" || strings.HasPrefix(o.Name, "FindClosure") {
			fmt.Fprintf(&b, "(%d,%d)", o.Arg, o.Arg2)
		}
	}
	return b.String()
}

type c18Stats struct {
	calls      map[string]int
	lineChange bool
	restored   bool
	ncalls     int
}

// c18Run executes the case; returns "" or (failing op index, description).
func c18Run(k c18Case, st *c18Stats) (int, string) {
	src := k.Src
	var rd text.Reader
	var lines []text.Segment
	if k.Block {
		lines = k.Segs
		ss := text.NewSegments()
		for _, s := range lines {
			ss.Append(s)
		}
		rd = text.NewBlockReader(src, ss)
	} else {
		lines = physLines(src)
		rd = text.NewReader(src)
	}
	m := newC18Cursor(src, lines, k.Block)
	type saved struct {
		line int
		pos  text.Segment
		ml   int
		mp   text.Segment
	}
	var slot *saved
	var slots [4]*saved
	l0, p0 := rd.Position()
	init := saved{l0, p0, m.line, m.pos}

	checkPos := func(where string) string {
		l, p := rd.Position()
		if l != m.line {
			return fmt.Sprintf("%s: Position() line = %d, model %d", where, l, m.line)
		}
		if !(k.Block && m.atEnd()) {
			if p.Start != m.pos.Start || p.Stop != m.pos.Stop || p.Padding != m.pos.Padding {
				return fmt.Sprintf("%s: Position() = %+v, model %+v", where, p, m.pos)
			}
		}
		if !m.atEnd() && (p.Start < 0 || p.Stop > len(src) || p.Start > p.Stop) {
			return fmt.Sprintf("%s: position %+v outside the source (len %d)", where, p, len(src))
		}
		return ""
	}
	peekLine := func(where string) string {
		b, seg := rd.PeekLine()
		want := m.view()
		if want == nil {
			if b != nil {
				return fmt.Sprintf("%s: PeekLine() = %q, model: end of input", where, b)
			}
			return ""
		}
		if b == nil || !bytes.Equal(b, want) {
			return fmt.Sprintf("%s: PeekLine() = %q, model %q", where, b, want)
		}
		if seg.Start != m.pos.Start || seg.Stop != m.pos.Stop || seg.Padding != m.pos.Padding {
			return fmt.Sprintf("%s: PeekLine() segment = %+v, model %+v", where, seg, m.pos)
		}
		return ""
	}
	peek := func(where string) string {
		if g, w := rd.Peek(), m.peek(); g != w {
			return fmt.Sprintf("%s: Peek() = %q, model %q", where, g, w)
		}
		return ""
	}
	lineOff := func(where string) string {
		if m.atEnd() {
			g := rd.LineOffset() // must not panic
			// a source reader that has consumed an unterminated last line still stands on that line: the column is the width
			// of the line (also after the position was saved there, the reader moved away and was restored)
			if !k.Block && m.line < len(lines) && m.pos.Start == len(src) && len(src) > 0 && src[len(src)-1] != '\n' {
				if w := m.lineOffset(); g != w {
					return fmt.Sprintf("%s: LineOffset() at the end of an unterminated last line = %d, model %d", where, g, w)
				}
			}
			return ""
		}
		if g, w := rd.LineOffset(), m.lineOffset(); g != w {
			return fmt.Sprintf("%s: LineOffset() = %d, model %d", where, g, w)
		}
		return ""
	}

	for i, o := range k.Ops {
		var desc string
		name := o.Name
		pv, stk := core.Try(func() {
			switch o.Name {
			case "PeekLine":
				desc = peekLine("PeekLine")
			case "Peek":
				desc = peek("Peek")
			case "Advance1", "Advance2", "AdvanceRest", "Advance":
				n := o.Arg
				switch o.Name {
				case "Advance1":
					n = 1
				case "Advance2":
					n = 2
				case "AdvanceRest":
					n = m.restOfLine()
				}
				if rem := m.remaining(); n > rem {
					n = rem
				}
				name = "Advance"
				before := m.line
				rd.Advance(n)
				m.advance(n)
				if m.line != before && st != nil {
					st.lineChange = true
				}
			case "AdvanceLine":
				rd.AdvanceLine()
				m.advanceLine()
				if st != nil {
					st.lineChange = true
				}
			case "AdvanceLines":
				for j := o.Arg2 % 300; j > 0 && !m.atEnd(); j-- {
					rd.AdvanceLine()
					m.advanceLine()
				}
				name = "AdvanceLine"
				if st != nil {
					st.lineChange = true
				}
			case "SaveK":
				l, p := rd.Position()
				slots[o.Arg%4] = &saved{l, p, m.line, m.pos}
				name = "Save"
				desc = checkPos("Position")
			case "RestoreK":
				s := slots[o.Arg%4]
				if s == nil {
					s = &init
				}
				rd.SetPosition(s.line, s.pos)
				m.line, m.pos = s.ml, s.mp
				name = "Restore"
				if st != nil {
					st.restored = true
				}
			case "ResetSegs":
				// BlockReader.Reset: the same reader object goes on with another list of line segments over the same source - the
				// list without its first k lines, without its last line, the physical lines, or every line cut at its first
				// non-blank byte. Everything observed afterwards is what a new BlockReader over that list shows; positions saved
				// before belong to the old list and are forgotten.
				br, ok := rd.(text.BlockReader)
				if !ok || len(lines) == 0 {
					name = ""
					return
				}
				var nl []text.Segment
				switch o.Arg % 5 {
				case 0:
					nl = append(nl, lines[1+o.Arg2%len(lines)-1:]...)
					if len(nl) > 1 {
						nl = nl[1:]
					}
				case 1:
					nl = append(nl, lines[:len(lines)-len(lines)/2]...)
				case 2:
					nl = physLines(src)
				case 3:
					nl = c18CanonicalSegs(src, 1)
				default:
					nl = append(nl, lines...)
				}
				if len(nl) == 0 {
					name = ""
					return
				}
				ss := text.NewSegments()
				for _, sg := range nl {
					ss.Append(sg)
				}
				br.Reset(ss)
				lines = nl
				m = newC18Cursor(src, lines, true)
				slot, slots = nil, [4]*saved{}
				l1, p1 := rd.Position()
				init = saved{l1, p1, m.line, m.pos}
				name = "Reset"
				desc = checkPos("Reset(segments)")
			case "ResetPosition":
				rd.ResetPosition()
				m.line, m.pos = init.ml, init.mp
				if st != nil {
					st.restored = true
				}
				desc = checkPos("ResetPosition")
			case "Save":
				l, p := rd.Position()
				slot = &saved{l, p, m.line, m.pos}
				desc = checkPos("Position")
			case "Restore":
				s := slot
				if s == nil {
					s = &init
				}
				rd.SetPosition(s.line, s.pos)
				m.line, m.pos = s.ml, s.mp
				if st != nil {
					st.restored = true
				}
			case "LineOffset":
				desc = lineOff("LineOffset")
			case "TabPad":
				// the way parsers set padding: step over a TAB and keep part of its width as virtual spaces
				if m.atEnd() || m.pos.Padding != 0 || src[m.pos.Start] != '\t' || m.pos.Start >= m.pos.Stop-1 {
					name = ""
					return
				}
				pad := 1 + o.Arg%3
				rd.AdvanceAndSetPadding(1, pad)
				m.advance(1)
				if pad > m.pos.Padding {
					m.pos.Padding = pad
				}
			case "Pad0":
				// AdvanceAndSetPadding(0, p): no byte is consumed, the line gets p virtual leading spaces (p larger than the
				// current padding, smaller than a tab stop)
				pad := 1 + o.Arg%3
				if m.atEnd() || pad <= m.pos.Padding || m.pos.Start >= m.pos.Stop {
					name = ""
					return
				}
				rd.AdvanceAndSetPadding(0, pad)
				m.pos.Padding = pad
				name = "AdvanceAndSetPadding"
				desc = checkPos("AdvanceAndSetPadding(0, p)")
			case "Value":
				if k.Block {
					// segments inside one line: a segment that starts at the head of the line carries the line's padding
					// (the form PeekLine returns), a segment that starts later has none; both must equal the segment's own value
					if len(lines) == 0 {
						name = ""
						return
					}
					li := (o.Arg + o.Arg2*17) % len(lines)
					if o.Arg%4 == 0 {
						li = len(lines) - 1 - (o.Arg/4)%2%len(lines)
						if li < 0 {
							li = 0
						}
					}
					ln := lines[li]
					if ln.Stop-ln.Start == 0 {
						name = ""
						return
					}
					a := ln.Start + o.Arg2%(ln.Stop-ln.Start)
					b := a + (o.Arg2/7)%(ln.Stop-a+1)
					seg := text.NewSegment(a, b)
					if a == ln.Start {
						seg.Padding = ln.Padding
					}
					if g, w := rd.Value(seg), segValue(seg, src); !bytes.Equal(g, w) {
						desc = fmt.Sprintf("Value(%+v) in line %+v = %q, want %q", seg, ln, g, w)
					}
					return
				}
				a := 0
				if len(src) > 0 {
					a = o.Arg % (len(src) + 1)
				}
				b := a + o.Arg2%(len(src)-a+1)
				seg := text.Segment{Start: a, Stop: b, Padding: (o.Arg2 / 3) % 4, ForceNewline: o.Arg2%2 == 1}
				g := rd.Value(seg)
				if w := segValue(seg, src); !bytes.Equal(g, w) {
					desc = fmt.Sprintf("Value(%+v) = %q, want %q", seg, g, w)
				}
			case "FindClosure", "FindClosureAdv":
				if m.pos.Padding != 0 {
					name = ""
					return
				}
				adv := o.Name == "FindClosureAdv"
				opts := text.FindClosureOptions{CodeSpan: o.Arg&1 != 0, Nesting: o.Arg&2 != 0, Newline: o.Arg&4 != 0, Advance: adv}
				opener, closer := byte('['), byte(']')
				if o.Arg&8 != 0 {
					opener, closer = '(', ')'
				}
				origStart := m.pos.Start
				segs, found := rd.FindClosure(opener, closer, opts)
				if !adv {
					desc = checkPos("FindClosure(no Advance) changed the position")
					return
				}
				if found {
					if segs == nil || segs.Len() == 0 {
						desc = "FindClosure reported success without segments"
						return
					}
					lastSeg := segs.At(segs.Len() - 1)
					p := lastSeg.Stop
					if p < 0 || p >= len(src) || src[p] != closer {
						desc = fmt.Sprintf("FindClosure reported a closer at %d which is not %q", p, closer)
						return
					}
					// the cursor must now be just after that closer
					dist := 0
					if k.Block {
						// walk the model to the byte after p
						mm := *m
						for !(mm.pos.Start == p && mm.pos.Padding == 0) && !mm.atEnd() {
							mm.advance(1)
							dist++
						}
						dist++
					} else {
						dist = p + 1 - origStart
					}
					before := m.line
					m.advance(dist)
					if m.line != before && st != nil {
						st.lineChange = true
					}
					desc = checkPos("FindClosure(Advance) end position")
				} else {
					// unspecified: adopt
					l, p := rd.Position()
					m.line, m.pos = l, p
					if !k.Block && (p.Start < 0 || p.Start > len(src) || p.Stop > len(src)) {
						desc = fmt.Sprintf("position %+v outside the source after FindClosure", p)
					}
				}
			}
		})
		if st != nil && name != "" {
			st.calls[name]++
			st.ncalls++
		}
		if pv != nil {
			return i, fmt.Sprintf("panic in %s: %v\n%s", o.Name, pv, trimStack(stk))
		}
		if desc != "" {
			return i, desc
		}
	}
	// final full observation
	var desc string
	pv, stk := core.Try(func() {
		for _, f := range []func(string) string{checkPos, peekLine, peek, lineOff, peekLine} {
			if d := f("final"); d != "" {
				desc = d
				return
			}
		}
		// one more step forward must still agree (catches stale caches used by Advance)
		if rem := m.remaining(); rem > 0 {
			rd.Advance(1)
			m.advance(1)
			for _, f := range []func(string) string{checkPos, peekLine, peek} {
				if d := f("final+Advance(1)"); d != "" {
					desc = d
					return
				}
			}
		}
	})
	if pv != nil {
		return len(k.Ops), fmt.Sprintf("panic in final observation: %v\n%s", pv, trimStack(stk))
	}
	if desc != "" {
		return len(k.Ops), desc
	}
	return -1, ""
}

func c18Locus(k c18Case, idx int, desc string) (string, string) {
	class := "cursor-mismatch"
	if strings.HasPrefix(desc, "panic") {
		class = "panic"
	}
	what := "other"
	for _, a := range []string{"PeekLine() segment", "PeekLine()", "Peek()", "LineOffset()", "Position() line", "Position()", "outside the source", "Value(", "FindClosure", "panic"} {
		if strings.Contains(desc, a) {
			what = a
			break
		}
	}
	kind := "Reader"
	if k.Block {
		kind = "BlockReader"
	}
	// the last state-changing op before the mismatch
	prev := "start"
	for i := min(idx, len(k.Ops)-1); i >= 0; i-- {
		n := k.Ops[i].Name
		if n == "Restore" || strings.HasPrefix(n, "Advance") || strings.HasPrefix(n, "FindClosure") || n == "TabPad" {
			prev = n
			if strings.HasPrefix(n, "Advance") && n != "AdvanceLine" {
				prev = "Advance"
			}
			break
		}
	}
	return class, kind + ":" + prev + ":" + what
}

func c18Report(c *core.Ctx, k c18Case, idx int, desc string) {
	class, locus := c18Locus(k, idx, desc)
	if !c.Seen(class, locus) {
		// minimise ops
		for changed := true; changed; {
			changed = false
			for i := 0; i < len(k.Ops); i++ {
				cand := k
				cand.Ops = append(append([]c18Op(nil), k.Ops[:i]...), k.Ops[i+1:]...)
				if j, d := c18Run(cand, nil); j >= 0 {
					if cl, lo := c18Locus(cand, j, d); cl == class && lo == locus {
						k, desc, changed = cand, d, true
						break
					}
				}
			}
		}
	}
	c.Violation(&core.Violation{Class: class, Locus: locus, Input: k.Src, Script: k, Detail: k.String() + "\n=> " + desc})
}

func c18CanonicalSegs(src []byte, mode int) []text.Segment {
	lines := physLines(src)
	if mode == 0 {
		return lines
	}
	// leading blanks skipped (as block parsers do); lines that become empty are dropped
	var out []text.Segment
	for _, l := range lines {
		s := l.Start
		for s < l.Stop-1 && (src[s] == ' ' || src[s] == '\t') {
			s++
		}
		if s < l.Stop {
			out = append(out, text.NewSegment(s, l.Stop))
		}
	}
	return out
}

func c18RandSegs(r *rand.Rand, src []byte) []text.Segment {
	var out []text.Segment
	lines := physLines(src)
	for i, l := range lines {
		if r.Intn(5) == 0 && len(lines) > 1 {
			continue // skipped line (e.g. consumed by a container)
		}
		s := l.Start + r.Intn(l.Stop-l.Start)
		seg := text.NewSegment(s, l.Stop)
		if s > l.Start && src[s-1] == '\t' && r.Intn(2) == 0 {
			seg.Padding = 1 + r.Intn(3)
		}
		_ = i
		out = append(out, seg)
	}
	// only the last segment may stop before its newline
	if n := len(out); n > 0 && r.Intn(4) == 0 {
		last := out[n-1]
		if last.Stop-last.Start > 1 {
			last.Stop -= 1 + r.Intn(last.Stop-last.Start-1)
			out[n-1] = last
		}
	}
	return out
}

func runC18(c *core.Ctx) {
	st := &c18Stats{calls: map[string]int{}}
	runCase := func(k c18Case) {
		st.lineChange, st.restored = false, false
		i, d := c18Run(k, st)
		if i >= 0 {
			c18Report(c, k, i, d)
		}
		if st.lineChange || st.restored {
			h := core.Hash64(k.Src, []byte(k.String()))
			c.Sig(h)
		}
	}
	// regression: the sequences that failed on the pinned tree (stale peeked line / head after SetPosition)
	if c.Shard == 0 {
		for _, k := range []c18Case{
			{Src: []byte("ab\ncd\n"), Ops: []c18Op{{Name: "Save"}, {Name: "PeekLine"}, {Name: "AdvanceLine"}, {Name: "PeekLine"}, {Name: "Restore"}, {Name: "PeekLine"}}},
			{Src: []byte("a\nbcd"), Ops: []c18Op{{Name: "Save"}, {Name: "AdvanceLine"}, {Name: "PeekLine"}, {Name: "Restore"}, {Name: "Advance2"}, {Name: "PeekLine"}}},
			{Src: []byte("\ta\n\tb"), Ops: []c18Op{{Name: "Save"}, {Name: "AdvanceLine"}, {Name: "Advance1"}, {Name: "LineOffset"}, {Name: "Restore"}, {Name: "Advance1"}, {Name: "LineOffset"}}},
			{Src: []byte("[a\nb]c"), Ops: []c18Op{{Name: "Advance1"}, {Name: "PeekLine"}, {Name: "FindClosure", Arg: 4}, {Name: "PeekLine"}, {Name: "LineOffset"}}},
		} {
			runCase(k)
		}
	}

	// 1. exhaustive
	srcLen, seqLen := c.N(4, 5), c.N(3, 4)
	ops := []c18Op{{Name: "PeekLine"}, {Name: "Peek"}, {Name: "Advance1"}, {Name: "Advance2"}, {Name: "AdvanceRest"}, {Name: "AdvanceLine"},
		{Name: "Save"}, {Name: "Restore"}, {Name: "LineOffset"}, {Name: "FindClosure", Arg: 4}, {Name: "FindClosureAdv", Arg: 4}, {Name: "TabPad", Arg: 1}, {Name: "ResetPosition"}}
	// block readers additionally: a Value call and a Reset to a shorter list (sequences for plain readers are unchanged)
	blockOps := append(append([]c18Op{}, ops...), c18Op{Name: "ResetSegs", Arg: 0, Arg2: 1}, c18Op{Name: "Value", Arg: 1, Arg2: 3})
	nsrc := wl.ShortCount(len(c18Alpha), srcLen)
	nseq := wl.ShortCount(len(ops), seqLen)
	seqs := make([][]c18Op, 0, nseq)
	var gen func(prefix []c18Op)
	gen = func(prefix []c18Op) {
		if len(prefix) == seqLen {
			seqs = append(seqs, append([]c18Op(nil), prefix...))
			return
		}
		for _, o := range ops {
			gen(append(prefix, o))
		}
	}
	gen(nil) // only full-length sequences: every shorter one is a prefix checked in lock-step
	plainSeqs := seqs
	seqs = nil
	ops = blockOps
	gen(nil)
	blockSeqs := seqs
	seqs = plainSeqs
	for i := 0; i < nsrc; i++ {
		if !c.Mine(i) {
			continue
		}
		src := []byte(wl.ShortAt(c18Alpha, srcLen, i))
		variants := []c18Case{{Src: src}}
		for mode := 0; mode < 2; mode++ {
			if segs := c18CanonicalSegs(src, mode); len(segs) > 0 {
				variants = append(variants, c18Case{Src: src, Block: true, Segs: segs})
			}
		}
		for _, v := range variants {
			ss := seqs
			if v.Block {
				ss = blockSeqs
			}
			for _, s := range ss {
				v.Ops = s
				runCase(v)
			}
			c.Count("exhaustive_cases", int64(len(ss)))
		}
		c.Count("exhaustive_sources", 1)
	}

	// 2. random
	r := c.Rng
	nr := c.PerShard(c.N(400000, 60000000))
	names := []string{"PeekLine", "Peek", "Advance", "Advance", "Advance1", "AdvanceRest", "AdvanceLine", "Save", "Restore", "Restore", "LineOffset", "FindClosure", "FindClosureAdv", "TabPad", "Value", "Value", "ResetPosition", "Pad0", "ResetSegs"}
	alpha := append(append([]string{}, c18Alpha...), "ab", "\n", "  ", "[x]", "(", ")", "``", "\\]", "\r\n", "\t\t")
	for i := 0; i < nr; i++ {
		var sb []byte
		for l := r.Intn(14); l > 0; l-- {
			sb = append(sb, alpha[r.Intn(len(alpha))]...)
		}
		k := c18Case{Src: sb}
		if r.Intn(2) == 0 {
			k.Block = true
			k.Segs = c18RandSegs(r, sb)
			if len(k.Segs) == 0 {
				k.Block = false
			}
		}
		for l := 1 + r.Intn(12); l > 0; l-- {
			k.Ops = append(k.Ops, c18Op{Name: names[r.Intn(len(names))], Arg: r.Intn(16), Arg2: r.Intn(1000)})
		}
		runCase(k)
		c.Count("random_cases", 1)
		if c.WantSample() && i%50000 == 11 {
			c.Sample(map[string]any{"kind": "random-sequence", "case": k.String()})
		}
	}
	// 3. long sources: the number of lines at every boundary size (a reader that caches per-line data in a bounded table, or
	// bounds a look-ahead, changes behaviour beyond some line count), several saved positions, jumps far back and forth
	longNames := []string{"PeekLine", "Peek", "Advance", "AdvanceRest", "AdvanceLine", "AdvanceLines", "AdvanceLines", "SaveK", "SaveK", "RestoreK", "RestoreK", "RestoreK",
		"LineOffset", "LineOffset", "FindClosure", "FindClosure", "FindClosureAdv", "TabPad", "ResetPosition", "Value", "Value", "Pad0", "ResetSegs"}
	lk := 0
	for _, nl := range wl.BoundarySizes {
		if nl < 2 || nl > 1100 {
			continue
		}
		for rep := 0; rep < c.N(24, 400); rep++ {
			lk++
			if !c.Mine(lk) {
				continue
			}
			lineAlpha := []string{"a", "b ", "\t", "  ", "é", "(", "`", "\\"}
			if rep%2 == 1 {
				lineAlpha = append(lineAlpha, "[", "]", "[x]", ")")
			}
			var sb []byte
			for l := 0; l < nl; l++ {
				for w := r.Intn(5); w > 0; w-- {
					sb = append(sb, lineAlpha[r.Intn(len(lineAlpha))]...)
				}
				if rep%3 == 2 && l%7 == 3 {
					sb = append(sb, '\r')
				}
				sb = append(sb, '\n')
			}
			if rep%4 == 0 {
				sb = append([]byte("[ "), sb...)
			}
			k := c18Case{Src: sb}
			if rep%3 == 1 {
				k.Block, k.Segs = true, c18CanonicalSegs(sb, rep%2)
				if len(k.Segs) == 0 {
					k.Block = false
				}
			}
			for l := 8 + r.Intn(40); l > 0; l-- {
				if r.Intn(6) == 0 {
					// an excursion: remember the place, jump to another remembered place, move on some lines, come back, look
					a, b := r.Intn(4), r.Intn(4)
					k.Ops = append(k.Ops, c18Op{Name: "SaveK", Arg: a}, c18Op{Name: "RestoreK", Arg: b}, c18Op{Name: "AdvanceLines", Arg2: r.Intn(300)},
						c18Op{Name: "RestoreK", Arg: a}, c18Op{Name: "LineOffset"}, c18Op{Name: "PeekLine"})
					continue
				}
				k.Ops = append(k.Ops, c18Op{Name: longNames[r.Intn(len(longNames))], Arg: r.Intn(16), Arg2: r.Intn(1000)})
			}
			runCase(k)
			c.Count("long_source_cases", 1)
		}
	}
	for n, v := range st.calls {
		for j := 0; j < 1; j++ {
			c.Observe("calls", n)
		}
		c.Count("calls_"+n, int64(v))
	}
	c.Evals(st.ncalls)

	c18Segments(c)
}

// c18Segments compares Segment arithmetic with direct byte-level definitions.
func c18Segments(c *core.Ctx) {
	r := c.Rng
	n := c.PerShard(c.N(200000, 20000000))
	isSp := func(b byte) bool { return b == ' ' || b == '\t' || b == '\n' || b == '\v' || b == '\f' || b == '\r' }
	for i := 0; i < n; i++ {
		var src []byte
		for l := r.Intn(12); l > 0; l-- {
			src = append(src, c18Alpha[r.Intn(len(c18Alpha))]...)
		}
		a := r.Intn(len(src) + 1)
		b := a + r.Intn(len(src)-a+1)
		seg := text.Segment{Start: a, Stop: b, Padding: r.Intn(4), ForceNewline: r.Intn(3) == 0}
		if i%5 == 0 {
			// Padding is a public field without a documented bound: the value laws hold for any padding
			seg.Padding = r.Intn(41)
			c.Count("segments_with_large_padding", 1)
		}
		fail := func(what, detail string) {
			c.Violation(&core.Violation{Class: "segment-arithmetic", Locus: what, Input: src, Detail: fmt.Sprintf("segment %+v of %q: %s", seg, src, detail)})
		}
		pv, stk := core.Try(func() {
			if g, w := seg.Value(src), segValue(seg, src); !bytes.Equal(g, w) {
				fail("Value", fmt.Sprintf("Value = %q want %q", g, w))
			}
			if g, w := seg.Len(), b-a+seg.Padding; g != w {
				fail("Len", fmt.Sprintf("Len = %d want %d", g, w))
			}
			if g, w := seg.ConcatPadding([]byte("xy")), append([]byte("xy"), bytes.Repeat([]byte(" "), seg.Padding)...); !bytes.Equal(g, w) {
				fail("ConcatPadding", fmt.Sprintf("ConcatPadding = %q want %q", g, w))
			}
			// a block reader over this one segment shows the padding followed by the bytes
			if b > a && bytes.IndexByte(src[a:b-1], '\n') < 0 {
				one := text.NewSegments()
				one.Append(text.Segment{Start: a, Stop: b, Padding: seg.Padding})
				br := text.NewBlockReader(src, one)
				line, ps := br.PeekLine()
				w := append(bytes.Repeat([]byte(" "), seg.Padding), src[a:b]...)
				if !bytes.Equal(line, w) || ps.Padding != seg.Padding {
					fail("BlockReader.PeekLine", fmt.Sprintf("PeekLine = %q (segment %+v) want %q", line, ps, w))
				}
			}
			// TrimRightSpace
			e := b
			for e > a && isSp(src[e-1]) {
				e--
			}
			tr := seg.TrimRightSpace(src)
			if e == a {
				if tr.Start != a || tr.Stop != a {
					fail("TrimRightSpace", fmt.Sprintf("all-space segment trimmed to %+v", tr))
				}
			} else if tr.Start != a || tr.Stop != e || tr.Padding != seg.Padding {
				fail("TrimRightSpace", fmt.Sprintf("= %+v want [%d,%d) padding %d", tr, a, e, seg.Padding))
			}
			s := a
			for s < b && isSp(src[s]) {
				s++
			}
			tl := seg.TrimLeftSpace(src)
			if tl.Start != s || tl.Stop != b || tl.Padding != 0 {
				fail("TrimLeftSpace", fmt.Sprintf("= %+v want [%d,%d)", tl, s, b))
			}
			w := r.Intn(6)
			tw := seg.TrimLeftSpaceWidth(w, src)
			if tw.Stop != b || tw.Start < a || tw.Start > b || tw.Padding < 0 {
				fail("TrimLeftSpaceWidth", fmt.Sprintf("(%d) = %+v out of bounds", w, tw))
			} else {
				for j := a; j < tw.Start; j++ {
					if src[j] != ' ' && src[j] != '\t' {
						fail("TrimLeftSpaceWidth", fmt.Sprintf("(%d) = %+v removed a non-blank byte", w, tw))
						break
					}
				}
			}
			ws := seg.WithStart(s)
			if ws.Start != s || ws.Stop != b || ws.Padding != seg.Padding {
				fail("WithStart", fmt.Sprintf("= %+v", ws))
			}
			wst := seg.WithStop(e)
			if wst.Start != a || wst.Stop != e || wst.Padding != seg.Padding {
				fail("WithStop", fmt.Sprintf("= %+v", wst))
			}
			other := text.Segment{Start: a + r.Intn(b-a+1), Stop: b, Padding: r.Intn(seg.Padding + 1)}
			bt := seg.Between(other)
			if bt.Start != a || bt.Stop != other.Start || bt.Padding != seg.Padding-other.Padding {
				fail("Between", fmt.Sprintf("Between(%+v) = %+v", other, bt))
			}
		})
		if pv != nil {
			fail("panic", fmt.Sprintf("%v\n%s", pv, trimStack(stk)))
		}
		c.Evals(8)
		c.Count("segment_cases", 1)
	}
}

func replayC18(c *core.Ctx, v *core.Violation) (bool, string) {
	if v.Class == "segment-arithmetic" {
		return false, "re-run the check with the recorded seed"
	}
	b, _ := jsonMarshal(v.Script)
	var k c18Case
	if err := jsonUnmarshal(b, &k); err != nil {
		return false, err.Error()
	}
	i, d := c18Run(k, nil)
	return i >= 0, d
}
