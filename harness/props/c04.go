package props

import (
	"fmt"
	"math/rand"
	"strings"

	"verif/cfg"
	"verif/core"
	"verif/oracle"
)

// C04 — safe mode never emits a script-capable or local-file URL.

func init() {
	register(&Prop{
		ID:    "C04",
		Level: "exploration",
		Rule: "cases = (safe-mode configuration, source) where sources place a dangerous scheme (javascript/vbscript/file/data, any letter case) spelled with " +
			"backslash escapes, named/decimal/hex character references, percent escapes and embedded whitespace/control characters into every URL-bearing construct " +
			"(inline link/image, <..> destination, full/collapsed/shortcut reference, autolink, extended autolink, inside tables/footnotes/headings/lists). " +
			"Every href/src of the output is decoded by html.UnescapeString and normalised like a browser's URL parser (strip leading C0/space, delete TAB/LF/CR, lowercase) before the scheme test. " +
			"Non-trivial = the output contains at least one href/src; distinct = distinct (construct, spelling devices used, scheme, configuration extension set) tuples plus AST shapes of soup cases.",
		Assumptions: []string{
			"the strict tokenizer extracts attribute values; outputs it rejects are C03's business and are counted, not judged, here",
			"browser behaviour modelled: character references decoded first; leading U+0000-U+0020 stripped; U+0009/000A/000D removed anywhere; scheme compared case-insensitively; percent escapes are NOT decoded before scheme detection",
		},
		Run:    runC04,
		Replay: replayC04,
		Floors: func(m *Merged) []string {
			var out []string
			for _, k := range []string{"inline-link", "inline-image", "angle-dest", "full-ref", "collapsed-ref", "shortcut-ref", "autolink", "linkify", "image-ref"} {
				if m.Sets["constructs_with_url_in_output"][k] == 0 {
					out = append(out, "construct never produced a URL in the output: "+k)
				}
			}
			if m.Counters["urls_blanked"] == 0 {
				out = append(out, "goldmark never blanked a URL (the workload did not reach the predicate)")
			}
			return out
		},
	})
}

// NormalizeURL mimics how a browser finds the scheme of an attribute value that is already reference-decoded.
func normalizeURL(v string) string {
	i := 0
	for i < len(v) && v[i] <= 0x20 {
		i++
	}
	v = v[i:]
	var b strings.Builder
	for j := 0; j < len(v); j++ {
		c := v[j]
		if c == '\t' || c == '\n' || c == '\r' {
			continue
		}
		if c >= 'A' && c <= 'Z' {
			c += 32
		}
		b.WriteByte(c)
	}
	return b.String()
}

func dangerousScheme(norm string) string {
	switch {
	case strings.HasPrefix(norm, "javascript:"):
		return "javascript"
	case strings.HasPrefix(norm, "vbscript:"):
		return "vbscript"
	case strings.HasPrefix(norm, "file:"):
		return "file"
	case strings.HasPrefix(norm, "data:"):
		rest := norm[5:]
		for _, ok := range []string{"image/png;", "image/gif;", "image/jpeg;", "image/webp;", "image/svg+xml;"} {
			if strings.HasPrefix(rest, ok) {
				return ""
			}
		}
		return "data"
	}
	return ""
}

type c04URL struct {
	Elem, Attr, Value, Norm, Scheme string
}

func c04Extract(out []byte) (urls []c04URL, tokErr bool) {
	toks, terr := oracle.Tokenize(out)
	if terr != nil {
		tokErr = true
	}
	for i := range toks {
		t := &toks[i]
		if t.Kind != oracle.TokStart {
			continue
		}
		for _, a := range t.Attrs {
			if a.Name == "href" || a.Name == "src" {
				n := normalizeURL(a.Value)
				urls = append(urls, c04URL{t.Name, a.Name, a.Value, n, dangerousScheme(n)})
			}
		}
	}
	return
}

// ---- URL spelling generator ----

type c04Spelling struct {
	Text    string
	Devices []string
	Scheme  string
}

var c04Schemes = []string{"javascript:", "vbscript:", "file:", "data:"}
var c04Rests = map[string][]string{
	"javascript:": {"alert(1)", "alert(1)//", "void(0)", ""},
	"vbscript:":   {"msgbox(1)", "x"},
	"file:":       {"///etc/passwd", "///c:/boot.ini", "x"},
	"data:":       {"text/html,<script>alert(1)</script>", "text/html;base64,PHNjcmlwdD4=", ",x", "image/svg+xml,<svg/onload=alert(1)>", "image/png;base64,iVBOR", "IMAGE/PNG;x", "image/x-icon;base64,AA", "application/javascript,x", "image/svg+xml;base64,PHN2Zz4=", "\u0130mage/png;base64,iVBOR", "image/g\u0130f;base64,R0lG", "IMAGE/\u0130PEG;x", "\u0131mage/png;x", "image/png\uff1bbase64,x", "image/webp", "image/png"},
}

func c04Spell(r *rand.Rand) c04Spelling {
	scheme := c04Schemes[r.Intn(len(c04Schemes))]
	dev := map[string]bool{}
	var b strings.Builder
	// optional prefix
	switch r.Intn(12) {
	case 0:
		b.WriteString(" ")
		dev["lead-space"] = true
	case 1:
		b.WriteString("&#32;")
		dev["lead-ref-space"] = true
	case 2:
		b.WriteString("\x01")
		dev["lead-ctl"] = true
	case 3:
		b.WriteString("&#1;")
		dev["lead-ref-ctl"] = true
	case 4:
		b.WriteString("&#x1f;&#9;")
		dev["lead-ref-ctl"] = true
	case 5:
		b.WriteString("&Tab;")
		dev["lead-named-tab"] = true
	case 6:
		b.WriteString("%20")
		dev["lead-percent"] = true
	}
	for i := 0; i < len(scheme); i++ {
		ch := scheme[i]
		// interruption before the character
		if i > 0 {
			switch r.Intn(28) {
			case 0:
				b.WriteString("\t")
				dev["raw-tab"] = true
			case 1:
				b.WriteString("&Tab;")
				dev["named-tab"] = true
			case 2:
				b.WriteString("&NewLine;")
				dev["named-newline"] = true
			case 3:
				b.WriteString("&#9;")
				dev["ref-tab"] = true
			case 4:
				b.WriteString("&#x0A;")
				dev["ref-newline"] = true
			case 5:
				b.WriteString("&#13;")
				dev["ref-cr"] = true
			case 6:
				b.WriteString("\x00")
				dev["raw-nul"] = true
			case 7:
				b.WriteString("%09")
				dev["percent-tab"] = true
			case 8:
				b.WriteString("\n")
				dev["raw-newline"] = true
			case 9:
				b.WriteString("\\\n")
				dev["backslash-newline"] = true
			}
		}
		if ch == ':' {
			switch r.Intn(8) {
			case 0:
				b.WriteString("&colon;")
				dev["named-colon"] = true
				continue
			case 1:
				b.WriteString("\\:")
				dev["backslash-colon"] = true
				continue
			case 2:
				b.WriteString("&#58;")
				dev["dec-ref"] = true
				continue
			case 3:
				b.WriteString("&#x3A;")
				dev["hex-ref"] = true
				continue
			case 4:
				b.WriteString("%3A")
				dev["percent"] = true
				continue
			}
			b.WriteByte(':')
			continue
		}
		c := ch
		if r.Intn(3) == 0 {
			c = ch - 32 // upper case
			dev["upper"] = true
		}
		switch r.Intn(14) {
		case 0:
			fmt.Fprintf(&b, "&#%d;", c)
			dev["dec-ref"] = true
		case 1:
			fmt.Fprintf(&b, "&#%s%d;", strings.Repeat("0", 1+r.Intn(4)), c)
			dev["dec-ref-leading-zero"] = true
		case 2:
			fmt.Fprintf(&b, "&#x%x;", c)
			dev["hex-ref"] = true
		case 3:
			fmt.Fprintf(&b, "&#X%04X;", c)
			dev["hex-ref"] = true
		case 4:
			fmt.Fprintf(&b, "%%%02X", c)
			dev["percent"] = true
		case 5:
			fmt.Fprintf(&b, "&amp;#%d;", c)
			dev["double-encoded-ref"] = true
		case 6:
			fmt.Fprintf(&b, "\\%c", c)
			dev["backslash-letter"] = true
		default:
			b.WriteByte(c)
		}
	}
	rests := c04Rests[scheme]
	rest := rests[r.Intn(len(rests))]
	if r.Intn(6) == 0 {
		// letters of the rest written as characters that Unicode case mapping turns into ASCII letters (U+0130 -> i, U+212A -> k,
		// U+017F -> s under upper-casing/folding): a browser compares bytes, so "data:\u0130mage/png;" is not an image type
		var rb strings.Builder
		done := false
		for _, ch := range rest {
			switch {
			case (ch == 'i' || ch == 'I') && r.Intn(2) == 0:
				rb.WriteString("\u0130")
				done = true
			case (ch == 'k' || ch == 'K') && r.Intn(2) == 0:
				rb.WriteString("\u212a")
				done = true
			case (ch == 's' || ch == 'S') && r.Intn(3) == 0:
				rb.WriteString("\u017f")
				done = true
			default:
				rb.WriteRune(ch)
			}
		}
		if done {
			rest = rb.String()
			dev["unicode-case-lookalike"] = true
		}
	}
	b.WriteString(rest)
	var ds []string
	for d := range dev {
		ds = append(ds, d)
	}
	sortStrings(ds)
	return c04Spelling{Text: b.String(), Devices: ds, Scheme: scheme}
}

type c04Construct struct {
	Name string
	Tmpl string // %U = the URL spelling
}

var c04Constructs = []c04Construct{
	{"inline-link", "[a](%U)"},
	{"inline-link", "[a](%U \"t\")"},
	{"inline-image", "![a](%U)"},
	{"angle-dest", "[a](<%U>)"},
	{"angle-dest", "![a](<%U> 't')"},
	{"full-ref", "[a][r]\n\n[r]: %U\n"},
	{"full-ref", "[a][r]\n\n[r]: <%U> \"t\"\n"},
	{"collapsed-ref", "[r][]\n\n[r]: %U\n"},
	{"shortcut-ref", "[r]\n\n[r]: %U\n"},
	{"image-ref", "![a][r]\n\n[r]: <%U>\n"},
	{"image-ref", "![r]\n\n[r]: %U\n"},
	{"autolink", "<%U>"},
	{"autolink", "a <%U> b"},
	{"linkify", "see %U now"},
	{"linkify", "%U"},
	{"linkify", "see www.a.b/%U now"},
	{"linkify", "http://a.b/?q=%U"},
	{"linkify", "x@y.z %U ftp://f.g/%U"},
	{"inline-link", "| [a](%U) |\n|---|\n| ![b](%U) |\n"},
	{"inline-link", "# [a](%U)\n"},
	{"inline-link", "- [a](%U)\n  > ![b](<%U>)\n"},
	{"inline-link", "x[^1]\n\n[^1]: [a](%U) <%U>\n"},
	{"inline-link", "t\n: [a](%U)\n"},
	{"inline-link", "[![i](%U)](%U)"},
	{"inline-link", "*[a](%U)* ~~[b](<%U>)~~"},
	{"full-ref", "[a][R R]\n\n[r  r]: %U 'x'\n"},
}

func c04Check(c *core.Ctx, pool *cfg.Pool, spec cfg.Spec, src []byte, construct string, sp *c04Spelling) {
	name := spec.Name()
	md := pool.Get(spec)
	c.Begin(name, src)
	// the same document first goes through the unsafe twin of the configuration in this process: whatever an unsafe
	// renderer leaves behind (a shared cache, a pooled buffer) must not reach the safe renderer's output
	tw := spec
	tw.Unsafe = true
	_ = parseRender(pool.Get(tw), src)
	c.Count("unsafe_twin_renders_before_the_safe_one", 1)
	res := parseRender(md, src)
	c.End()
	c.Eval()
	c.Observe("configs", name)
	if !res.OK() {
		c.Count("conversion_failed_left_to_C01", 1)
		return
	}
	urls, tokErr := c04Extract(res.Out)
	if tokErr {
		c.Count("outputs_rejected_by_tokenizer_left_to_C03", 1)
	}
	c.Count("urls_extracted", int64(len(urls)))
	for _, u := range urls {
		if u.Value == "" {
			c.Count("urls_blanked", 1)
		}
	}
	if len(urls) > 0 {
		if construct != "" {
			c.Observe("constructs_with_url_in_output", construct)
			c.Sig(core.HashStr(construct, strings.Join(sp.Devices, "+"), sp.Scheme, extName(spec)))
			for _, d := range sp.Devices {
				c.Observe("spelling_devices", d)
			}
			c.Observe("schemes", sp.Scheme)
		} else if res.Doc != nil {
			observeShape(c, res.Doc, extName(spec))
		}
	}
	for _, u := range urls {
		if u.Scheme == "" {
			continue
		}
		class, locus := "dangerous-url-emitted", u.Elem+"@"+u.Attr+":"+u.Scheme
		if construct != "" {
			locus += ":" + construct
		}
		detail := fmt.Sprintf("<%s %s=%q> normalises to %q\noutput: %s", u.Elem, u.Attr, u.Value, u.Norm, q(res.Out))
		if c.Seen(class, locus) {
			c.Violation(&core.Violation{Class: class, Locus: locus, Config: name, Input: src})
			continue
		}
		min := core.Minimize(src, func(b []byte) bool {
			for _, x := range c04Bad(spec, b) {
				if x.Elem == u.Elem && x.Attr == u.Attr && x.Scheme == u.Scheme {
					return true
				}
			}
			return false
		}, 1500)
		c.Violation(&core.Violation{Class: class, Locus: locus, Config: name, Input: min, Detail: detail})
	}
}

func c04Bad(spec cfg.Spec, src []byte) []c04URL {
	tw := spec
	tw.Unsafe = true
	_ = parseRender(tw.Build(), src)
	res := parseRender(spec.Build(), src)
	if !res.OK() {
		return nil
	}
	urls, _ := c04Extract(res.Out)
	var bad []c04URL
	for _, u := range urls {
		if u.Scheme != "" {
			bad = append(bad, u)
		}
	}
	return bad
}

func replayC04(c *core.Ctx, v *core.Violation) (bool, string) {
	if steps := arenaFromScript(v.Script); steps != nil {
		outs := arenaRun(specOf(v.Config).Build(), &srcArena{}, steps)
		for i, o := range outs {
			urls, _ := c04Extract(o)
			for _, u := range urls {
				if u.Scheme != "" {
					return true, fmt.Sprintf("step %d of the recycled-buffer history: <%s %s=%q> normalises to %q", i+1, u.Elem, u.Attr, u.Value, u.Norm)
				}
			}
		}
		return false, "no dangerous URL in any output of the history"
	}
	bad := c04Bad(specOf(v.Config), v.Input)
	if len(bad) > 0 {
		return true, fmt.Sprintf("<%s %s=%q> normalises to %q", bad[0].Elem, bad[0].Attr, bad[0].Value, bad[0].Norm)
	}
	return false, "no dangerous URL in the output"
}

var c04Seeds = []string{
	"<javascript:alert(1)>", "[a](javascript&colon;alert(1))", "[a](&#106;avascript:alert(1))", "[a](javascript\\:alert(1))",
	"[a][r]\n\n[r]: <JAVASCRIPT&#58;x>\n", "![a](javascript&colon;alert(1))", "![x](&#x6A;avascript:alert(1))", "![r]\n\n[r]: <file&#58;///c:/boot.ini>\n",
	"[x](javascript&amp;colon;alert(1))", "[x](javascript&#x26;#58;alert(1))", "[x](&amp;#106;avascript:alert(1))", "<vbscript:x>", "<file:///etc/passwd>", "<data:text/html,x>",
	"[a](&#0106;avascript:x)", "[a](<java&Tab;script:x>)", "[a](<&#1;javascript:x>)", "[a](data&colon;text/html,x)", "[a](DATA:text/html,x)", "![a](data:image/svg+xml,<svg/onload=alert(1)>)",
}

func runC04(c *core.Ctx) {
	pool := cfg.NewPool()
	safe := append(cfg.Safe(), richSafe()...)
	corpus := loadCorpus(c)
	r := c.Rng
	if c.Shard == 0 {
		for _, s := range c04Seeds {
			for _, sp := range []cfg.Spec{{Ext: cfg.ExtCore}, {Ext: cfg.ExtAll, XHTML: true, Attribute: true}, {Ext: cfg.ExtGFM, HardWraps: true}} {
				c04Check(c, pool, sp, []byte(s), "", nil)
			}
		}
	}
	n := c.PerShard(c.N(300000, 25000000))
	for i := 0; i < n; i++ {
		sp := c04Spell(r)
		con := c04Constructs[r.Intn(len(c04Constructs))]
		src := strings.ReplaceAll(con.Tmpl, "%U", sp.Text)
		if strings.Count(con.Tmpl, "%U") > 1 && r.Intn(2) == 0 {
			// a second, different spelling in the second slot
			sp2 := c04Spell(r)
			src = strings.Replace(con.Tmpl, "%U", sp.Text, 1)
			src = strings.ReplaceAll(src, "%U", sp2.Text)
		}
		var spec cfg.Spec
		switch r.Intn(3) {
		case 0:
			spec = cfg.Spec{Ext: cfg.ExtAll, AutoHeadingID: r.Intn(2) == 0, Attribute: r.Intn(2) == 0, XHTML: r.Intn(2) == 0, HardWraps: r.Intn(2) == 0}
		default:
			spec = safe[r.Intn(len(safe))]
		}
		c04Check(c, pool, spec, []byte(src), con.Name, &sp)
		if c.WantSample() && i%9000 == 4 {
			c.Sample(map[string]any{"construct": con.Name, "input": q([]byte(src)), "devices": sp.Devices, "config": spec.Name()})
		}
	}
	c04Arena(c, pool, safe)
	// soup / mutants with scheme tokens
	n2 := c.PerShard(c.N(100000, 6000000))
	for i := 0; i < n2; i++ {
		src := mixDoc(r, corpus)
		if i%2 == 0 {
			p := r.Intn(len(src) + 1)
			sp := c04Spell(r)
			con := c04Constructs[r.Intn(len(c04Constructs))]
			ins := strings.ReplaceAll(con.Tmpl, "%U", sp.Text)
			src = append(src[:p:p], append([]byte(ins), src[p:]...)...)
		}
		c04Check(c, pool, safe[r.Intn(len(safe))], src, "", nil)
	}
}

// c04Arena: a caller that recycles its read buffer. A document with a harmless URL is converted from the buffer, the buffer
// is overwritten with the same document carrying a dangerous URL of the same length at the same offsets (blanked, as it
// must be), and then the first document is converted again - from a slice of its own and from the buffer. Whatever the
// renderer remembered about the first destination now reads the dangerous bytes. Every output is judged by the same oracle.
var c04Harmless = []string{"http://a.b/index.html", "https://example.com/a/b/c", "/rel/path/to/some/file.x", "mailto:someone@example.org", "ftp://f.g/pub/readme.txt", "http://www.example.com/", "irc://chat.example/room-1"}

func c04Arena(c *core.Ctx, pool *cfg.Pool, safe []cfg.Spec) {
	r := c.Rng
	a := &srcArena{}
	n := c.PerShard(c.N(12000, 600000))
	for i := 0; i < n; i++ {
		con := c04Constructs[r.Intn(len(c04Constructs))]
		if con.Name == "linkify" && r.Intn(2) == 0 {
			continue
		}
		h := c04Harmless[r.Intn(len(c04Harmless))]
		scheme := c04Schemes[r.Intn(len(c04Schemes))]
		rests := c04Rests[scheme]
		d := scheme + rests[r.Intn(len(rests))]
		if strings.ContainsAny(d, " <>") {
			d = scheme + "alert(1)"
		}
		if r.Intn(3) == 0 {
			d = strings.ToUpper(scheme[:1]) + scheme[1:] + "x"
		}
		d = padTo(d, len(h), '/')
		if len(d) < len(scheme) {
			continue
		}
		docA := []byte(strings.ReplaceAll(con.Tmpl, "%U", h))
		docB := []byte(strings.ReplaceAll(con.Tmpl, "%U", d))
		spec := safe[r.Intn(len(safe))]
		name := spec.Name()
		md := pool.Get(spec)
		steps := []arenaStep{{Doc: docA}, {Doc: docB}, {Doc: docA, Fresh: true}, {Doc: docA}}
		if r.Intn(2) == 0 {
			// the dangerous twin first: what was blanked must not stick to the harmless one either (that is C10's business) and
			// what is remembered of the harmless one must not come back for the dangerous one
			steps = []arenaStep{{Doc: docB}, {Doc: docA}, {Doc: docB, Fresh: true}, {Doc: docB}}
		}
		c.Begin(name, docA)
		outs := arenaRun(md, a, steps)
		c.End()
		c.Evals(len(steps))
		c.Count("recycled_buffer_histories", 1)
		c.Observe("configs", name)
		for si, o := range outs {
			if o == nil {
				c.Count("conversion_failed_left_to_C01", 1)
				continue
			}
			urls, _ := c04Extract(o)
			c.Count("urls_extracted", int64(len(urls)))
			for _, u := range urls {
				if u.Value == "" {
					c.Count("urls_blanked", 1)
				}
				if u.Scheme == "" {
					continue
				}
				c.Violation(&core.Violation{Class: "dangerous-url-emitted", Locus: u.Elem + "@" + u.Attr + ":" + u.Scheme + ":" + con.Name + ":recycled-source-buffer", Config: name,
					Input: steps[si].Doc, Script: arenaScript(steps),
					Detail: fmt.Sprintf("one instance, the caller reuses its source buffer between conversions:\n%sstep %d gives <%s %s=%q>, which normalises to %q\noutput: %s", arenaDescribe(steps), si+1, u.Elem, u.Attr, u.Value, u.Norm, q(o))})
			}
		}
	}
}
