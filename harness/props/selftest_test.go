package props

import "testing"

func TestC02Normalize(t *testing.T) {
	a := c02Normalize([]byte("<ul>\n<li>\n<p>a</p>\n</li>\n</ul>\n<pre><code>x\n\n y\n</code></pre>\n<p>b<br />\nc</p>\n"))
	b := c02Normalize([]byte("<ul><li><p>a</p></li></ul><pre><code>x\n\n y\n</code></pre><p>b<br>\nc</p>"))
	if a != b {
		t.Fatalf("normaliser does not equate inter-block whitespace:\n%q\n%q", a, b)
	}
	c := c02Normalize([]byte("<p>b\nc</p>"))
	d := c02Normalize([]byte("<p>b c</p>"))
	if c == d {
		t.Fatal("normaliser must keep inline whitespace (a soft break is not a space)")
	}
	e := c02Normalize([]byte("<pre><code>x \n</code></pre>"))
	f := c02Normalize([]byte("<pre><code>x\n</code></pre>"))
	if e == f {
		t.Fatal("normaliser must keep whitespace inside <pre>")
	}
}

func TestLockstepWalkers(t *testing.T) {
	if d, n := lockstepXHTML([]byte(`<p>a<br>b <img src="x" alt="y"></p><hr>`), []byte(`<p>a<br />b <img src="x" alt="y" /></p><hr />`), nil); d != "" || n != 3 {
		t.Fatalf("xhtml lock-step: %q %d", d, n)
	}
	if d, _ := lockstepXHTML([]byte(`<p>a</p>`), []byte(`<p>a />`), nil); d == "" {
		t.Fatal("xhtml lock-step accepted ' />' on a non-void element")
	}
	if d, n := lockstepHardWraps([]byte("<p>a\nb\nc</p>\n"), []byte("<p>a<br>\nb<br>\nc</p>\n")); d != "" || n != 2 {
		t.Fatalf("hardwraps lock-step: %q %d", d, n)
	}
	if d, _ := lockstepHardWraps([]byte("<p>a\nb</p>"), []byte("<p>a<hr>\nb</p>")); d == "" {
		t.Fatal("hardwraps lock-step accepted a foreign difference")
	}
	if string(voidfix([]byte(`<img src="a>b" alt="c"><br>`), nil)) != `<img src="a>b" alt="c" /><br />` {
		t.Fatal("voidfix is not quote-aware")
	}
}

func TestURLNormaliser(t *testing.T) {
	for in, want := range map[string]string{"  JaVa\tScRiPt:x": "javascript", "\x01vbscript:x": "vbscript", "data:image/png;base64,x": "", "data:text/html,x": "data", "java%09script:x": "", "file:///etc": "file", "http://x": ""} {
		if got := dangerousScheme(normalizeURL(in)); got != want {
			t.Errorf("%q: %q, want %q", in, got, want)
		}
	}
}
