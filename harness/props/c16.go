package props

import (
	"bytes"
	"fmt"
	"math/rand"
	"regexp"
	"strconv"
	"strings"

	"github.com/yuin/goldmark"
	"github.com/yuin/goldmark/ast"
	east "github.com/yuin/goldmark/extension/ast"
	"github.com/yuin/goldmark/parser"
	"github.com/yuin/goldmark/text"

	"verif/cfg"
	"verif/core"
	"verif/oracle"
	"verif/wl"
)

// C16 — footnote numbering and cross-links are consistent.

func init() {
	register(&Prop{
		ID:    "C16",
		Level: "exploration",
		Rule: "cases = (configuration with the Footnote extension, safe mode, document). The output is tokenized by the strict tokenizer and the footnote structure is checked: items <li id=P fn:N> numbered 1..m in order; every <sup id=P fnrefK:N> contains exactly <a href=#P fn:N>N</a> with fn:N an existing item; " +
			"every back-link <a role=doc-backlink href=#P fnrefK:N> sits inside item N and points to an existing <sup>, and references and back-links correspond one to one; all id attributes of the document are distinct; " +
			"by construction: each definition body carries a unique marker word and markers of definitions that are referenced nowhere must be absent from the output, and for documents whose references all sit in plain running text the number of items, their order (first reference) and every reference number are known to the generator and compared. " +
			"Documents: <=6 labels, definitions and references in any order and multiplicity, references inside emphasis, link text, image descriptions, table cells, headings, other footnote bodies and unreferenced footnote bodies, definitions inside quotes and lists; plus footnote token soup and corpus mutants. " +
			"Configurations: {footnote, gfm+footnote, all} x {HTML5, XHTML} x {no id prefix, prefix}. Non-trivial = the output has at least one footnote item; distinct = distinct (sequence of (kind, number) of all references/items/back-links, configuration).",
		Assumptions: []string{
			"safe mode, Attribute off: every id, <sup> and <li id> in the output is written by the renderer",
			"outputs the strict tokenizer rejects are counted and left to C03; panics/errors are left to C01",
			"the by-construction expectations are only used for documents the generator marks as plain (references in running text of top-level paragraphs, definitions at top level after a blank line, labels without special characters)",
		},
		Run:    runC16,
		Replay: replayC16,
		Floors: func(m *Merged) []string {
			var out []string
			if m.Counters["documents_with_items"] < 20000 {
				out = append(out, fmt.Sprintf("only %d documents rendered footnote items", m.Counters["documents_with_items"]))
			}
			if m.Counters["plain_documents_compared_by_construction"] < 5000 {
				out = append(out, "too few by-construction comparisons")
			}
			if m.Counters["orphan_markers_checked"] < 5000 {
				out = append(out, "too few orphan definitions checked")
			}
			for _, k := range c16Contexts {
				if m.Sets["reference_contexts"][k] == 0 {
					out = append(out, "reference context never generated: "+k)
				}
			}
			if len(m.Sets["configs"]) < 12 {
				out = append(out, fmt.Sprintf("only %d configurations exercised", len(m.Sets["configs"])))
			}
			return out
		},
		Exhaustive: func(tier string) string { return "" },
	})
}

var c16Contexts = []string{"plain", "emphasis", "link-text", "image-alt", "table-cell", "heading", "footnote-body", "orphan-footnote-body", "code-span", "list-item", "quote"}

type c16Expect struct {
	plain   bool
	order   []string // labels in order of first live reference (plain documents)
	refs    []string // label of each reference in document order (plain documents)
	orphans []string // marker words of definitions referenced nowhere
}

type c16Finding struct {
	class, locus, detail string
}

var (
	reFn    = regexp.MustCompile(`^(.*)fn:([0-9]+)$`)
	reFnref = regexp.MustCompile(`^(.*)fnref([0-9]*):([0-9]+)$`)
)

// c16Verify checks the footnote structure of an accepted output.
func c16Verify(out []byte, pfx string, exp *c16Expect, doc ast.Node) (fs []c16Finding, items int, sig string, tokOK bool) {
	toks, terr := oracle.Tokenize(out)
	if terr != nil {
		return nil, 0, "", false
	}
	tokOK = true
	root := oracle.Tree(toks)
	add := func(class, locus, format string, a ...any) {
		fs = append(fs, c16Finding{class, locus, fmt.Sprintf(format, a...) + "\noutput: " + string(q(out))})
	}
	ids := map[string]int{}
	var itemNums []int
	itemEl := map[int]*oracle.Elem{}
	type ref struct {
		id string
		n  int
		el *oracle.Elem
	}
	var sups []ref
	supByID := map[string]*oracle.Elem{}
	var backs []struct {
		target string
		n      int
		el     *oracle.Elem
	}
	var sb strings.Builder
	root.Each(func(e *oracle.Elem) {
		if id, ok := e.Get("id"); ok {
			ids[id]++
			if ids[id] == 2 {
				add("duplicate-id", e.Name, "id %q appears more than once", id)
			}
		}
		switch e.Name {
		case "li":
			id, ok := e.Get("id")
			if !ok {
				return
			}
			m := reFn.FindStringSubmatch(id)
			if m == nil || m[1] != pfx {
				return
			}
			n, _ := strconv.Atoi(m[2])
			itemNums = append(itemNums, n)
			itemEl[n] = e
			fmt.Fprintf(&sb, "I%d ", n)
		case "sup":
			id, ok := e.Get("id")
			if !ok {
				return
			}
			m := reFnref.FindStringSubmatch(id)
			if m == nil || m[1] != pfx {
				return
			}
			n, _ := strconv.Atoi(m[3])
			sups = append(sups, ref{id, n, e})
			supByID[id] = e
			fmt.Fprintf(&sb, "R%d ", n)
			as := e.Kids("a")
			if len(e.Children) != 1 || len(as) != 1 {
				add("reference-malformed", "children", "<sup id=%q> does not contain exactly one <a>", id)
				return
			}
			href, _ := as[0].Get("href")
			if href != "#"+pfx+"fn:"+m[3] {
				add("reference-link-mismatch", "href", "<sup id=%q> links to %q, expected %q", id, href, "#"+pfx+"fn:"+m[3])
			}
			if txt := as[0].Text.String(); txt != m[3] {
				add("reference-number-mismatch", "text", "<sup id=%q> shows %q, expected %q", id, txt, m[3])
			}
		case "a":
			if role, _ := e.Get("role"); role == "doc-backlink" {
				href, _ := e.Get("href")
				m := reFnref.FindStringSubmatch(strings.TrimPrefix(href, "#"))
				if !strings.HasPrefix(href, "#") || m == nil || m[1] != pfx {
					add("backlink-malformed", "href", "back-link href %q is not of the form #%sfnrefK:N", href, pfx)
					return
				}
				n, _ := strconv.Atoi(m[3])
				backs = append(backs, struct {
					target string
					n      int
					el     *oracle.Elem
				}{href[1:], n, e})
				fmt.Fprintf(&sb, "B%d ", n)
			}
		}
	})
	// items numbered 1..m in order
	for i, n := range itemNums {
		if n != i+1 {
			add("items-not-consecutive", "", "footnote items are numbered %v, expected 1..%d in order", itemNums, len(itemNums))
			break
		}
	}
	// items live in one div.footnotes > ol
	for n, e := range itemEl {
		if e.Parent == nil || e.Parent.Name != "ol" || e.Parent.Parent == nil || e.Parent.Parent.Name != "div" {
			add("item-misplaced", "", "footnote item %d is not inside <div class=footnotes><ol>", n)
		}
	}
	// references point to existing items
	for _, s := range sups {
		if _, ok := itemEl[s.n]; !ok {
			add("reference-to-missing-item", c16Where(s.el), "<sup id=%q> refers to footnote %d, which is not rendered (items: %v)", s.id, s.n, itemNums)
		}
	}
	// back-links: inside their item, target exists, 1-1
	backCount := map[string]int{}
	for _, b := range backs {
		backCount[b.target]++
		li := b.el.Ancestor("li")
		for li != nil {
			if id, _ := li.Get("id"); reFn.MatchString(id) {
				break
			}
			li = li.Ancestor("li")
		}
		if li == nil {
			add("backlink-outside-item", "", "back-link to %q is not inside a footnote item", b.target)
		} else if id, _ := li.Get("id"); id != pfx+"fn:"+strconv.Itoa(b.n) {
			add("backlink-in-wrong-item", "", "back-link to %q sits in item %q", b.target, id)
		}
		if _, ok := supByID[b.target]; !ok {
			add("dangling-backlink", c16DanglingLocus(doc, b.n, b.target, pfx), "back-link href=#%s has no <sup id=%q> in the output", b.target, b.target)
		}
	}
	for t, n := range backCount {
		if n > 1 {
			add("backlink-duplicated", "", "%d back-links point to %q", n, t)
		}
	}
	for _, s := range sups {
		if backCount[s.id] == 0 {
			add("reference-without-backlink", c16Where(s.el), "<sup id=%q> has no back-link in item %d", s.id, s.n)
		}
	}
	// an item without any back-link cannot be left
	for n, e := range itemEl {
		found := false
		e.Each(func(x *oracle.Elem) {
			if r, _ := x.Get("role"); r == "doc-backlink" {
				found = true
			}
		})
		if !found {
			add("item-without-backlink", "", "footnote item %d has no back-link", n)
		}
	}
	// by construction
	if exp != nil {
		text := string(out)
		for _, mk := range exp.orphans {
			if strings.Contains(text, mk) {
				add("unreferenced-definition-rendered", "", "definition body marker %q of a definition that is referenced nowhere appears in the output", mk)
			}
		}
		if exp.plain {
			if len(itemNums) != len(exp.order) {
				add("item-count-by-construction", "", "expected %d footnote items (labels %v), got %d", len(exp.order), exp.order, len(itemNums))
			} else {
				num := map[string]int{}
				for i, l := range exp.order {
					num[l] = i + 1
				}
				// items carry their marker word: item i must contain marker of label order[i]
				for i, l := range exp.order {
					if e := itemEl[i+1]; e != nil && !strings.Contains(e.Text.String(), "mk"+l+"mk") {
						add("item-order-by-construction", "", "item %d should be the definition of %q (first referenced %d-th) but its text is %q", i+1, l, i+1, e.Text.String())
					}
				}
				var want []int
				for _, l := range exp.refs {
					if n, ok := num[l]; ok {
						want = append(want, n)
					}
				}
				var got []int
				for _, s := range sups {
					if s.el.Ancestor("div") == nil { // references in running text, not inside the footnote list
						got = append(got, s.n)
					}
				}
				if fmt.Sprint(got) != fmt.Sprint(want) {
					add("reference-numbers-by-construction", "", "references in running text show %v, expected %v", got, want)
				}
			}
		}
	}
	return fs, len(itemNums), sb.String(), true
}

func c16Where(e *oracle.Elem) string {
	var p []string
	for x := e.Parent; x != nil && x.Name != ""; x = x.Parent {
		p = append(p, x.Name)
		if len(p) >= 3 {
			break
		}
	}
	return strings.Join(p, "<")
}

// c16DanglingLocus explains, from the parsed tree, why reference N has no <sup>: where do the FootnoteLink nodes with that index live?
func c16DanglingLocus(doc ast.Node, n int, target, pfx string) string {
	if doc == nil {
		return "unknown"
	}
	k := 0
	if m := reFnref.FindStringSubmatch(target); m != nil && m[2] != "" {
		k, _ = strconv.Atoi(m[2])
	}
	loci := map[string]bool{}
	attached := 0
	ast.Walk(doc, func(x ast.Node, entering bool) (ast.WalkStatus, error) {
		if !entering {
			return ast.WalkContinue, nil
		}
		if l, ok := x.(*east.FootnoteLink); ok && l.Index == n && l.RefIndex == k {
			attached++
			for p := x.Parent(); p != nil; p = p.Parent() {
				if p.Kind() == ast.KindImage {
					loci["fnref-under-image"] = true
					return ast.WalkContinue, nil
				}
			}
			loci["fnref-rendered-elsewhere"] = true
		}
		return ast.WalkContinue, nil
	})
	if attached == 0 {
		return "fnref-not-in-tree(removed-with-unreferenced-footnote)"
	}
	var ks []string
	for k := range loci {
		ks = append(ks, k)
	}
	sortStrings(ks)
	return strings.Join(ks, "+")
}

type c16Doc struct {
	src  []byte
	exp  *c16Expect
	ctxs []string
}

var c16LabelPool = []string{"a", "b", "1", "note", "x-y", "Z"}

// c16Gen builds a document mixing definitions and references.
func c16Gen(r *rand.Rand, spec cfg.Spec, plainOnly bool) c16Doc {
	nl := 1 + r.Intn(len(c16LabelPool))
	labels := append([]string{}, c16LabelPool[:nl]...)
	defined := map[string]bool{}
	for _, l := range labels {
		if r.Intn(6) != 0 {
			defined[l] = true
		}
	}
	hasTable := spec.HasExt(cfg.STable)
	exp := &c16Expect{plain: true}
	referenced := map[string]bool{}
	var ctxs []string
	ref := func(l string) string { return "[^" + l + "]" }
	var blocks []string
	npar := 1 + r.Intn(4)
	firstSeen := map[string]bool{}
	noteRef := func(l, ctx string) {
		referenced[l] = true
		ctxs = append(ctxs, ctx)
		if ctx != "plain" {
			exp.plain = false
		}
		exp.refs = append(exp.refs, l)
		if defined[l] && !firstSeen[l] {
			firstSeen[l] = true
			exp.order = append(exp.order, l)
		}
	}
	for i := 0; i < npar; i++ {
		var b strings.Builder
		nw := 1 + r.Intn(5)
		ctxBlock := "plain"
		if !plainOnly {
			switch r.Intn(9) {
			case 0:
				ctxBlock = "heading"
			case 1:
				ctxBlock = "list-item"
			case 2:
				ctxBlock = "quote"
			case 3:
				if hasTable {
					ctxBlock = "table-cell"
				}
			}
		}
		for w := 0; w < nw; w++ {
			b.WriteString("w" + strconv.Itoa(i) + strconv.Itoa(w))
			if r.Intn(2) == 0 {
				l := labels[r.Intn(len(labels))]
				ctx := ctxBlock
				if !plainOnly && ctxBlock == "plain" {
					switch r.Intn(8) {
					case 0:
						ctx = "emphasis"
						b.WriteString(" *e" + ref(l) + "*")
					case 1:
						ctx = "link-text"
						b.WriteString(" [t" + ref(l) + "](u)")
					case 2:
						ctx = "image-alt"
						b.WriteString(" ![i" + ref(l) + "](" + []string{"u", "u", "", "<>", "u \"t\""}[r.Intn(5)] + ")")
					case 3:
						ctx = "code-span"
						b.WriteString(" `c" + ref(l) + "`")
					}
				}
				if ctx == ctxBlock {
					b.WriteString(ref(l))
				}
				if ctx != "code-span" {
					noteRef(l, ctx)
				} else {
					// not a reference, but the label string now occurs in the source: no orphan claim for it
					referenced[l] = true
					ctxs = append(ctxs, ctx)
					exp.plain = false
				}
			}
			b.WriteString(" ")
		}
		line := strings.TrimSpace(b.String())
		switch ctxBlock {
		case "heading":
			line = "## " + line
		case "list-item":
			line = "- " + line
		case "quote":
			line = "> " + line
		case "table-cell":
			line = "| h |\n|---|\n| " + line + " |"
		}
		blocks = append(blocks, line)
	}
	// definitions
	var defs []string
	for _, l := range labels {
		if !defined[l] {
			continue
		}
		body := "mk" + l + "mk body"
		if !plainOnly && r.Intn(3) == 0 {
			// a reference inside a footnote body
			t := labels[r.Intn(len(labels))]
			body += " see" + ref(t)
			referenced[t] = true
			exp.plain = false
			ctxs = append(ctxs, "footnote-body")
		}
		d := "[^" + l + "]: " + body
		if !plainOnly {
			switch r.Intn(8) {
			case 0:
				d += "\n\n    second mk" + l + "mk paragraph"
			case 1:
				d = "> " + d
				exp.plain = false
			case 2:
				d = "- " + d
				exp.plain = false
			case 3:
				d += "\n    - item\n"
			}
		}
		defs = append(defs, d)
	}
	// orphan definitions: labels that appear nowhere else in the source
	no := 0
	if !plainOnly || r.Intn(2) == 0 {
		no = r.Intn(3)
	}
	for i := 0; i < no; i++ {
		l := "orph" + strconv.Itoa(i)
		mk := "mkorph" + strconv.Itoa(i) + "mk"
		body := mk + " body"
		if !plainOnly && r.Intn(2) == 0 {
			t := labels[r.Intn(len(labels))]
			body += " see" + ref(t)
			ctxs = append(ctxs, "orphan-footnote-body")
			exp.plain = false
			referenced[t] = true
		}
		defs = append(defs, "[^"+l+"]: "+body)
		exp.orphans = append(exp.orphans, mk)
	}
	// defined labels never referenced anywhere are orphans too
	for _, l := range labels {
		if defined[l] && !referenced[l] {
			exp.orphans = append(exp.orphans, "mk"+l+"mk")
		}
	}
	// interleave: definitions may come before, between or after the paragraphs
	var parts []string
	if plainOnly || r.Intn(2) == 0 {
		parts = append(append(parts, blocks...), defs...)
		if r.Intn(3) == 0 {
			parts = append(append([]string{}, defs...), blocks...)
		}
	} else {
		all := append(append([]string{}, blocks...), defs...)
		r.Shuffle(len(all), func(i, j int) { all[i], all[j] = all[j], all[i] })
		// shuffling changes the order of first references
		exp.plain = false
		parts = all
	}
	src := strings.Join(parts, "\n\n") + "\n"
	return c16Doc{src: []byte(src), exp: exp, ctxs: ctxs}
}

func c16Specs() []cfg.Spec {
	var out []cfg.Spec
	for _, base := range []cfg.Spec{{Ext: cfg.ExtFootnote}, {Only: []string{cfg.SGFM, cfg.SFootnote}}, {Ext: cfg.ExtAll}} {
		for _, x := range []bool{false, true} {
			for _, p := range []string{"", "p-", "a-rather-long-prefix/with-the-length-of-a-file-path-or-a-digest/0123456789abcdef-"} {
				s := base
				s.XHTML = x
				s.FootnotePfx = p
				out = append(out, s)
			}
			if base.Only == nil {
				// all footnote options set (id prefix, link/back-link titles and classes)
				s := base
				s.XHTML = x
				s.Rich = true
				out = append(out, s)
				// the id prefix given twice with different values: to NewFootnote and as a renderer option (the renderer option is
				// in force, for references, items and back-links alike), plus a prefix function that must stay unused
				s.Rich3 = true
				out = append(out, s)
				// an explicitly empty static prefix next to a prefix function: the static one is in force everywhere
				s.Rich3, s.Rich4 = false, true
				out = append(out, s)
			}
		}
	}
	return out
}

func c16Eval(md goldmark.Markdown, spec cfg.Spec, src []byte, exp *c16Expect) (fs []c16Finding, items int, sig string, status string) {
	res := parseRender(md, src)
	if !res.OK() {
		return nil, 0, "", "fail"
	}
	fs, items, sig, ok := c16Verify(res.Out, spec.FootnoteIDPrefix(), exp, res.Doc)
	if !ok {
		return nil, 0, "", "tokenizer"
	}
	return fs, items, sig, "ok"
}

// c16Ctx is one parser.Context handed to many Parse calls (parser.WithContext): a caller that keeps a context around
// gets the same footnote laws on every document.
var (
	c16Ctx  = parser.NewContext()
	c16CtxN int
)

func c16EvalReusedContext(md goldmark.Markdown, spec cfg.Spec, src []byte, exp *c16Expect) (fs []c16Finding, status string) {
	var out bytes.Buffer
	var doc ast.Node
	pv, _ := core.Try(func() {
		doc = md.Parser().Parse(text.NewReader(src), parser.WithContext(c16Ctx))
		_ = md.Renderer().Render(&out, src, doc)
	})
	if pv != nil {
		return nil, "fail"
	}
	fs, _, _, ok := c16Verify(out.Bytes(), spec.FootnoteIDPrefix(), exp, doc)
	if !ok {
		return nil, "tokenizer"
	}
	return fs, "ok"
}

func c16Check(c *core.Ctx, pool *cfg.Pool, spec cfg.Spec, d c16Doc) {
	name := spec.Name()
	md := pool.Get(spec)
	c.Begin(name, d.src)
	fs, items, sig, status := c16Eval(md, spec, d.src, d.exp)
	c.End()
	c.Eval()
	c16CtxN++
	if c16CtxN%6 == 0 && status == "ok" {
		rfs, st := c16EvalReusedContext(md, spec, d.src, d.exp)
		c.Eval()
		c.Count("documents_parsed_with_a_reused_context", 1)
		if st == "ok" {
			for _, f := range rfs {
				c.Violation(&core.Violation{Class: f.class + ":reused-parser-context", Locus: f.locus, Config: name, Input: d.src,
					Detail: "with one parser.Context reused across documents (parser.WithContext)\n" + f.detail})
			}
		}
	}
	c.Observe("configs", name)
	switch status {
	case "fail":
		c.Count("conversion_failed_left_to_C01", 1)
		return
	case "tokenizer":
		c.Count("output_rejected_by_tokenizer_left_to_C03", 1)
		return
	}
	c.Count("documents", 1)
	if items > 0 {
		c.Count("documents_with_items", 1)
		c.Count("items_inspected", int64(items))
		c.Sig(core.HashStr(sig, name))
	}
	c.Max("items_per_document", int64(items))
	for _, x := range d.ctxs {
		c.Observe("reference_contexts", x)
	}
	if d.exp != nil {
		if d.exp.plain {
			c.Count("plain_documents_compared_by_construction", 1)
		}
		c.Count("orphan_markers_checked", int64(len(d.exp.orphans)))
	}
	for _, f := range fs {
		if c.Seen(f.class, f.locus) {
			c.Violation(&core.Violation{Class: f.class, Locus: f.locus, Config: name, Input: d.src})
			continue
		}
		min, detail := d.src, f.detail
		if !strings.HasSuffix(f.class, "by-construction") && f.class != "unreferenced-definition-rendered" {
			fresh := spec.Build()
			min = core.Minimize(d.src, func(b []byte) bool {
				xs, _, _, st := c16Eval(fresh, spec, b, nil)
				if st != "ok" {
					return false
				}
				for _, x := range xs {
					if x.class == f.class && x.locus == f.locus {
						return true
					}
				}
				return false
			}, 800)
			xs, _, _, _ := c16Eval(fresh, spec, min, nil)
			for _, x := range xs {
				if x.class == f.class && x.locus == f.locus {
					detail = x.detail
				}
			}
		}
		var script any
		if d.exp != nil {
			script = map[string]any{"plain": d.exp.plain, "order": d.exp.order, "refs": d.exp.refs, "orphans": d.exp.orphans}
		}
		c.Violation(&core.Violation{Class: f.class, Locus: f.locus, Config: name, Input: min, Detail: detail, Script: script})
	}
}

func replayC16(c *core.Ctx, v *core.Violation) (bool, string) {
	spec := specOf(v.Config)
	var exp *c16Expect
	if m, ok := v.Script.(map[string]any); ok && (strings.HasSuffix(v.Class, "by-construction") || v.Class == "unreferenced-definition-rendered") {
		exp = &c16Expect{}
		exp.plain, _ = m["plain"].(bool)
		for _, k := range []struct {
			n string
			p *[]string
		}{{"order", &exp.order}, {"refs", &exp.refs}, {"orphans", &exp.orphans}} {
			if a, ok := m[k.n].([]any); ok {
				for _, x := range a {
					if s, ok := x.(string); ok {
						*k.p = append(*k.p, s)
					}
				}
			}
		}
	}
	fs, _, _, st := c16Eval(spec.Build(), spec, v.Input, exp)
	if st != "ok" {
		return false, "not evaluable (C01/C03)"
	}
	for _, f := range fs {
		if f.class == v.Class && f.locus == v.Locus {
			return true, f.detail
		}
	}
	if len(fs) > 0 {
		return true, "different: " + fs[0].class + " " + fs[0].detail
	}
	return false, "footnote structure is consistent"
}

var c16Soup = []string{"[^a]", "[^a]", "[^b]", "[^1]", "[^a]: n\n", "[^b]: m\n", "[^1]: o\n", "\n[^a]: mka body\n", "\n\n", "\n", " ", "text ", "*", "**", "`", "![", "](u)", "[", "]", "](", "[l", "(u)", "![^a]", "![x[^a]](u)", "![y[^a]]()", "![z[^b]](<>)", "]()", "](<>)", "[t[^b]](u)",
	"| h |\n|---|\n| [^a] |\n", "# h [^a]\n", "> [^a]: q\n", "- [^b]: l\n", "    cont\n", "    [^b]\n", "[^a]: see [^b]\n", "[^c]: see [^a]\n", "[^a]:\n", "[^]", "[^ ]: x\n", "[^a b]: y\n", "[^a b]", "[^A]", "\\[^a]", "[^a\\]]", "[^a]:n\n", "^", "[^a][^a]", "[^a]: [^a]\n", "<b>", "&amp;", "\x00", "é"}

func runC16(c *core.Ctx) {
	pool := cfg.NewPool()
	specs := c16Specs()
	corpus := loadCorpus(c)
	r := c.Rng
	if c.Shard == 0 {
		for _, s := range []string{"![x[^a]](u)\n\n[^a]: note\n", "[^a]: text [^b]\n\n[^b]: x\n", "a[^a] b[^a]\n\n[^a]: n\n", "[^b] [^a]\n\n[^a]: one\n[^b]: two\n"} {
			for _, sp := range specs {
				c16Check(c, pool, sp, c16Doc{src: []byte(s)})
			}
		}
	}
	n1 := c.PerShard(c.N(400000, 12000000))
	for i := 0; i < n1; i++ {
		sp := specs[r.Intn(len(specs))]
		d := c16Gen(r, sp, i%3 == 0)
		c16Check(c, pool, sp, d)
		if c.WantSample() && i%6000 == 3 {
			c.Sample(map[string]any{"config": sp.Name(), "document": q(d.src), "plain": d.exp.plain, "expected_item_order": d.exp.order, "orphan_markers": d.exp.orphans})
		}
	}
	n2 := c.PerShard(c.N(300000, 10000000))
	for i := 0; i < n2; i++ {
		var src []byte
		if i%3 != 2 {
			src = wl.SoupFrom(r, c16Soup, 2+r.Intn(14))
		} else {
			src = mixDoc(r, corpus)
			for k := 1 + r.Intn(3); k > 0; k-- {
				p := r.Intn(len(src) + 1)
				ins := c16Soup[r.Intn(len(c16Soup))]
				src = append(src[:p:p], append([]byte(ins), src[p:]...)...)
			}
		}
		c16Check(c, pool, specs[r.Intn(len(specs))], c16Doc{src: src})
	}
	c16ContextHistories(c, pool, specs)
	c16Graphs(c, pool)
}

// c16Graphs: all reference graphs over three footnotes. The document body and every footnote body refer to each of the
// (other) footnotes not at all, plainly, or from inside an image description (which renders no reference): 3^9 documents.
// Which footnotes are rendered, with which numbers, follows from reachability through references that are themselves
// rendered; the structural oracle demands that what is rendered is consistent (every item referenced, every back-link has its
// reference, numbering 1..m, unreferenced definitions leave no trace).
func c16Graphs(c *core.Ctx, pool *cfg.Pool) {
	labels := []string{"a", "b", "c"}
	imgDest := "/u"
	ref := func(kind int, l string) string {
		switch kind {
		case 1:
			return " r[^" + l + "]"
		case 2:
			// (the destination of the image is ordinary, empty, or empty in angle brackets: an image is an image whatever it points to)
			return " ![img[^" + l + "] alt](" + imgDest + ")"
		}
		return ""
	}
	specs := []cfg.Spec{{Ext: cfg.ExtFootnote}, {Ext: cfg.ExtAll, XHTML: true}}
	total := 19683
	for g := 0; g < total; g++ {
		if !c.Mine(g) {
			continue
		}
		x := g
		imgDest = []string{"/u", "", "<>", "/u 'title'"}[(g/7)%4]
		next := func() int { k := x % 3; x /= 3; return k }
		var b strings.Builder
		b.WriteString("body")
		for _, l := range labels {
			b.WriteString(ref(next(), l))
		}
		b.WriteString("\n\n")
		for i, l := range labels {
			b.WriteString("[^" + l + "]: note-" + l)
			for j, m := range labels {
				if i != j {
					b.WriteString(ref(next(), m))
				}
			}
			b.WriteString("\n\n")
		}
		src := []byte(b.String())
		sp := specs[g%len(specs)]
		md := pool.Get(sp)
		c.Begin(sp.Name(), src)
		fs, items, _, status := c16Eval(md, sp, src, nil)
		c.End()
		c.Eval()
		c.Count("reference_graph_documents", 1)
		if status != "ok" {
			continue
		}
		c.Count("items_inspected", int64(items))
		for _, f := range fs {
			c.Violation(&core.Violation{Class: f.class, Locus: f.locus + ":reference-graph", Config: sp.Name(), Input: src, Detail: f.detail})
		}
	}
}

// c16ContextHistories: one parser.Context handed to many Parse calls (parser.WithContext), as a caller does that keeps its
// context around. A document with n footnotes (n at every boundary size, referenced in order, in reverse, twice, or not at
// all) goes first; small documents that use the same labels follow with the same context. Each document must obey the
// footnote laws on its own: what an earlier document left in the context (a label index, the list of definitions) must not
// resolve, number or drop anything in a later one.
func c16ContextHistories(c *core.Ctx, pool *cfg.Pool, specs []cfg.Spec) {
	k := 0
	for _, n := range wl.BoundarySizes {
		if n > 600 {
			continue
		}
		for shape := 0; shape < 4; shape++ {
			k++
			if !c.Mine(k) {
				continue
			}
			var big strings.Builder
			for i := 0; i < n; i++ {
				switch shape {
				case 0:
					fmt.Fprintf(&big, "x[^f%d] ", i)
				case 1:
					fmt.Fprintf(&big, "x[^f%d] ", n-1-i)
				case 2:
					fmt.Fprintf(&big, "x[^f%d] y[^f%d] ", i, (i*7+3)%n)
				}
				if i%10 == 9 {
					big.WriteString("\n")
				}
			}
			if shape == 3 {
				big.WriteString("no reference at all, and one to [^undefined]")
			}
			big.WriteString("\n\n")
			for i := 0; i < n; i++ {
				fmt.Fprintf(&big, "[^f%d]: note %d\n\n", i, i)
			}
			smalls := []string{
				"a[^f0] b[^f1]\n\n[^f0]: own zero\n\n[^f1]: own one\n",
				"only[^f1]\n\n[^f1]: own one\n\n[^f0]: never used\n",
				"twice[^f2] and[^f2] and[^f0]\n\n[^f0]: z\n\n[^f2]: t\n",
				"nothing defined here [^f0] [^f3]\n",
				"[^f5]: defined but unused\n\ntext\n",
				"last[^f" + fmt.Sprint(n-1) + "]\n\n[^f" + fmt.Sprint(n-1) + "]: own last\n",
			}
			sp := specs[k%len(specs)]
			md := pool.Get(sp)
			ctx := parser.NewContext()
			docs := append([]string{big.String()}, smalls...)
			for di, d := range docs {
				src := []byte(d)
				var out bytes.Buffer
				var doc ast.Node
				pv, _ := core.Try(func() {
					doc = md.Parser().Parse(text.NewReader(src), parser.WithContext(ctx))
					_ = md.Renderer().Render(&out, src, doc)
				})
				c.Eval()
				c.Count("documents_parsed_with_a_reused_context", 1)
				if pv != nil {
					c.Count("conversion_failed_left_to_C01", 1)
					continue
				}
				fs, items, _, ok := c16Verify(out.Bytes(), sp.FootnoteIDPrefix(), nil, doc)
				if !ok {
					continue
				}
				c.Count("items_inspected", int64(items))
				// by construction: the number of rendered items of the small documents
				wantItems := map[int]int{1: 2, 2: 1, 3: 2, 4: 0, 5: 0, 6: 1}
				if w, known := wantItems[di]; known && items != w && !(di == 6 && n == 0) {
					fs = append(fs, c16Finding{"wrong-item-count", "reused-context", fmt.Sprintf("%d footnote items rendered, the document defines and references %d\noutput: %s", items, w, q(out.Bytes()))})
				}
				for _, f := range fs {
					c.Violation(&core.Violation{Class: f.class + ":reused-parser-context", Locus: f.locus, Config: sp.Name(), Input: src,
						Detail: fmt.Sprintf("one parser.Context reused across documents (parser.WithContext); before this document the context had parsed a document with %d footnotes (shape %d) and %d small ones\n%s", n, shape, di-1, f.detail)})
				}
			}
			c.Count("context_histories", 1)
		}
	}
}
