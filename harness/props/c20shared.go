package props

import (
	"bytes"
	"fmt"
	"math"
	"sort"
	"strings"

	"github.com/yuin/goldmark"
	"github.com/yuin/goldmark/ast"
	"github.com/yuin/goldmark/extension"
	"github.com/yuin/goldmark/parser"
	"github.com/yuin/goldmark/renderer"
	"github.com/yuin/goldmark/text"
	"github.com/yuin/goldmark/util"

	"verif/core"
)

// C20, probes that share a trigger with built-in block parsers ('-', '=' and, with DefinitionList, ':') and that may or may
// not be allowed to interrupt a paragraph. The line they compete for follows (a) nothing, (b) a paragraph that stays a
// paragraph, (c) a "paragraph" that a paragraph transformer takes away the moment a parser asks for it (link reference
// definitions; a table header + delimiter row) - after which no paragraph is open and every parser is eligible again, in
// ascending priority from the start.
//
// Dispatch model (documented meaning of priority, CanInterruptParagraph and RequireParagraph):
//   pass with an open paragraph: parsers of the trigger in ascending priority; one that may not interrupt a paragraph is
//   not asked; the first to accept wins. A built-in that accepts with RequireParagraph (Setext heading 100, definition list
//   101) keeps the line if the paragraph is still a paragraph; if the paragraph was transformed away it counts as declining
//   and the line is dispatched again as a line that follows no paragraph.
//   pass without a paragraph: all parsers of the trigger in ascending priority, the first to accept wins.

type c20SProbe struct {
	Name      string `json:"name"`
	Prio      int    `json:"priority"`
	Route     int    `json:"route"`
	Accept    bool   `json:"accept,omitempty"`
	Interrupt bool   `json:"can_interrupt_paragraph,omitempty"`
}

type c20SScenario struct {
	Probes []c20SProbe `json:"probes"`
	Doc    int         `json:"doc"`
}

type c20SDoc struct {
	Src     string
	Line    string // the contested line
	Ext     string // "", "table", "deflist"
	Para    int    // 0 none, 1 persists, 2 vanishes
	Req     int    // priority of the built-in that asks for the paragraph
	Builtin int    // priority of the first built-in (same trigger) that accepts the line when no paragraph is open; 0: none (falls to the paragraph parser)
	WantReq string // output fragment when the built-in Req keeps the line
	WantBI  string // output fragment when Builtin (or the paragraph parser) takes it
}

var c20SDocs = []c20SDoc{
	{Src: "---\n", Line: "---", Para: 0, Req: 100, Builtin: 200, WantBI: "<hr>"},
	{Src: "===\n", Line: "===", Para: 0, Req: 100, Builtin: 0, WantBI: "<p>===</p>"},
	{Src: "para\n---\n", Line: "---", Para: 1, Req: 100, Builtin: 200, WantReq: "<h2>para</h2>"},
	{Src: "para\n===\n", Line: "===", Para: 1, Req: 100, Builtin: 0, WantReq: "<h1>para</h1>"},
	{Src: "[foo]: /url\n---\n", Line: "---", Para: 2, Req: 100, Builtin: 200, WantBI: "<hr>"},
	{Src: "[foo]: /url\n===\n", Line: "===", Para: 2, Req: 100, Builtin: 0, WantBI: "<p>===</p>"},
	{Src: "> [foo]: /url\n> [bar]: /u2\n> ---\n", Line: "---", Para: 2, Req: 100, Builtin: 200, WantBI: "<hr>"},
	{Src: "- x\n\n  [foo]: /url 'title'\n  ===\n", Line: "===", Para: 2, Req: 100, Builtin: 0, WantBI: "<p>===</p>"},
	{Src: "a|b\n:-|-\n---\n", Line: "---", Ext: "table", Para: 2, Req: 100, Builtin: 200, WantBI: "<hr>"},
	{Src: "[foo]: /url\n: x\n", Line: ": x", Ext: "deflist", Para: 2, Req: 101, Builtin: 0, WantBI: "<p>: x</p>"},

	{Src: ": x\n", Line: ": x", Ext: "deflist", Para: 0, Req: 101, Builtin: 0, WantBI: "<p>: x</p>"},
}

type c20SParser struct {
	name              string
	accept, interrupt bool
	log               *c20Log
}

func (p *c20SParser) Trigger() []byte { return []byte{'-', '=', ':'} }
func (p *c20SParser) Open(parent ast.Node, reader text.Reader, pc parser.Context) (ast.Node, parser.State) {
	line, _ := reader.PeekLine()
	pos := pc.BlockOffset()
	if pos < 0 || pos >= len(line) {
		return nil, parser.NoChildren
	}
	rest := string(bytes.TrimRight(line[pos:], "\n"))
	if rest != "---" && rest != "===" && rest != ": x" {
		return nil, parser.NoChildren
	}
	p.log.add(p.name)
	if !p.accept {
		return nil, parser.NoChildren
	}
	reader.Advance(len(line) - 1)
	return &c20BlockNode{By: p.name}, parser.NoChildren
}
func (p *c20SParser) Continue(node ast.Node, reader text.Reader, pc parser.Context) parser.State {
	return parser.Close
}
func (p *c20SParser) Close(node ast.Node, reader text.Reader, pc parser.Context) {}
func (p *c20SParser) CanInterruptParagraph() bool                                { return p.interrupt }
func (p *c20SParser) CanAcceptIndentedLine() bool                                { return false }

type c20SRenderer struct{}

func (r *c20SRenderer) RegisterFuncs(reg renderer.NodeRendererFuncRegisterer) {
	reg.Register(c20BlockKind, func(w util.BufWriter, source []byte, n ast.Node, entering bool) (ast.WalkStatus, error) {
		if entering {
			_, _ = w.WriteString("{" + n.(*c20BlockNode).By + "}\n")
		}
		return ast.WalkContinue, nil
	})
}

func (s c20SScenario) String() string {
	var parts []string
	for _, p := range s.Probes {
		parts = append(parts, fmt.Sprintf("%s(prio=%d,route=%d,accept=%v,can-interrupt-paragraph=%v)", p.Name, p.Prio, p.Route, p.Accept, p.Interrupt))
	}
	d := c20SDocs[s.Doc]
	return fmt.Sprintf("block-shared-trigger doc=%q ext=%q probes(in registration order)=[%s]", d.Src, d.Ext, strings.Join(parts, " "))
}

// c20SExpect: the invocation log of the probes and the fragment the output must contain.
func c20SExpect(s c20SScenario) (log []string, want string) {
	d := c20SDocs[s.Doc]
	ps := append([]c20SProbe(nil), s.Probes...)
	sort.SliceStable(ps, func(i, j int) bool { return ps[i].Prio < ps[j].Prio })
	noPara := func() {
		for _, p := range ps {
			if d.Builtin != 0 && p.Prio > d.Builtin {
				break
			}
			log = append(log, p.Name)
			if p.Accept {
				want = "{" + p.Name + "}"
				return
			}
		}
		want = d.WantBI
	}
	if d.Para == 0 {
		noPara()
		return
	}
	for _, p := range ps {
		if p.Prio > d.Req {
			break
		}
		if !p.Interrupt {
			continue
		}
		log = append(log, p.Name)
		if p.Accept {
			want = "{" + p.Name + "}"
			return
		}
	}
	if d.Para == 1 {
		want = d.WantReq
		return
	}
	noPara()
	return
}

func c20SRun(s c20SScenario) (string, []string) {
	d := c20SDocs[s.Doc]
	log := &c20Log{}
	var out bytes.Buffer
	var desc string
	pv, st := core.Try(func() {
		var opts []goldmark.Option
		var later []func(goldmark.Markdown)
		switch d.Ext {
		case "table":
			opts = append(opts, goldmark.WithExtensions(extension.Table))
		case "deflist":
			opts = append(opts, goldmark.WithExtensions(extension.DefinitionList))
		}
		opts = append(opts, goldmark.WithRendererOptions(renderer.WithNodeRenderers(util.Prioritized(&c20SRenderer{}, 500))))
		for _, p := range s.Probes {
			po := parser.WithBlockParsers(util.Prioritized(&c20SParser{name: p.Name, accept: p.Accept, interrupt: p.Interrupt, log: log}, p.Prio))
			switch p.Route {
			case 0:
				opts = append(opts, goldmark.WithParserOptions(po))
			case 1:
				opts = append(opts, goldmark.WithExtensions(&c20Ext{func(m goldmark.Markdown) { m.Parser().AddOptions(po) }}))
			default:
				later = append(later, func(m goldmark.Markdown) { m.Parser().AddOptions(po) })
			}
		}
		md := goldmark.New(opts...)
		for _, f := range later {
			f(md)
		}
		if err := md.Convert([]byte(d.Src), &out); err != nil {
			desc = "Convert returned error: " + err.Error()
		}
	})
	if pv != nil {
		return fmt.Sprintf("panic: %v\n%s", pv, trimStack(st)), log.events
	}
	if desc != "" {
		return desc, log.events
	}
	wantLog, want := c20SExpect(s)
	if strings.Join(log.events, ",") != strings.Join(wantLog, ",") {
		return fmt.Sprintf("probes were asked in the order %v, the priority model gives %v (output %q)", log.events, wantLog, out.String()), log.events
	}
	o := out.String()
	if !strings.Contains(o, want) {
		return fmt.Sprintf("output %q lacks %q: the line %q must go to the accepting parser with the smallest priority value among those eligible", o, want, d.Line), log.events
	}
	for _, p := range s.Probes {
		if f := "{" + p.Name + "}"; f != want && strings.Contains(o, f) {
			return fmt.Sprintf("output %q contains %q although %q wins by priority", o, f, want), log.events
		}
	}
	return "", log.events
}

// c20Shared enumerates the scenarios: 1..n probes, ordered priority assignments from a pool straddling 100/101 and 200,
// accept x may-interrupt patterns, routes, documents.
func c20Shared(c *core.Ctx, run func(s c20SScenario)) {
	pool := []int{math.MinInt, 50, 99, 150, 250, math.MaxInt}
	maxN := c.N(2, 3)
	for n := 1; n <= maxN; n++ {
		for _, pr := range c20Choose(pool, n) {
			nroutes := 1
			for i := 0; i < n; i++ {
				nroutes *= 3
			}
			for rt := 0; rt < nroutes; rt++ {
				if n == 3 && rt%13 != 0 {
					continue
				}
				for ac := 0; ac < 1<<n; ac++ {
					for in := 0; in < 1<<n; in++ {
						for di := range c20SDocs {
							s := c20SScenario{Doc: di}
							r := rt
							for i := 0; i < n; i++ {
								s.Probes = append(s.Probes, c20SProbe{Name: fmt.Sprintf("P%d", i), Prio: pr[i], Route: r % 3, Accept: ac&(1<<i) != 0, Interrupt: in&(1<<i) != 0})
								r /= 3
							}
							run(s)
						}
					}
				}
			}
		}
	}
}
