package props

import (
	"bytes"
	"encoding/xml"
	"fmt"
	"io"
	"strings"
	"unicode/utf8"

	"verif/cfg"
	"verif/core"
	"verif/oracle"
	"verif/wl"
)

// C03 — safe mode emits only inert, well-nested markup from a fixed vocabulary.

func init() {
	register(&Prop{
		ID:    "C03",
		Level: "exploration",
		Rule: "cases = (safe-mode configuration, source). Every output is fed to a strict tokenizer written from the property statement (fixed element/attribute vocabulary, double-quoted values, " +
			"no raw '<' in text, every '&' a well-formed reference, only the placeholder comment, proper nesting); XHTML outputs whose characters are XML-representable are additionally parsed by encoding/xml in strict mode. " +
			"Sources: adversarial HTML/attribute/entity soup, exhaustive short strings, corpus mutants; configurations: all 144 safe-mode points of the lattice. " +
			"Non-trivial = the output contains at least one element other than <p>; distinct = distinct (AST shape signature, extension set, XHTML flag).",
		Assumptions: []string{
			"the tokenizer (oracle/htmltok.go, about 250 lines) and its vocabulary tables are the trusted base; the vocabulary is the union of goldmark's exported attribute filters, data-* and the names its renderers write literally",
			"encoding/xml (Strict, Entity=xml.HTMLEntity) decides XML well-formedness; outputs with invalid UTF-8 or code points outside XML's Char production are skipped and counted",
			"a panic or error during conversion is counted and left to C01",
		},
		Run:    runC03,
		Replay: replayC03,
		Floors: func(m *Merged) []string {
			var out []string
			missing := []string{}
			for el := range oracle.Elements {
				if m.Sets["elements"][el] == 0 {
					missing = append(missing, el)
				}
			}
			if len(missing) > 0 {
				out = append(out, "vocabulary elements never seen in any output: "+strings.Join(missing, ","))
			}
			if m.Counters["xml_checked"] == 0 {
				out = append(out, "no XHTML output was parsed as XML")
			}
			if len(m.Sets["configs"]) < 100 {
				out = append(out, fmt.Sprintf("only %d safe configurations exercised", len(m.Sets["configs"])))
			}
			return out
		},
		Exhaustive: func(tier string) string {
			if tier == "thorough" {
				return "all strings of length<=4 over a 24-unit adversarial alphabet x 36 safe configurations; everything else sampled"
			}
			return "all strings of length<=3 over a 24-unit adversarial alphabet x 18 safe configurations; everything else sampled"
		},
	})
}

var c03Alpha = []string{"a", " ", "\n", "<", ">", "\"", "'", "&", "`", "[", "]", "(", ")", "!", "\\", "#", "*", "|", "-", ":", "{", "}", "=", "\x00"}

var c03Tokens = []string{
	"<script>", "</script>", "<script>alert(1)</script>", "</p>", "<p>", "<!--", "-->", "<!-- x -->", "<b>", "</b>", "<img src=x onerror=y>", "<a href=\"x\">", "<x", "<?x?>", "<![CDATA[x]]>", "<!X>",
	"\"", "'", "`", "&", "&#0;", "&#xD800;", "&foo;", "&amp;", "&quot;", "&#34;", "&#x22;", "&#60;", "&lt;", "&gt", "&#", "&#x", "& ", "\\<", "\\\"", "\\&", "\\>",
	"{#i .c k=\"v<>&\\\"\"}", "{onclick=x}", "{data-x=1}", "{data-x=\"a\\\"b\"}", "{title=\"<b>\"}", "{#a\"b}", "{.c\"d}", "{style=\"x:y\"}", "{data-a:b=\"c\"}", "{class=\"a&b\"}", "{id=\"x y\"}", " {#id}", "{lang=en}", "{k=\"v\"}",
	"[a](u \"t\")", "[a](u \"t\\\"x<y\")", "[a](<u> 't\"')", "![a\"b<c>](u)", "![a](u \"<t>\")", "[a](<x\"y>)", "[a](x\"y)", "[a](x'y\"z)", "![x[^1]](u)", "![`c`\"](u)", "![a *b* \"c\"](u)",
	"[r]: /u \"t\\\"<\"", "[r]", "[r]: <a\"b>", "<http://a\"b>", "<http://a.b/<>", "<a\"@b.c>", "<x@y.z>", "http://a.b/\"<>", "www.a.b/\"'<", "a\"@b.c",
	"```a\"b<c>", "```\n<x>\n```", "~~~ \"x\" y", "    <c>", "`<c>\"`", "``` a&b",
	"| a\"b | <c> |", "|---|---|", "| :-- | --: |", "|\"|", "\\|", "[^a\"b]", "[^a\"b]: n", "[^1]", "[^1]: <x>\"", "term\"<\n: def<\"", ": d", "- [ ] \"<", "- [x] a", "~~a\"<~~", "'q'", "\"q\"", "--", "...", "<<", ">>",
	"# h \"<&", "# h {#i\"}", "h\n===", "> q\"<", "- i\"<", "1. o", "***", "\n\n", "\n", " ", "  \n", "\\\n", "a", "b", "\x00", "\x80", "\xc3", "é", "あ", "\r\n", "\t",
	"*", "**", "_", "~", "]", "[", "(", ")", "!", "![", "](", "<", ">",
}

func xmlRepresentable(b []byte) bool {
	if !utf8.Valid(b) {
		return false
	}
	for _, r := range string(b) {
		if r == 0x9 || r == 0xA || r == 0xD || r >= 0x20 && r <= 0xD7FF || r >= 0xE000 && r <= 0xFFFD || r >= 0x10000 && r <= 0x10FFFF {
			continue
		}
		return false
	}
	return true
}

func xmlCheck(out []byte) error {
	var buf bytes.Buffer
	buf.WriteString("<r>")
	buf.Write(out)
	buf.WriteString("</r>")
	d := xml.NewDecoder(&buf)
	d.Strict = true
	d.Entity = xml.HTMLEntity
	for {
		_, err := d.Token()
		if err == io.EOF {
			return nil
		}
		if err != nil {
			return err
		}
	}
}

// c03Verdict returns class, locus, detail ("" class = accepted).
func c03Verdict(spec cfg.Spec, out []byte, st func(toks []oracle.Token)) (string, string, string) {
	toks, terr := oracle.Tokenize(out)
	if terr != nil {
		where := "top"
		for i := len(toks) - 1; i >= 0; i-- {
			if toks[i].Kind == oracle.TokStart {
				where = toks[i].Name
				break
			}
		}
		lo := where
		if terr.Class == "foreign-element" || terr.Class == "foreign-attribute" {
			lo = where + ":" + firstQuoted(terr.Msg)
		}
		s, e := terr.Pos-60, terr.Pos+60
		if s < 0 {
			s = 0
		}
		if e > len(out) {
			e = len(out)
		}
		return "html-" + terr.Class, lo, fmt.Sprintf("%s\noutput around the offset: %q", terr.Error(), out[s:e])
	}
	if st != nil {
		st(toks)
	}
	if spec.XHTML {
		if xmlRepresentable(out) {
			if err := xmlCheck(out); err != nil {
				msg := err.Error()
				return "xhtml-not-wellformed-xml", stripDigits(msg), fmt.Sprintf("encoding/xml: %v\noutput: %s", err, q(out))
			}
			return "", "xml-ok", ""
		}
		return "", "xml-skipped", ""
	}
	return "", "", ""
}

func firstQuoted(s string) string {
	i := strings.IndexAny(s, "<\"")
	if i < 0 {
		return ""
	}
	j := i + 1
	for j < len(s) && j < i+24 && s[j] != '>' && s[j] != '"' {
		j++
	}
	return s[i+1 : j]
}

func c03Check(c *core.Ctx, pool *cfg.Pool, spec cfg.Spec, src []byte) {
	name := spec.Name()
	md := pool.Get(spec)
	c.Begin(name, src)
	res := parseRender(md, src)
	c.End()
	c.Eval()
	c.Observe("configs", name)
	if !res.OK() {
		c.Count("conversion_failed_left_to_C01", 1)
		return
	}
	nontrivial := false
	class, locus, detail := c03Verdict(spec, res.Out, func(toks []oracle.Token) {
		for i := range toks {
			t := &toks[i]
			if t.Kind == oracle.TokStart {
				c.Observe("elements", t.Name)
				if t.Name != "p" {
					nontrivial = true
				}
				for _, a := range t.Attrs {
					n := a.Name
					if strings.HasPrefix(n, "data-") {
						n = "data-*"
					}
					c.Observe("attributes", n)
				}
			} else if t.Kind == oracle.TokComment {
				c.Count("placeholders_seen", 1)
			}
		}
		c.Count("outputs_tokenized", 1)
	})
	switch locus {
	case "xml-ok":
		c.Count("xml_checked", 1)
	case "xml-skipped":
		c.Count("xml_skipped_unrepresentable", 1)
	}
	if nontrivial && res.Doc != nil {
		sh := oracle.ShapeOf(res.Doc)
		x := "h"
		if spec.XHTML {
			x = "x"
		}
		c.Sig(sh.Sig ^ core.HashStr(extName(spec), x))
	}
	if class == "" {
		return
	}
	if c.Seen(class, locus) {
		c.Violation(&core.Violation{Class: class, Locus: locus, Config: name, Input: src})
		return
	}
	min := core.Minimize(src, func(b []byte) bool {
		cl, lo, _ := c03Bad(spec, b)
		return cl == class && lo == locus
	}, 1500)
	if _, _, d := c03Bad(spec, min); d != "" {
		detail = d
	}
	c.Violation(&core.Violation{Class: class, Locus: locus, Config: name, Input: min, Detail: detail})
}

func c03Bad(spec cfg.Spec, src []byte) (string, string, string) {
	res := parseRender(spec.Build(), src)
	if !res.OK() {
		return "", "", ""
	}
	cl, lo, d := c03Verdict(spec, res.Out, nil)
	if cl == "" {
		return "", "", ""
	}
	return cl, lo, d
}

func replayC03(c *core.Ctx, v *core.Violation) (bool, string) {
	if steps := arenaFromScript(v.Script); steps != nil {
		spec := specOf(v.Config)
		outs := arenaRun(spec.Build(), &srcArena{}, steps)
		for i, o := range outs {
			if o == nil {
				continue
			}
			if cl, lo, d := c03Verdict(spec, o, nil); cl != "" {
				return true, fmt.Sprintf("step %d of the recycled-buffer history: %s %s %s", i+1, cl, lo, d)
			}
		}
		return false, "every output of the history is inert"
	}
	cl, lo, d := c03Bad(specOf(v.Config), v.Input)
	return cl != "", cl + " " + lo + " " + d
}

var c03Seeds = []struct{ cfg, in string }{
	{"core,xhtml", "![a  \nb](u)"},
	{"core,xhtml,hardwraps", "![a\nb](u)"},
	{"core", "![a\\\nb](u)"},
	{"core", "1 < 2\x00"},
	{"core", "![alt \\\" onerror=\\\"alert(1)\x00](i.png)"},
	{"core,attr", "# h {data-x/onclick=\"alert(1)\"}"},
	{"all,attr,xhtml", "# h {#i .c k=\"v<>&\\\"\"}\n\n| a |\n|:-:|\n| b |\n\n- [x] t\n\n[^1]\n\n[^1]: n\n\nt\n: d\n"},
}

// c03Everything renders every vocabulary element at least once.
const c03Everything = "# h1\n## h2\n### h3\n#### h4\n##### h5\n###### h6\n\n> q\n\n    code\n\n- a\n\n1. b\n\n***\n\nx  \ny *e* **s** `c` [l](u) ![i](u) ~~d~~ <b>\n\n| a |\n|:-:|\n| b |\n\n- [x] t\n\nf[^1]\n\n[^1]: n\n\nt\n: d\n"

func runC03(c *core.Ctx) {
	pool := cfg.NewPool()
	safe := append(cfg.Safe(), richSafe()...)
	corpus := loadCorpus(c)
	r := c.Rng
	if c.Shard == 0 {
		for _, s := range c03Seeds {
			c03Check(c, pool, specOf(s.cfg), []byte(s.in))
		}
	}
	for i, sp := range safe {
		if c.Mine(i) && sp.Ext == cfg.ExtAll {
			c03Check(c, pool, sp, []byte(c03Everything))
		}
	}
	// 1. exhaustive short adversarial strings
	L := c.N(3, 4)
	n1 := wl.ShortCount(len(c03Alpha), L)
	nspec := c.N(18, 36)
	for i := 0; i < n1; i++ {
		if !c.Mine(i) {
			continue
		}
		src := []byte(wl.ShortAt(c03Alpha, L, i))
		for k := 0; k < nspec; k++ {
			// 36 (ext, parser option) pairs; HTML5/XHTML and HardWraps alternate
			e := k % 36
			sp := safe[e*4+(i+k)%4]
			if nspec == 18 {
				sp = safe[(2*k+i%2)*4+(i/2+k)%4]
			}
			c03Check(c, pool, sp, src)
		}
	}
	// 2. adversarial soup and mixed documents x random safe configurations
	n2 := c.PerShard(c.N(260000, 9000000))
	for i := 0; i < n2; i++ {
		var src []byte
		switch i % 4 {
		case 0, 1:
			src = wl.SoupFrom(r, c03Tokens, 1+r.Intn(14))
		case 2:
			src = mixDoc(r, corpus)
		default:
			// adversarial fragments spliced into a corpus item
			src = []byte(corpus[r.Intn(len(corpus))].Markdown)
			for k := 1 + r.Intn(3); k > 0; k-- {
				p := r.Intn(len(src) + 1)
				ins := c03Tokens[r.Intn(len(c03Tokens))]
				src = append(src[:p:p], append([]byte(ins), src[p:]...)...)
			}
		}
		for k := 0; k < 2; k++ {
			sp := safe[r.Intn(len(safe))]
			if k == 0 {
				// all-extensions, attribute syntax on, XHTML: the configuration with the largest surface
				sp = cfg.Spec{Ext: cfg.ExtAll, Attribute: true, AutoHeadingID: r.Intn(2) == 0, XHTML: r.Intn(2) == 0, HardWraps: r.Intn(2) == 0}
			}
			c03Check(c, pool, sp, src)
		}
		if c.WantSample() && i%7000 == 9 {
			c.Sample(map[string]any{"input": q(src)})
		}
	}
	// 2b. every HTML5 named character reference (2 123 names) in every place where references are resolved: whatever a
	// reference expands to ('<' plus a combining stroke, a line feed, a tab, two characters) must come out inert
	for i, name := range wl.EntityNames {
		if !c.Mine(i) {
			continue
		}
		e := "&" + name
		doc := "t " + e + "x\n\n# h " + e + "img src=x {title=\"" + e + "\"}\n\n[l](/u?" + e + " \"" + e + "y\") ![" + e + "z](/i)\n\n``` " + e + "\ncode\n```\n\n| " + e + " |\n|---|\n| `" + e + "` |\n\n[r" + e + "]\n\n[r" + e + "]: /d" + e + " '" + e + "'\n"
		for _, sp := range []cfg.Spec{{Ext: cfg.ExtAll, Attribute: true, XHTML: true}, {Ext: cfg.ExtCore}, {Ext: cfg.ExtAll, AutoHeadingID: true, HardWraps: true}} {
			c03Check(c, pool, sp, []byte(doc))
		}
		c.Count("named_references_in_all_contexts", 1)
	}
	// 3. attribute blocks on the constructs that accept them: allowed names, look-alikes that collide with an allowed name
	// under the hash of the allow-list (wl.HashTwins), foreign names, hostile values
	n3 := c.PerShard(c.N(120000, 4000000))
	for i := 0; i < n3; i++ {
		var src []byte
		ab := wl.AttrBlockWith(r, 2)
		switch r.Intn(5) {
		case 0:
			src = append(append([]byte("Setext \"<&"), ab...), "\n===\n"...)
		case 1:
			src = append(append([]byte("```go"), ab...), "\n<b>\n```\n"...)
		case 2:
			src = append(append([]byte("> ## a *b*"), ab...), "\n"...)
		default:
			src = append(append([]byte("# h"), ab...), "\n"...)
		}
		sp := cfg.Spec{Ext: []int{cfg.ExtCore, cfg.ExtAll, cfg.ExtGFM}[r.Intn(3)], Attribute: true, AutoHeadingID: r.Intn(2) == 0, XHTML: r.Intn(2) == 0}
		c03Check(c, pool, sp, src)
		c.Count("attribute_block_documents", 1)
	}
	c03Arena(c, pool, safe)
	c03Truncated(c, pool)
}

// c03Truncated: a multi-byte UTF-8 sequence cut short (lead byte alone, or lead plus some continuation bytes) directly
// before a markup-significant character, in every place whose value is escaped on the way out. An escaper that steps over
// "the rest of the character" by the length its lead byte announces jumps over exactly that significant byte.
func c03Truncated(c *core.Ctx, pool *cfg.Pool) {
	leads := []string{"\xc2", "\xdf", "\xe0", "\xe2", "\xef", "\xf0", "\xf4", "\xf7", "\xe2\x82", "\xf0\x9f", "\xf0\x9f\x98", "\xc3\xc3", "\xf8", "\xfc"}
	sigs := []string{"\"", "<", ">", "&", "\\\"", "<script>", "\" onx=\"1", "&x", "&#x3c;", "'"}
	specs := []cfg.Spec{{Ext: cfg.ExtCore}, {Ext: cfg.ExtAll, Attribute: true, XHTML: true}, {Ext: cfg.ExtGFM, Attribute: true, AutoHeadingID: true, HardWraps: true}}
	k := 0
	for _, tm := range c03ArenaTmpl {
		for _, l := range leads {
			for _, sg := range sigs {
				k++
				if !c.Mine(k) {
					continue
				}
				payload := l + sg + "x" + l + sg
				doc := []byte(strings.ReplaceAll(tm, "%P", payload))
				for _, sp := range specs {
					c03Check(c, pool, sp, doc)
				}
				c.Count("truncated_multibyte_before_significant_character", 1)
			}
		}
	}
}

// c03Arena: a caller that recycles its read buffer. Document A puts a harmless payload into a slot (destination, title,
// description, info string, attribute value, label, cell, text); it is converted from the buffer; the buffer is overwritten
// with a document of the same length that has markup-significant bytes exactly where the payload was; then A is converted
// again, from a slice of its own and from the buffer. Anything the instance kept of the first conversion that still points
// into the buffer now reads those bytes - and must not reach the output unescaped. Every output goes through the tokenizer.
var c03ArenaTmpl = []string{"<a@b.c%P>", "<%P@b.c>", "# h {.%P}", "# h {k=%P}", "# h {k='%P'}", "``` a %P\ncode\n```", "~~%P~~", "[a](/%P)", "![a](/%P)", "[a](/u \"%P\")", "![%P](/u)", "```%P\ncode\n```", "# h {#%P}", "# h {title=\"%P\"}", "<http://a.b/%P>",
	"[a][r]\n\n[r]: /%P 'x'", "[a][r]\n\n[r]: /u '%P'", "| %P |\n|---|\n| b |", "x[^1]\n\n[^1]: %P", "`%P`", "*%P*", "%P", "## %P", "- [x] %P", "t\n: %P", "[%P]\n\n[%P]: /u",
	"[a](%P)", "![a](%P 'x')", "www.a.b/%P", "http://a.b/%P"}
var c03ArenaHostile = []string{"\"><script>alert(1)</scri", "x\" onmouseover=\"alert(1)", "<!-- c --><b onx=1>&bog;", "'><img src=x onerror=al>", "&#0;&#xD800;\"<\">&&&&&&<<<"}

var c03ArenaNameTmpl = []string{"# h {%N=x}", "# h {%N=\"v w\"}", "Setext {%N=x}\n===\n", "## a {.c %N=y}\n\ntext", "```go {%N=x}\ncode\n```\n", "# h {%N}", "> # q {%N=1}"}
var c03ArenaNames = [][2]string{{"title", "oncut"}, {"style", "oncut"}, {"class", "onerr"}, {"hidden", "onblur"}, {"lang", "onab"}, {"dir", "zzz"}, {"id", "on"}, {"tabindex", "onchange"}, {"data-x", "onclik"}, {"translate", "onkeydown"}}

func c03Arena(c *core.Ctx, pool *cfg.Pool, safe []cfg.Spec) {
	r := c.Rng
	a := &srcArena{}
	const harmless = "abcdefghijklmnopqrstuvwx"
	n := c.PerShard(c.N(12000, 600000))
	for i := 0; i < n; i++ {
		tm := c03ArenaTmpl[r.Intn(len(c03ArenaTmpl))]
		hs := c03ArenaHostile[r.Intn(len(c03ArenaHostile))]
		hs = padTo(hs, len(harmless), '"')
		docA := []byte(strings.ReplaceAll(tm, "%P", harmless))
		docB := []byte(strings.ReplaceAll(tm, "%P", hs))
		nameSlot := i%4 == 1
		if nameSlot {
			// the slot is an attribute NAME: a name the allow-list accepts, then - same length, same place - one it must reject
			pair := c03ArenaNames[r.Intn(len(c03ArenaNames))]
			nt := c03ArenaNameTmpl[r.Intn(len(c03ArenaNameTmpl))]
			docA = []byte(strings.ReplaceAll(nt, "%N", pair[0]))
			docB = []byte(strings.ReplaceAll(nt, "%N", pair[1]))
		}
		sp := safe[r.Intn(len(safe))]
		if nameSlot {
			sp = cfg.Spec{Ext: []int{cfg.ExtCore, cfg.ExtAll, cfg.ExtGFM}[r.Intn(3)], Attribute: true, AutoHeadingID: r.Intn(2) == 0, XHTML: r.Intn(2) == 0}
		} else if i%3 == 0 {
			sp = cfg.Spec{Ext: cfg.ExtAll, Attribute: true, AutoHeadingID: r.Intn(2) == 0, XHTML: r.Intn(2) == 0, HardWraps: r.Intn(2) == 0}
		}
		name := sp.Name()
		md := pool.Get(sp)
		steps := []arenaStep{{Doc: docA}, {Doc: docB}, {Doc: docA, Fresh: true}, {Doc: docA}}
		c.Begin(name, docA)
		outs := arenaRun(md, a, steps)
		c.End()
		c.Evals(len(steps))
		c.Count("recycled_buffer_histories", 1)
		for si, o := range outs {
			if o == nil {
				c.Count("conversion_failed_left_to_C01", 1)
				continue
			}
			c.Count("outputs_tokenized", 1)
			cl, lo, d := c03Verdict(sp, o, nil)
			if cl == "" {
				continue
			}
			c.Violation(&core.Violation{Class: cl, Locus: lo + ":recycled-source-buffer", Config: name, Input: steps[si].Doc, Script: arenaScript(steps),
				Detail: fmt.Sprintf("one instance, the caller reuses its source buffer between conversions:\n%sstep %d: %s\noutput: %s", arenaDescribe(steps), si+1, d, q(o))})
		}
	}
}
