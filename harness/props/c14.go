package props

import (
	"bufio"
	"bytes"
	"errors"
	"fmt"
	"io"
	"strings"

	"github.com/yuin/goldmark"
	"github.com/yuin/goldmark/ast"
	"github.com/yuin/goldmark/renderer"
	"github.com/yuin/goldmark/text"
	"github.com/yuin/goldmark/util"

	"verif/cfg"
	"verif/core"
	"verif/wl"
)

// C14 — writer failures surface as errors and never corrupt what was written (fault enumeration).

func init() {
	register(&Prop{
		ID:    "C14",
		Level: "fault_enumeration",
		Rule: "cases = (configuration, document, writer variant, fault offset k): the destination accepts exactly k bytes and then fails forever (or once). " +
			"For outputs <= 2048 bytes EVERY offset k in [0,len] is enumerated; larger outputs use all offsets near 0, near the end, near every 4096-byte buffer boundary, plus random ones. " +
			"Oracle: no panic; error non-nil iff the output did not fit; errors.Is(err, injected); accepted bytes are a prefix of the fault-free output. " +
			"distinct_nontrivial = distinct (document, writer variant, offset) triples with 0 < k < len(output) (hash-counted).",
		Assumptions: []string{
			"the fault-free output of the same instance is the reference for the prefix check (purity is C06's business)",
			"a writer that returns (n<len(p), err) models a partially successful write; io.Writer's contract is respected by all variants",
		},
		Run: runC14,
		Exhaustive: func(tier string) string {
			return "for every document whose output is <= 2048 bytes: every fault offset 0..len(output) for each writer variant"
		},
		Floors: func(m *Merged) []string {
			var out []string
			if m.Counters["docs_fully_enumerated"] == 0 {
				out = append(out, "no document was enumerated completely")
			}
			if m.Counters["docs_large"] == 0 {
				out = append(out, "no document with output > 8192 bytes")
			}
			for _, v := range []string{"plain", "bufio16", "bufio4096", "bufio65536", "every-call", "one-byte", "fail-once", "render-plain", "uncomparable-error", "string-writer", "buffer-like", "custom-bufwriter"} {
				if m.Sets["writer_variants"][v] == 0 {
					out = append(out, "writer variant never used: "+v)
				}
			}
			return out
		},
	})
}

var errC14 = errors.New("verif: injected writer failure")

// c14SliceErr is a writer error of an uncomparable dynamic type (the shape of a multi-error): comparing it with == panics,
// errors.Is must go through its Is method.
type c14SliceErr []error

func (e c14SliceErr) Error() string {
	return "verif: injected writer failure (list of " + fmt.Sprint(len(e)) + ")"
}
func (e c14SliceErr) Is(t error) bool {
	x, ok := t.(c14SliceErr)
	return ok && len(x) == len(e) && len(e) > 0 && e[0] == x[0]
}

var errC14Slice = c14SliceErr{errC14, errors.New("second")}

// failWriter accepts exactly limit bytes in total, then returns errC14 (forever, or once when once is set).
type failWriter struct {
	limit    int
	got      []byte
	once     bool
	failed   int
	sliceErr bool // the error returned is of an uncomparable type
	perCall  int  // >0: accept at most perCall bytes per Write call (legal short-write-free chunking is done by returning full count)
	calls    int
	everyErr bool // fail on every call from the start
	otherErr bool // the error returned is errC14Other (a writer of an earlier, unrelated conversion)
}

func (w *failWriter) Write(p []byte) (int, error) {
	w.calls++
	if w.everyErr {
		w.failed++
		return 0, errC14
	}
	if w.once && w.failed > 0 {
		w.got = append(w.got, p...)
		return len(p), nil
	}
	room := w.limit - len(w.got)
	if len(p) <= room {
		w.got = append(w.got, p...)
		return len(p), nil
	}
	if room < 0 {
		room = 0
	}
	w.got = append(w.got, p[:room]...)
	w.failed++
	if w.sliceErr {
		return room, errC14Slice
	}
	if w.otherErr {
		return room, errC14Other
	}
	return room, errC14
}

var errC14Other = errors.New("verif: injected failure of the writer of an EARLIER conversion")

// Writers that offer more than Write. goldmark may look for optional methods on the destination (io.StringWriter,
// io.ByteWriter, a Flush method, the whole util.BufWriter set); whatever route it then takes, a failure must still surface.
// All methods share the byte budget of the embedded failWriter and fail the same way.
type stringFailWriter struct{ *failWriter }

func (w stringFailWriter) WriteString(s string) (int, error) { return w.Write([]byte(s)) }

type bufferLikeFailWriter struct{ *failWriter }

func (w bufferLikeFailWriter) WriteString(s string) (int, error) { return w.Write([]byte(s)) }
func (w bufferLikeFailWriter) WriteByte(b byte) error {
	_, err := w.Write([]byte{b})
	return err
}
func (w bufferLikeFailWriter) WriteRune(r rune) (int, error) { return w.Write([]byte(string(r))) }

// customBufWriter implements util.BufWriter itself, unbuffered, with bufio's contract: the first error sticks, every later
// write returns it, and so does Flush.
type customBufWriter struct {
	*failWriter
	sticky error
}

func (w *customBufWriter) Write(p []byte) (int, error) {
	if w.sticky != nil {
		return 0, w.sticky
	}
	n, err := w.failWriter.Write(p)
	if err != nil {
		w.sticky = err
	}
	return n, err
}
func (w *customBufWriter) WriteString(s string) (int, error) { return w.Write([]byte(s)) }
func (w *customBufWriter) WriteByte(b byte) error {
	_, err := w.Write([]byte{b})
	return err
}
func (w *customBufWriter) WriteRune(r rune) (int, error) { return w.Write([]byte(string(r))) }
func (w *customBufWriter) Available() int                { return 0 }
func (w *customBufWriter) Buffered() int                 { return 0 }
func (w *customBufWriter) Flush() error                  { return w.sticky }

// oneByteWriter is legal but slow: it accepts everything one byte per underlying call (never fails).
type oneByteWriter struct{ got []byte }

func (w *oneByteWriter) Write(p []byte) (int, error) {
	for i := range p {
		w.got = append(w.got, p[i])
	}
	return len(p), nil
}

type c14Case struct {
	md      goldmark.Markdown
	cfgName string
	src     []byte
	ref     []byte
	// node (optional): Render is called for this node of the parsed tree - a subtree, as a caller does that renders one
	// section of a document - instead of Convert / Render of the root; ref is then the fault-free output for that node
	node ast.Node
}

func c14Offsets(c *core.Ctx, n int) ([]int, bool) {
	if n <= 2048 {
		out := make([]int, n+1)
		for i := range out {
			out[i] = i
		}
		return out, true
	}
	set := map[int]bool{}
	for k := 0; k <= 64; k++ {
		set[k] = true
		set[n-k] = true
	}
	for j := 4096; j < n+4096; j += 4096 {
		for d := -2; d <= 2; d++ {
			if k := j + d; k >= 0 && k <= n {
				set[k] = true
			}
		}
	}
	for i := 0; i < 64; i++ {
		set[c.Rng.Intn(n+1)] = true
	}
	out := make([]int, 0, len(set))
	for k := range set {
		out = append(out, k)
	}
	return out, false
}

func c14Violation(c *core.Ctx, k c14Case, variant string, off int, class, detail string) {
	c.Violation(&core.Violation{Class: class, Locus: variant, Config: k.cfgName, Input: k.src,
		Script: map[string]any{"writer": variant, "fault_offset": off, "output_len": len(k.ref)},
		Detail: fmt.Sprintf("writer=%s fault offset=%d of %d output bytes: %s", variant, off, len(k.ref), detail)})
}

// c14Run executes one faulted conversion and applies the oracle.
func c14Run(c *core.Ctx, k c14Case, variant string, off int) { c14RunAs(c, k, variant, off, variant) }

// c14RunAs: label is what violations are filed under (the writer variant, or the variant within a history).
func c14RunAs(c *core.Ctx, k c14Case, variant string, off int, label string) {
	fw := &failWriter{limit: off}
	var dst io.Writer = fw
	var flush func() error
	useRender := false
	switch variant {
	case "plain":
	case "render-plain":
		useRender = true
	case "bufio16", "bufio4096", "bufio65536":
		size := map[string]int{"bufio16": 16, "bufio4096": 4096, "bufio65536": 65536}[variant]
		bw := bufio.NewWriterSize(fw, size)
		dst = bw // a util.BufWriter: Render uses it directly and flushes it
		useRender = off%2 == 0
	case "string-writer":
		dst = stringFailWriter{fw}
		useRender = off%3 == 0
	case "buffer-like":
		dst = bufferLikeFailWriter{fw}
		useRender = off%3 == 0
	case "custom-bufwriter":
		dst = &customBufWriter{failWriter: fw}
		useRender = off%2 == 0
	case "every-call":
		fw.everyErr = true
	case "fail-once":
		fw.once = true
	case "uncomparable-error":
		fw.sliceErr = true
	}
	_ = flush
	var err error
	c.Begin(k.cfgName, k.src)
	pv, st := core.Try(func() {
		if k.node != nil {
			err = k.md.Renderer().Render(dst, k.src, k.node)
		} else if useRender {
			doc := k.md.Parser().Parse(text.NewReader(k.src))
			err = k.md.Renderer().Render(dst, k.src, doc)
		} else {
			err = k.md.Convert(k.src, dst)
		}
	})
	c.End()
	c.Eval()
	c.Observe("writer_variants", variant)
	if off > 0 && off < len(k.ref) {
		c.Sig(core.Hash64(k.src, []byte(variant), []byte(fmt.Sprint(off))))
	}
	if pv != nil {
		c14Violation(c, k, label, off, "panic-on-writer-failure", fmt.Sprintf("panic: %v\n%s", pv, trimStack(st)))
		return
	}
	mustFail := off < len(k.ref) || variant == "every-call" && len(k.ref) > 0
	if variant == "every-call" && len(k.ref) == 0 {
		mustFail = false
	}
	if mustFail {
		c.Count("faults_hit", 1)
		if err == nil {
			c14Violation(c, k, label, off, "success-reported-after-writer-failure", fmt.Sprintf("returned nil although the writer failed %d time(s) and accepted only %d bytes", fw.failed, len(fw.got)))
			return
		}
		if want := error(errC14); !errors.Is(err, func() error {
			if fw.sliceErr {
				return errC14Slice
			}
			return want
		}()) {
			c14Violation(c, k, label, off, "error-not-wrapping-writer-error", fmt.Sprintf("returned %q which does not wrap the writer's error", err.Error()))
			return
		}
	} else {
		c.Count("faults_not_reached", 1)
		if err != nil {
			c14Violation(c, k, label, off, "error-without-writer-failure", fmt.Sprintf("returned %q although the writer never failed", err.Error()))
			return
		}
		// success means the whole output was delivered
		if variant != "fail-once" && !bytes.Equal(fw.got, k.ref) {
			c14Violation(c, k, label, off, "success-reported-but-output-incomplete", fmt.Sprintf("returned nil and the writer never failed, but it received %d of %d bytes: %s", len(fw.got), len(k.ref), q(fw.got)))
			return
		}
	}
	if variant == "fail-once" {
		// after the single failure the writer accepts everything; what it holds must still start with the prefix accepted before the failure
		pre := off
		if pre > len(k.ref) {
			pre = len(k.ref)
		}
		if len(fw.got) < pre || !bytes.Equal(fw.got[:pre], k.ref[:pre]) {
			c14Violation(c, k, label, off, "accepted-bytes-not-a-prefix", fmt.Sprintf("bytes accepted before the failure differ from the fault-free output: %s", q(fw.got)))
		}
		return
	}
	if !bytes.HasPrefix(k.ref, fw.got) {
		c14Violation(c, k, label, off, "accepted-bytes-not-a-prefix", fmt.Sprintf("accepted %s which is not a prefix of the fault-free output %s", q(fw.got), q(k.ref)))
	}
}

type c14ProbeKindNode struct {
	ast.BaseInline
}

var c14ErrKind = ast.NewNodeKind("VerifErrProbe")

func (n *c14ProbeKindNode) Kind() ast.NodeKind         { return c14ErrKind }
func (n *c14ProbeKindNode) Dump(src []byte, level int) {}

var errC14Node = errors.New("verif: injected node renderer failure")

type c14ErrRenderer struct {
	failAt int
	count  *int
}

func (r *c14ErrRenderer) RegisterFuncs(reg renderer.NodeRendererFuncRegisterer) {
	reg.Register(ast.KindText, func(w util.BufWriter, source []byte, n ast.Node, entering bool) (ast.WalkStatus, error) {
		if entering {
			*r.count++
			if *r.count == r.failAt {
				return ast.WalkContinue, errC14Node
			}
			_, _ = w.Write(n.(*ast.Text).Segment.Value(source))
		}
		return ast.WalkContinue, nil
	})
}

// c14NestRenderer overrides the thematic break: mode 0 writes <hr>, mode 1 fails with errC14Node, mode 2 first renders
// another (already parsed) document on the SAME Markdown instance into a buffer of its own - a Render nested in a Render, as
// a node renderer that embeds a rendered sub-document does - and then writes <hr>.
type c14NestRenderer struct {
	md       *goldmark.Markdown
	mode     *int
	innerSrc []byte
	innerDoc ast.Node
	nested   *int
}

func (r *c14NestRenderer) RegisterFuncs(reg renderer.NodeRendererFuncRegisterer) {
	reg.Register(ast.KindThematicBreak, func(w util.BufWriter, source []byte, n ast.Node, entering bool) (ast.WalkStatus, error) {
		if !entering {
			return ast.WalkContinue, nil
		}
		switch *r.mode {
		case 1:
			return ast.WalkContinue, errC14Node
		case 2:
			var inner bytes.Buffer
			_ = (*r.md).Renderer().Render(&inner, r.innerSrc, r.innerDoc)
			*r.nested++
		}
		_, _ = w.WriteString("<hr>\n")
		return ast.WalkContinue, nil
	})
}

// c14Histories: failures in a history. One instance first goes through conversions that END WITH A NODE RENDERER ERROR (the
// error exits of Render), then converts documents into failing writers while a node renderer renders a sub-document on the
// same instance in the middle of the outer Render. The oracle is the one of every other case: the writer's failure surfaces,
// what the writer accepted is a prefix.
func c14Histories(c *core.Ctx) {
	r := c.Rng
	n := c.PerShard(c.N(64, 3200))
	for h := 0; h < n; h++ {
		mode, nested := 0, 0
		var md goldmark.Markdown
		nr := &c14NestRenderer{md: &md, mode: &mode, nested: &nested, innerSrc: []byte("inner *doc* with `code`\n\n- and a list\n")}
		md = goldmark.New(goldmark.WithRendererOptions(renderer.WithNodeRenderers(util.Prioritized(nr, 10))))
		nr.innerDoc = md.Parser().Parse(text.NewReader(nr.innerSrc))
		// D: enough output before the break that the outer writer has been flushed at least once, and some after it
		before := 100 + r.Intn(12000)
		if h%3 == 0 {
			before = 4096 + r.Intn(600)
		}
		src := []byte(strings.Repeat("lorem *ipsum* dolor\n", before/28+1) + "\n***\n\ntail `x`\n\n***\n\nend\n")
		mode = 0
		ref := convert(md, src)
		if !ref.OK() {
			continue
		}
		k := c14Case{md: md, cfgName: "core+probe(thematic break: fail / nested render)", src: src, ref: ref.Out}
		nerr := r.Intn(4)
		if h%5 == 0 {
			nerr = 0
		}
		for e := 0; e < nerr; e++ {
			mode = 1
			// the destination of such a conversion is healthy, or fails before / at / after the point where the node renderer
			// gives up (both failures in one call)
			var sink io.Writer = &bytes.Buffer{}
			esrc := []byte("a\n\n***\n\nb\n")
			if x := r.Intn(4); x > 0 {
				// (its own error value: a later conversion that reports THIS error reports somebody else's failure)
				sink = &failWriter{limit: []int{0, 3, 9, 4000}[r.Intn(4)], otherErr: true}
				if x == 3 {
					esrc = append([]byte(strings.Repeat("long line before the break ", 200)+"\n\n"), esrc...)
				}
				c.Count("history_conversions_with_node_renderer_error_and_failing_writer", 1)
			}
			var err error
			pv, st := core.Try(func() { err = md.Convert(esrc, sink) })
			c.Eval()
			c.Count("history_conversions_ending_with_node_renderer_error", 1)
			if pv != nil {
				c.Violation(&core.Violation{Class: "panic-on-renderer-error", Locus: "node-renderer:history", Input: src, Detail: fmt.Sprintf("%v\n%s", pv, trimStack(st))})
			} else if !errors.Is(err, errC14Node) && !errors.Is(err, errC14Other) {
				c.Violation(&core.Violation{Class: "renderer-error-lost", Locus: "node-renderer:history", Input: src, Detail: fmt.Sprintf("the node renderer failed but Convert returned %v", err)})
			}
		}
		offs, _ := c14Offsets(c, len(ref.Out))
		if len(offs) > 160 {
			r.Shuffle(len(offs), func(i, j int) { offs[i], offs[j] = offs[j], offs[i] })
			offs = offs[:160]
		}
		offs = append(offs, len(ref.Out), len(ref.Out)+100, len(ref.Out), len(ref.Out))
		if h%2 == 0 {
			// a healthy destination directly after the conversions that went wrong
			offs[0] = len(ref.Out) + 1
		}
		for i, off := range offs {
			mode = 2
			if i%4 == 3 {
				mode = 0
			}
			variant := []string{"plain", "render-plain", "bufio4096", "buffer-like"}[i%4]
			tag := fmt.Sprintf("history(%d node renderer errors before; nested render=%v):%s", nerr, mode == 2, variant)
			c14RunAs(c, k, variant, off, tag)
			c.Count("history_faulted_conversions", 1)
		}
		c.Count("history_nested_renders", int64(nested))
		c.Count("histories", 1)
	}
}

// c14Subtrees: Render called for a node inside a tree (the first block, a list, a block quote, a nested paragraph), into every
// kind of destination, with every fault offset: the same oracle as for whole documents.
func c14Subtrees(c *core.Ctx) {
	r := c.Rng
	docs := []string{
		"# title\n\n" + strings.Repeat("a paragraph with *emphasis* and `code` and a [link](/u) in it\n", 30) + "\n> quote\n> - item one\n> - item two\n\n1. first\n2. second " + strings.Repeat("long ", 900) + "\n\nlast\n",
		"- a\n- b\n\n  " + strings.Repeat("word ", 1200) + "\n\n```\n" + strings.Repeat("code line\n", 500) + "```\n",
		"short\n\n> q\n",
	}
	specs := []cfg.Spec{{Ext: cfg.ExtCore}, {Ext: cfg.ExtAll, Unsafe: true, XHTML: true}}
	variants := []string{"render-plain", "bufio16", "bufio4096", "bufio65536", "custom-bufwriter", "buffer-like", "string-writer", "uncomparable-error"}
	k := 0
	for _, sp := range specs {
		md := sp.Build()
		for _, d := range docs {
			src := []byte(d)
			doc := md.Parser().Parse(text.NewReader(src))
			var nodes []ast.Node
			_ = ast.Walk(doc, func(n ast.Node, entering bool) (ast.WalkStatus, error) {
				if entering && n.Parent() != nil && n.Type() == ast.TypeBlock {
					nodes = append(nodes, n)
				}
				return ast.WalkContinue, nil
			})
			for _, n := range nodes {
				k++
				if !c.Mine(k) {
					continue
				}
				var ref bytes.Buffer
				if err := md.Renderer().Render(&ref, src, n); err != nil {
					continue
				}
				kc := c14Case{md: md, cfgName: sp.Name(), src: src, ref: append([]byte(nil), ref.Bytes()...), node: n}
				offs, _ := c14Offsets(c, len(kc.ref))
				if len(offs) > 200 {
					r.Shuffle(len(offs), func(i, j int) { offs[i], offs[j] = offs[j], offs[i] })
					offs = append(offs[:200], len(kc.ref), len(kc.ref)+7)
				}
				for _, v := range variants {
					for _, off := range offs {
						c14RunAs(c, kc, v, off, "subtree("+n.Kind().String()+"):"+v)
					}
				}
				c.Count("subtrees_rendered_with_fault_enumeration", 1)
			}
		}
	}
}

func runC14(c *core.Ctx) {
	defer c14Histories(c)
	defer c14Subtrees(c)
	corpus := loadCorpus(c)
	r := c.Rng
	specs := []cfg.Spec{{Ext: cfg.ExtCore}, {Ext: cfg.ExtGFM, XHTML: true}, {Ext: cfg.ExtAll, AutoHeadingID: true, Attribute: true}, {Ext: cfg.ExtFootnote, Unsafe: true},
		{Ext: cfg.ExtAll, Unsafe: true, HardWraps: true}, {Ext: cfg.ExtTypographer}}
	pool := cfg.NewPool()
	ndocs := c.PerShard(c.N(640, 32000))
	variants := []string{"plain", "render-plain", "bufio16", "bufio4096", "bufio65536", "fail-once", "uncomparable-error", "string-writer", "buffer-like", "custom-bufwriter"}
	for i := 0; i < ndocs; i++ {
		var src []byte
		switch {
		case i%10 == 0:
			// large output (several bufio buffers)
			for len(src) < 9000+r.Intn(20000) {
				src = append(src, corpus[r.Intn(len(corpus))].Markdown...)
				src = append(src, "\n\n"...)
			}
		case i%3 == 0:
			src = wl.Soup(r, 25)
		default:
			src = []byte(corpus[r.Intn(len(corpus))].Markdown)
			if r.Intn(2) == 0 {
				src = wl.Mutate(r, src, nil)
			}
		}
		spec := specs[r.Intn(len(specs))]
		md := pool.Get(spec)
		ref := convert(md, src)
		if !ref.OK() {
			c.Count("reference_conversion_failed_left_to_C01", 1)
			continue
		}
		k := c14Case{md: md, cfgName: spec.Name(), src: src, ref: ref.Out}
		offs, full := c14Offsets(c, len(ref.Out))
		if full {
			c.Count("docs_fully_enumerated", 1)
		}
		if len(ref.Out) > 8192 {
			c.Count("docs_large", 1)
		}
		for _, v := range variants {
			for _, off := range offs {
				c14Run(c, k, v, off)
			}
		}
		c14Run(c, k, "every-call", 0)
		// one-byte-per-call writer: legal, must succeed with identical bytes
		ob := &oneByteWriter{}
		var err error
		pv, _ := core.Try(func() { err = md.Convert(src, ob) })
		c.Eval()
		c.Observe("writer_variants", "one-byte")
		if pv != nil || err != nil || !bytes.Equal(ob.got, ref.Out) {
			c14Violation(c, k, "one-byte", -1, "slow-writer-mishandled", fmt.Sprintf("panic=%v err=%v equal=%v", pv, err, bytes.Equal(ob.got, ref.Out)))
		}
		c.Count("fault_offsets_enumerated", int64(len(offs)*len(variants)))
		c.Count("documents", 1)
		if c.WantSample() && i%40 == 1 {
			c.Sample(map[string]any{"config": spec.Name(), "input": q(src), "output_len": len(ref.Out), "offsets": len(offs), "complete": full})
		}
	}
	// a node renderer that returns an error at the n-th text node: Render must return that error
	if c.Mine(0) || true {
		docs := []string{"a *b* c\n\nd\n", "- x\n- y\n\n> z\n", strings.Repeat("w ", 50) + "\n"}
		for _, d := range docs {
			for n := 1; n <= 6; n++ {
				cnt := 0
				md := goldmark.New(goldmark.WithRendererOptions(renderer.WithNodeRenderers(util.Prioritized(&c14ErrRenderer{failAt: n, count: &cnt}, 10))))
				var buf bytes.Buffer
				var err error
				pv, st := core.Try(func() { err = md.Convert([]byte(d), &buf) })
				c.Eval()
				c.Count("node_renderer_error_cases", 1)
				want := cnt >= n
				switch {
				case pv != nil:
					c.Violation(&core.Violation{Class: "panic-on-renderer-error", Locus: "node-renderer", Input: []byte(d), Detail: fmt.Sprintf("%v\n%s", pv, trimStack(st))})
				case want && !errors.Is(err, errC14Node):
					c.Violation(&core.Violation{Class: "renderer-error-lost", Locus: "node-renderer", Input: []byte(d), Detail: fmt.Sprintf("node renderer failed at text node %d but Convert returned %v", n, err)})
				case !want && err != nil:
					c.Violation(&core.Violation{Class: "error-without-failure", Locus: "node-renderer", Input: []byte(d), Detail: fmt.Sprintf("Convert returned %v", err)})
				}
			}
		}
	}
}
