package props

import (
	"bytes"
	"fmt"
	"github.com/yuin/goldmark"
	"github.com/yuin/goldmark/parser"
	"github.com/yuin/goldmark/text"
	"time"

	"verif/cfg"
	"verif/core"
	"verif/wl"
)

// C01 — conversion is total: no panic, nil error, terminates.

func init() {
	register(&Prop{
		ID:    "C01",
		Level: "exploration",
		Rule: "cases = (configuration, source). Sources: every string of length<=L over Markdown-significant alphabets (exhaustive), " +
			"token soup, the repository corpus and mutations of it, and scalable pathological families; configurations from the 288-point lattice " +
			"{9 extension sets}x{AutoHeadingID,Attribute}x{Unsafe,XHTML,HardWraps}. A case is non-trivial when its parsed AST has a node other than " +
			"Document/Paragraph/Text; distinct = distinct (AST shape signature of the first 64 nodes in pre-order, configuration's extension set).",
		Assumptions: []string{
			"recover() observes every Go panic raised on the calling goroutine; fatal runtime errors and hangs are caught by the driver via the crash slot and an isolated replay under RLIMIT_CPU",
			"termination is decided on consumed CPU time of the isolated replay (limit 150 CPU-s, inputs <= 256 KiB), never on wall-clock time",
		},
		Run:    runC01,
		Replay: replayC01,
		Floors: func(m *Merged) []string {
			var out []string
			if n := len(m.Sets["configs"]); m.Tier == "thorough" && n < 288 || n < 100 {
				out = append(out, fmt.Sprintf("only %d configurations were exercised", n))
			}
			if len(m.Sets["node_kinds"]) < 25 {
				out = append(out, fmt.Sprintf("only %d node kinds were reached", len(m.Sets["node_kinds"])))
			}
			return out
		},
		Exhaustive: func(tier string) string {
			if tier == "thorough" {
				return "all strings of length<=5 over the 18-unit alphabet x all 288 configurations; all strings of length<=3 over the 46-unit alphabet x all 288 configurations, length 4 x 36 configurations (parser side complete, renderer flags rotating). Everything else is sampled."
			}
			return "all strings of length<=4 over the 14-unit alphabet x 16 seed-chosen configurations; all strings of length<=2 over the 46-unit alphabet x all 288 configurations, length 3 x 36 configurations (parser side complete, renderer flags rotating). Everything else is sampled."
		},
	})
}

// c01Seeds are regression inputs (witnesses of repaired defects and hand-picked hostile inputs).
var c01Seeds = []struct{ cfg, in string }{
	{"cjk-simple", "\x80\x80\n\x80\x80"},
	{"cjk-css3", "\x80\n\x80"},
	{"all,autoid,attr,xhtml,hardwraps", "\x80\x80\n\x80\x80"},
	{"all", "![a  \nb](u)"},
	{"gfm", "| a |\n|---|\n"},
	{"all", "- Foo\n--"},
	{"core", "[a]: <"},
	{"footnote", "[^a]: x\n\n![^a]"},
}

func c01Check(c *core.Ctx, pool *cfg.Pool, spec cfg.Spec, src []byte, also bool) {
	name := spec.Name()
	md := pool.Get(spec)
	c.Begin(name, src)
	t0 := time.Now()
	res := parseRender(md, src)
	dt := time.Since(t0)
	c.End()
	c.Eval()
	c.Observe("configs", name)
	if dt > 200*time.Millisecond {
		c.Max("slowest_case_ms", dt.Milliseconds())
		c.Max("slowest_case_len", int64(len(src)))
	}
	if res.Panic != nil {
		c01Report(c, spec, src, "panic-"+res.Phase, panicLocus(res.Panic, res.Stack), fmt.Sprintf("panic: %v\n%s", res.Panic, res.Stack))
		return
	}
	if res.Err != nil {
		c01Report(c, spec, src, "error-with-good-writer", stripDigits(res.Err.Error()), res.Err.Error())
		return
	}
	if res.Doc != nil {
		observeShape(c, res.Doc, extName(spec))
	}
	if also {
		c.Begin(name, src)
		r2 := convert(md, src)
		c.End()
		c.Eval()
		c.Count("convert_calls", 1)
		if r2.Panic != nil {
			c01Report(c, spec, src, "panic-convert", panicLocus(r2.Panic, r2.Stack), fmt.Sprintf("panic: %v\n%s", r2.Panic, r2.Stack))
		} else if r2.Err != nil {
			c01Report(c, spec, src, "error-with-good-writer", stripDigits(r2.Err.Error()), r2.Err.Error())
		} else if !bytes.Equal(r2.Out, res.Out) {
			// both succeeded but disagree: reported here only as an observation, C06 decides it.
			c.Count("convert_vs_parse_render_diff", 1)
		}
	}
}

var c01CtxDocs = []string{
	"\"quoted\" 'single' it's '90s -- --- ... << >>\n\n# h {#i .c}\n\n# h\n\nx[^1] [ref] <http://a.b> www.c.d\n\n[^1]: n\n\n[ref]: /u 't'\n\n| a |\n|:-:|\n| ~~b~~ |\n\n- [x] t\n\nterm\n: def\n\n```go\ncode\n```\n\nあ\nい\\ x\n",
	"'a\n", "\"a\n\n\"b\n", "[^1]: only a definition\n", "[^2]\n", "# same\n\n# same\n", "- \n\n  x\n", "```\nopen fence",
}

func c01Contexts(c *core.Ctx) {
	specs := append(cfg.All(), cfg.RichSpecs()...)
	for si, sp := range specs {
		if !c.Mine(si) {
			continue
		}
		for order := 0; order < 3; order++ {
			var md goldmark.Markdown
			var ctx parser.Context
			switch order {
			case 0: // the context exists before the instance does
				ctx = parser.NewContext()
				md = sp.Build()
			case 1: // the usual order
				md = sp.Build()
				ctx = parser.NewContext()
			default: // a context that has served another instance of the same configuration, and an instance built in between
				ctx = parser.NewContext()
				first := sp.Build()
				_, _ = core.Try(func() { first.Parser().Parse(text.NewReader([]byte(c01CtxDocs[0])), parser.WithContext(ctx)) })
				md = sp.Build()
			}
			for _, d := range c01CtxDocs {
				src := []byte(d)
				var err error
				c.Begin(sp.Name(), src)
				pv, st := core.Try(func() {
					doc := md.Parser().Parse(text.NewReader(src), parser.WithContext(ctx))
					var out bytes.Buffer
					err = md.Renderer().Render(&out, src, doc)
				})
				c.End()
				c.Eval()
				c.Count("parses_with_a_caller_supplied_context", 1)
				how := []string{"created before the instance was built", "created after the instance was built", "used before with another instance of the configuration"}[order]
				if pv != nil {
					c.Violation(&core.Violation{Class: "panic-parse-with-context", Locus: panicLocus(pv, st), Config: sp.Name(), Input: src,
						Detail: fmt.Sprintf("Parse(..., parser.WithContext(ctx)) with a context %s: panic: %v\n%s", how, pv, st)})
					break
				} else if err != nil {
					c.Violation(&core.Violation{Class: "error-with-good-writer", Locus: "parse-with-context", Config: sp.Name(), Input: src, Detail: err.Error()})
				}
			}
		}
	}
}

func extName(s cfg.Spec) string {
	n := s.Name()
	for i := 0; i < len(n); i++ {
		if n[i] == ',' {
			return n[:i]
		}
	}
	return n
}

func c01Bad(spec cfg.Spec, src []byte) (string, string, bool) {
	md := spec.Build()
	res := parseRender(md, src)
	if res.Panic != nil {
		return "panic-" + res.Phase, panicLocus(res.Panic, res.Stack), true
	}
	if res.Err != nil {
		return "error-with-good-writer", stripDigits(res.Err.Error()), true
	}
	r2 := convert(md, src)
	if r2.Panic != nil {
		return "panic-convert", panicLocus(r2.Panic, r2.Stack), true
	}
	if r2.Err != nil {
		return "error-with-good-writer", stripDigits(r2.Err.Error()), true
	}
	return "", "", false
}

func c01Report(c *core.Ctx, spec cfg.Spec, src []byte, class, locus, detail string) {
	if c.Seen(class, locus) {
		c.Violation(&core.Violation{Class: class, Locus: locus, Config: spec.Name(), Input: src})
		return
	}
	min := src
	if len(src) <= 1<<16 {
		min = core.Minimize(src, func(b []byte) bool {
			cl, lo, bad := c01Bad(spec, b)
			return bad && cl == class && lo == locus
		}, 1500)
	}
	c.Violation(&core.Violation{Class: class, Locus: locus, Config: spec.Name(), Input: min, Detail: detail})
}

func replayC01(c *core.Ctx, v *core.Violation) (bool, string) {
	spec := specOf(v.Config)
	cl, lo, bad := c01Bad(spec, v.Input)
	return bad, cl + " " + lo
}

func runC01(c *core.Ctx) {
	pool := cfg.NewPool()
	all := cfg.All()
	rich := cfg.RichSpecs()
	corpus := loadCorpus(c)
	r := c.Rng

	// 0. regression seeds, on every shard's first worker only
	if c.Shard == 0 {
		for _, s := range c01Seeds {
			c01Check(c, pool, specOf(s.cfg), []byte(s.in), true)
			c.Count("regression_seeds", 1)
		}
	}

	// 1. exhaustive short strings (narrow alphabet) x configurations
	alpha, maxLen := wl.Alphabet14, 4
	var specs1 []cfg.Spec
	if c.Quick() {
		// the same 16 configurations on every shard (chosen by the run seed, not the shard)
		sr := newRand(core.SeedFor(c.Seed, "C01-configs", 0))
		specs1 = pickSpecs(sr, all, 16)
		// CJK configurations carry double weight: make sure two are present
		specs1 = append(specs1, cfg.Spec{Ext: cfg.ExtCJKSimple, XHTML: true}, cfg.Spec{Ext: cfg.ExtCJKCSS3, HardWraps: true})
	} else {
		alpha, maxLen = wl.Alphabet18, 5
		specs1 = all
	}
	n1 := wl.ShortCount(len(alpha), maxLen)
	for i := 0; i < n1; i++ {
		if !c.Mine(i) {
			continue
		}
		src := []byte(wl.ShortAt(alpha, maxLen, i))
		for j, sp := range specs1 {
			c01Check(c, pool, sp, src, (i+j)%7 == 0)
		}
		// extensions built with non-default options (rotating in quick, all in thorough)
		if c.Quick() {
			c01Check(c, pool, rich[i%len(rich)], src, false)
			c01Check(c, pool, rich[(i/len(rich)+1)%len(rich)], src, false)
		} else {
			for _, sp := range rich {
				c01Check(c, pool, sp, src, false)
			}
		}
		c.Count("short_strings", 1)
		if c.WantSample() && i%997 == 0 {
			c.Sample(map[string]any{"kind": "short", "input": string(src), "configs": len(specs1)})
		}
	}

	// 2. wide alphabet x all configurations
	wideLen := c.N(2, 3)
	n2 := wl.ShortCount(len(wl.AlphabetWide), wideLen)
	for i := 0; i < n2; i++ {
		if !c.Mine(i) {
			continue
		}
		src := []byte(wl.ShortAt(wl.AlphabetWide, wideLen, i))
		for j, sp := range all {
			c01Check(c, pool, sp, src, (i+j)%11 == 0)
		}
		for _, sp := range rich {
			c01Check(c, pool, sp, src, false)
		}
		c.Count("wide_short_strings", 1)
	}

	// 2b. wide alphabet, one unit longer, x the 36 parser-side configurations with rotating renderer flags
	n2b := wl.ShortCount(len(wl.AlphabetWide), wideLen+1)
	for i := n2; i < n2b; i++ {
		if !c.Mine(i) {
			continue
		}
		src := []byte(wl.ShortAt(wl.AlphabetWide, wideLen+1, i))
		for e := 0; e < 36; e++ {
			c01Check(c, pool, all[e*8+(i+e)%8], src, false)
		}
		c.Count("wide_short_strings_36cfg", 1)
	}

	// 3. soup / corpus / mutants x 8 random configurations (CJK sets over-weighted)
	n3 := c.PerShard(c.N(120000, 1500000))
	for i := 0; i < n3; i++ {
		src := mixDoc(r, corpus)
		if i%5 == 0 {
			// bare continuation / lead bytes around line breaks and delimiter runs
			src = wl.SoupFrom(r, []string{"\x80", "\xbf", "\xc3", "\xe3\x81", "\xf0\x9f", "\xff", "\n", "*", "_", "a", " ", "あ", "~", "\"", "'", "[", "]", "(", ")", "|", "-", "\\"}, 12)
		}
		for k := 0; k < 8; k++ {
			var sp cfg.Spec
			if k < 2 {
				sp = all[(cfg.ExtCJKSimple+r.Intn(3))*32+r.Intn(32)]
			} else if k == 7 {
				sp = rich[r.Intn(len(rich))]
			} else {
				sp = all[r.Intn(len(all))]
			}
			c01Check(c, pool, sp, src, k == 0)
		}
		c.Count("mixed_documents", 1)
		if c.WantSample() && i%1500 == 7 {
			c.Sample(map[string]any{"kind": "mixed", "input": q(src)})
		}
	}

	// 3b. a parser.Context of the caller's (parser.WithContext): created BEFORE the instance that uses it is built, created
	// after, and used for several documents in a row. Parse with a context the caller made at any earlier time is ordinary
	// API use; it must be as total as Convert.
	c01Contexts(c)

	// 4. deep / pathological families
	sizes := []int{10, 100, 1000, 5000}
	if !c.Quick() {
		sizes = append(sizes, 20000, 60000)
	}
	deepSpecs := []cfg.Spec{{Ext: cfg.ExtAll, AutoHeadingID: true, Attribute: true}, {Ext: cfg.ExtCore}, {Ext: cfg.ExtCJKCSS3, XHTML: true, HardWraps: true}, {Ext: cfg.ExtAll, Rich: true, Unsafe: true}}
	k := 0
	for _, fam := range wl.DeepFamilies {
		for _, n := range sizes {
			for _, sp := range deepSpecs {
				k++
				if !c.Mine(k) {
					continue
				}
				src := fam.Gen(n)
				if len(src) > 256<<10 {
					src = src[:256<<10]
				}
				t0 := time.Now()
				c01Check(c, pool, sp, src, false)
				c.Count("deep_cases", 1)
				c.Observe("deep_families", fam.Name)
				if d := time.Since(t0); d > time.Second {
					c.Observe("deep_slow", fmt.Sprintf("%s/n=%d/%s: %.1fs", fam.Name, n, sp.Name(), d.Seconds()))
				}
			}
		}
	}
}
