package props

import (
	"errors"
	"fmt"
	"math/rand"
	"strings"

	"github.com/yuin/goldmark/ast"

	"verif/core"
	"verif/wl"
)

// C13 — AST mutation API and Walk behave like a plain ordered tree (list-of-children model in lock-step).

func init() {
	register(&Prop{
		ID:    "C13",
		Level: "exploration",
		Rule: "cases = operation sequences (AppendChild, InsertBefore, InsertAfter, ReplaceChild, RemoveChild, RemoveChildren, SortChildren) on a pool of real ast nodes, " +
			"run in lock-step with a list-of-children model and compared through every accessor after every call; plus Walk visitor scripts compared with a model walker. " +
			"Exhaustive part: ALL sequences up to the stated length over a 6-node pool (reference node nil / child / foreign all included). " +
			"distinct_nontrivial = number of distinct model states (forest shapes) reached in which at least one node has >= 2 children.",
		Assumptions: []string{
			"the list-of-children model encodes the documented meaning of each call (ast.Node interface comments): a moved node leaves its old parent; nil or foreign reference => append",
			"preconditions enforced by the generator: insertee is not the reference node and not an ancestor-or-self of the receiver",
			"SortChildren is checked as permutation + sortedness + link consistency (stability is not documented); a total order comparator makes the expected order unique",
		},
		Run:    runC13,
		Replay: replayC13,
		Exhaustive: func(tier string) string {
			if tier == "thorough" {
				return "every operation sequence of length <= 3 over the 6-node pool (3 parents with 2/1/0 children initially), every accessor compared after every call; every single and double deviation visitor script on the fixed walk trees"
			}
			return "every operation sequence of length <= 2 over the 6-node pool (3 parents with 2/1/0 children initially), every accessor compared after every call; every single and double deviation visitor script on the fixed walk trees"
		},
		Floors: func(m *Merged) []string {
			var out []string
			for _, op := range []string{"append", "insertBefore", "insertAfter", "replace", "remove", "removeChildren", "sort"} {
				if m.Sets["calls"][op] == 0 {
					out = append(out, "operation never exercised: "+op)
				}
			}
			if m.Counters["walk_scripts"] == 0 {
				out = append(out, "no walker scripts executed")
			}
			return out
		},
	})
}

// ---- model ----

type c13Model struct {
	kids   [][]int
	parent []int
}

func newC13Model(n int) *c13Model {
	m := &c13Model{kids: make([][]int, n), parent: make([]int, n)}
	for i := range m.parent {
		m.parent[i] = -1
	}
	return m
}

func (m *c13Model) detach(c int) {
	p := m.parent[c]
	if p < 0 {
		return
	}
	ks := m.kids[p]
	for i, k := range ks {
		if k == c {
			m.kids[p] = append(append([]int(nil), ks[:i]...), ks[i+1:]...)
			break
		}
	}
	m.parent[c] = -1
}

func (m *c13Model) indexOf(p, c int) int {
	for i, k := range m.kids[p] {
		if k == c {
			return i
		}
	}
	return -1
}

func (m *c13Model) insertAt(p, i, c int) {
	ks := m.kids[p]
	nk := make([]int, 0, len(ks)+1)
	nk = append(nk, ks[:i]...)
	nk = append(nk, c)
	nk = append(nk, ks[i:]...)
	m.kids[p] = nk
	m.parent[c] = p
}

func (m *c13Model) isAncestorOrSelf(a, n int) bool {
	for x := n; x >= 0; x = m.parent[x] {
		if x == a {
			return true
		}
	}
	return false
}

type c13Op struct {
	Kind string `json:"op"`
	P    int    `json:"p"`
	Ref  int    `json:"ref"` // -1 = nil
	C    int    `json:"c"`
	Cmp  int    `json:"cmp,omitempty"`
}

func (o c13Op) String() string {
	switch o.Kind {
	case "append":
		return fmt.Sprintf("n%d.AppendChild(n%d)", o.P, o.C)
	case "insertBefore":
		return fmt.Sprintf("n%d.InsertBefore(ref=%s, n%d)", o.P, c13ref(o.Ref), o.C)
	case "insertAfter":
		return fmt.Sprintf("n%d.InsertAfter(ref=%s, n%d)", o.P, c13ref(o.Ref), o.C)
	case "replace":
		return fmt.Sprintf("n%d.ReplaceChild(ref=%s, n%d)", o.P, c13ref(o.Ref), o.C)
	case "remove":
		return fmt.Sprintf("n%d.RemoveChild(n%d)", o.P, o.C)
	case "removeChildren":
		return fmt.Sprintf("n%d.RemoveChildren()", o.P)
	case "sort":
		return fmt.Sprintf("n%d.SortChildren(cmp%d)", o.P, o.Cmp)
	case "sortNested":
		return fmt.Sprintf("n%d.SortChildren(cmp%d whose first comparison calls n%d.SortChildren(cmp%d))", o.P, o.Cmp, o.C, o.Cmp)
	}
	return "?"
}

func c13ref(r int) string {
	if r < 0 {
		return "nil"
	}
	return fmt.Sprintf("n%d", r)
}

// legal reports whether the op respects the documented preconditions in the current model state.
func (m *c13Model) legal(o c13Op) bool {
	switch o.Kind {
	case "append", "insertBefore", "insertAfter", "replace":
		if o.C == o.Ref {
			return false
		}
		if m.isAncestorOrSelf(o.C, o.P) {
			return false
		}
	case "sortNested":
		return o.C != o.P
	}
	return true
}

// keyOf gives every node a sort key per comparator: cmp 0 = id ascending, cmp 1 = id descending, cmp 2 = id/2 (ties).
func c13cmp(kind int, ids map[ast.Node]int) func(a, b ast.Node) int {
	return func(a, b ast.Node) int {
		x, y := ids[a], ids[b]
		switch kind {
		case 1:
			x, y = -x, -y
		case 2:
			x, y = x/2, y/2
		}
		switch {
		case x < y:
			return -1
		case x > y:
			return 1
		}
		return 0
	}
}

func (m *c13Model) apply(o c13Op) {
	switch o.Kind {
	case "append":
		m.detach(o.C)
		m.insertAt(o.P, len(m.kids[o.P]), o.C)
	case "insertBefore":
		if o.Ref >= 0 && m.parent[o.Ref] == o.P {
			m.detach(o.C)
			m.insertAt(o.P, m.indexOf(o.P, o.Ref), o.C)
		} else {
			m.detach(o.C)
			m.insertAt(o.P, len(m.kids[o.P]), o.C)
		}
	case "insertAfter":
		if o.Ref >= 0 && m.parent[o.Ref] == o.P {
			m.detach(o.C)
			m.insertAt(o.P, m.indexOf(o.P, o.Ref)+1, o.C)
		} else {
			m.detach(o.C)
			m.insertAt(o.P, len(m.kids[o.P]), o.C)
		}
	case "replace":
		if o.Ref >= 0 && m.parent[o.Ref] == o.P {
			m.detach(o.C)
			m.insertAt(o.P, m.indexOf(o.P, o.Ref), o.C)
			m.detach(o.Ref)
		} else {
			m.detach(o.C)
			m.insertAt(o.P, len(m.kids[o.P]), o.C)
		}
	case "remove":
		if m.parent[o.C] == o.P {
			m.detach(o.C)
		}
	case "removeChildren":
		for _, k := range m.kids[o.P] {
			m.parent[k] = -1
		}
		m.kids[o.P] = nil
	case "sort":
		// handled by the caller (sort semantics are checked as a relation); the model adopts the real order afterwards.
	}
}

// ---- real side ----

func c13NewNode(i int) ast.Node {
	switch i % 7 {
	case 0:
		return ast.NewParagraph()
	case 1:
		return ast.NewBlockquote()
	case 2:
		return ast.NewList('-')
	case 3:
		return ast.NewText()
	case 4:
		return ast.NewEmphasis(1)
	case 5:
		return ast.NewListItem(2)
	default:
		return ast.NewTextBlock()
	}
}

func c13Real(nodes []ast.Node, ids map[ast.Node]int, o c13Op) {
	p := nodes[o.P]
	var ref ast.Node
	if o.Ref >= 0 {
		ref = nodes[o.Ref]
	}
	switch o.Kind {
	case "append":
		p.AppendChild(p, nodes[o.C])
	case "insertBefore":
		p.InsertBefore(p, ref, nodes[o.C])
	case "insertAfter":
		p.InsertAfter(p, ref, nodes[o.C])
	case "replace":
		p.ReplaceChild(p, ref, nodes[o.C])
	case "remove":
		p.RemoveChild(p, nodes[o.C])
	case "removeChildren":
		p.RemoveChildren(p)
	case "sort":
		p.SortChildren(c13cmp(o.Cmp, ids))
	case "sortNested":
		// a comparator that itself sorts the children of an unrelated parent: two sorts in flight on different nodes
		cmp := c13cmp(o.Cmp, ids)
		c13NestedCalled = false
		p.SortChildren(func(a, b ast.Node) int {
			if !c13NestedCalled {
				c13NestedCalled = true
				nodes[o.C].SortChildren(cmp)
			}
			return cmp(a, b)
		})
	}
}

var c13NestedCalled bool

// c13SortedRelation checks SortChildren's result on parent p: a permutation of before, sorted under cmp, no cycle.
func c13SortedRelation(nodes []ast.Node, ids map[ast.Node]int, p int, before []int, cmpKind, n int) ([]int, string) {
	var got []int
	steps := 0
	for c := nodes[p].FirstChild(); c != nil; c = c.NextSibling() {
		got = append(got, ids[c])
		if steps++; steps > n+2 {
			return nil, "SortChildren produced a cyclic sibling chain"
		}
	}
	if !samePerm(got, before) {
		return nil, fmt.Sprintf("SortChildren changed the set of children of n%d: before %v after %v", p, before, got)
	}
	cmp := c13cmp(cmpKind, ids)
	for j := 0; j+1 < len(got); j++ {
		if cmp(nodes[got[j]], nodes[got[j+1]]) > 0 {
			return nil, fmt.Sprintf("SortChildren result of n%d not sorted under cmp%d: %v", p, cmpKind, got)
		}
	}
	return got, ""
}

// compare checks every accessor of every node against the model; returns "" or a description.
func c13Compare(m *c13Model, nodes []ast.Node, ids map[ast.Node]int) string {
	for i, n := range nodes {
		ks := m.kids[i]
		// parent
		if mp := m.parent[i]; mp < 0 {
			if n.Parent() != nil {
				return fmt.Sprintf("n%d.Parent() = n%d, model: nil", i, ids[n.Parent()])
			}
			if n.PreviousSibling() != nil || n.NextSibling() != nil {
				return fmt.Sprintf("detached n%d still has sibling links", i)
			}
		} else if n.Parent() != nodes[mp] {
			return fmt.Sprintf("n%d.Parent() = %s, model: n%d", i, c13name(n.Parent(), ids), mp)
		}
		if n.ChildCount() != len(ks) {
			return fmt.Sprintf("n%d.ChildCount() = %d, model: %d children %v", i, n.ChildCount(), len(ks), ks)
		}
		if n.HasChildren() != (len(ks) > 0) {
			return fmt.Sprintf("n%d.HasChildren() = %v, model: %d children", i, n.HasChildren(), len(ks))
		}
		// forward chain
		var fwd []int
		steps := 0
		for c := n.FirstChild(); c != nil; c = c.NextSibling() {
			id, ok := ids[c]
			if !ok {
				return fmt.Sprintf("n%d has a child outside the pool", i)
			}
			fwd = append(fwd, id)
			if steps++; steps > len(nodes)+2 {
				return fmt.Sprintf("n%d: forward sibling chain does not terminate (cycle)", i)
			}
		}
		if !eqInts(fwd, ks) {
			return fmt.Sprintf("n%d children via FirstChild/NextSibling = %v, model: %v", i, fwd, ks)
		}
		var bwd []int
		steps = 0
		for c := n.LastChild(); c != nil; c = c.PreviousSibling() {
			bwd = append(bwd, ids[c])
			if steps++; steps > len(nodes)+2 {
				return fmt.Sprintf("n%d: backward sibling chain does not terminate (cycle)", i)
			}
		}
		for a, b := 0, len(bwd)-1; a < b; a, b = a+1, b-1 {
			bwd[a], bwd[b] = bwd[b], bwd[a]
		}
		if !eqInts(bwd, ks) {
			return fmt.Sprintf("n%d children via LastChild/PreviousSibling = %v, model: %v", i, bwd, ks)
		}
		if len(ks) > 0 {
			if n.FirstChild().PreviousSibling() != nil {
				return fmt.Sprintf("n%d.FirstChild().PreviousSibling() != nil", i)
			}
			if n.LastChild().NextSibling() != nil {
				return fmt.Sprintf("n%d.LastChild().NextSibling() != nil", i)
			}
		} else if n.FirstChild() != nil || n.LastChild() != nil {
			return fmt.Sprintf("n%d has no children in the model but FirstChild/LastChild non-nil", i)
		}
		for _, k := range ks {
			if nodes[k].Parent() != n {
				return fmt.Sprintf("child n%d of n%d has Parent() = %s", k, i, c13name(nodes[k].Parent(), ids))
			}
		}
	}
	return ""
}

func c13name(n ast.Node, ids map[ast.Node]int) string {
	if n == nil {
		return "nil"
	}
	if id, ok := ids[n]; ok {
		return fmt.Sprintf("n%d", id)
	}
	return "foreign"
}

func eqInts(a, b []int) bool {
	if len(a) != len(b) {
		return false
	}
	for i := range a {
		if a[i] != b[i] {
			return false
		}
	}
	return true
}

// c13Setup builds the pool and the initial forest; initial links are created with AppendChild only.
func c13Setup(n int, init [][2]int) (*c13Model, []ast.Node, map[ast.Node]int) {
	m := newC13Model(n)
	nodes := make([]ast.Node, n)
	ids := map[ast.Node]int{}
	for i := range nodes {
		nodes[i] = c13NewNode(i)
		ids[nodes[i]] = i
	}
	for _, pc := range init {
		nodes[pc[0]].AppendChild(nodes[pc[0]], nodes[pc[1]])
		m.apply(c13Op{Kind: "append", P: pc[0], C: pc[1]})
	}
	return m, nodes, ids
}

// c13Calls counts executed API calls (evaluations).
var c13Calls int64

// c13RunSeq executes ops in lock-step; returns (index of failing op, description) or (-1, "").
func c13RunSeq(n int, init [][2]int, ops []c13Op, onState func(m *c13Model)) (int, string) {
	m, nodes, ids := c13Setup(n, init)
	if d := c13Compare(m, nodes, ids); d != "" {
		return 0, "initial state: " + d
	}
	for i, o := range ops {
		if !m.legal(o) {
			continue
		}
		var before, beforeQ []int
		if o.Kind == "sort" || o.Kind == "sortNested" {
			before = append([]int(nil), m.kids[o.P]...)
		}
		if o.Kind == "sortNested" {
			beforeQ = append([]int(nil), m.kids[o.C]...)
		}
		pv, st := core.Try(func() { c13Real(nodes, ids, o) })
		c13Calls++
		if pv != nil {
			return i, fmt.Sprintf("panic in %s: %v\n%s", o, pv, trimStack(st))
		}
		if o.Kind == "sort" || o.Kind == "sortNested" {
			// relation: permutation of before, sorted under cmp, links consistent
			got, d := c13SortedRelation(nodes, ids, o.P, before, o.Cmp, n)
			if d != "" {
				return i, d
			}
			m.kids[o.P] = got
			if o.Kind == "sortNested" && c13NestedCalled {
				gq, d := c13SortedRelation(nodes, ids, o.C, beforeQ, o.Cmp, n)
				if d != "" {
					return i, "nested call: " + d
				}
				m.kids[o.C] = gq
			}
		} else {
			m.apply(o)
		}
		if d := c13Compare(m, nodes, ids); d != "" {
			return i, fmt.Sprintf("after %s: %s", o, d)
		}
		if onState != nil {
			onState(m)
		}
	}
	return -1, ""
}

func samePerm(a, b []int) bool {
	if len(a) != len(b) {
		return false
	}
	cnt := map[int]int{}
	for _, x := range a {
		cnt[x]++
	}
	for _, x := range b {
		cnt[x]--
	}
	for _, v := range cnt {
		if v != 0 {
			return false
		}
	}
	return true
}

func trimStack(st []byte) string {
	ls := strings.Split(string(st), "\n")
	var out []string
	for i := 0; i < len(ls); i++ {
		if strings.Contains(ls[i], "goldmark") {
			out = append(out, ls[i])
			if i+1 < len(ls) {
				out = append(out, ls[i+1])
			}
			i++
		}
		if len(out) > 12 {
			break
		}
	}
	return strings.Join(out, "\n")
}

func (m *c13Model) stateHash() (uint64, bool) {
	var b strings.Builder
	nt := false
	for i, ks := range m.kids {
		fmt.Fprintf(&b, "%d:%v;", i, ks)
		if len(ks) >= 2 {
			nt = true
		}
	}
	return core.HashStr(b.String()), nt
}

var c13Init6 = [][2]int{{0, 3}, {0, 4}, {1, 5}}

func c13AllOps(n int) []c13Op {
	var ops []c13Op
	for p := 0; p < n; p++ {
		for c := 0; c < n; c++ {
			ops = append(ops, c13Op{Kind: "append", P: p, Ref: -1, C: c})
			ops = append(ops, c13Op{Kind: "remove", P: p, Ref: -1, C: c})
			for ref := -1; ref < n; ref++ {
				ops = append(ops, c13Op{Kind: "insertBefore", P: p, Ref: ref, C: c})
				ops = append(ops, c13Op{Kind: "insertAfter", P: p, Ref: ref, C: c})
				ops = append(ops, c13Op{Kind: "replace", P: p, Ref: ref, C: c})
			}
		}
		ops = append(ops, c13Op{Kind: "removeChildren", P: p, Ref: -1})
		ops = append(ops, c13Op{Kind: "sort", P: p, Ref: -1, Cmp: 0})
		ops = append(ops, c13Op{Kind: "sort", P: p, Ref: -1, Cmp: 1})
		ops = append(ops, c13Op{Kind: "sort", P: p, Ref: -1, Cmp: 2})
	}
	return ops
}

func c13Locus(ops []c13Op, idx int, desc string) (string, string) {
	kind := "?"
	if idx >= 0 && idx < len(ops) {
		kind = ops[idx].Kind
		if ops[idx].Ref < 0 && (kind == "insertBefore" || kind == "insertAfter" || kind == "replace") {
			kind += "(nil)"
		}
	}
	class := "model-mismatch"
	if strings.HasPrefix(desc, "panic") {
		class = "panic"
	}
	// locus: op kind + which accessor disagreed
	acc := "other"
	for _, a := range []string{"ChildCount", "Parent()", "HasChildren", "FirstChild/NextSibling", "LastChild/PreviousSibling", "sibling links", "cycle", "SortChildren", "panic"} {
		if strings.Contains(desc, a) {
			acc = a
			break
		}
	}
	return class, kind + ":" + acc
}

func c13Report(c *core.Ctx, n int, init [][2]int, ops []c13Op, idx int, desc string) {
	class, locus := c13Locus(ops, idx, desc)
	// minimise: drop ops while the same class/locus remains
	cur := append([]c13Op(nil), ops[:idx+1]...)
	if !c.Seen(class, locus) {
		for changed := true; changed; {
			changed = false
			for i := 0; i < len(cur); i++ {
				cand := append(append([]c13Op(nil), cur[:i]...), cur[i+1:]...)
				j, d := c13RunSeq(n, init, cand, nil)
				if j >= 0 {
					cl, lo := c13Locus(cand, j, d)
					if cl == class && lo == locus {
						cur = cand[:j+1]
						desc = d
						changed = true
						break
					}
				}
			}
		}
	}
	var lines []string
	for _, o := range cur {
		lines = append(lines, o.String())
	}
	c.Violation(&core.Violation{Class: class, Locus: locus,
		Script: map[string]any{"pool": n, "init": init, "ops": cur},
		Detail: fmt.Sprintf("pool of %d nodes, initial links %v\n%s\n=> %s", n, init, strings.Join(lines, "\n"), desc)})
}

func runC13(c *core.Ctx) {
	// regression: the calls that were defective on the pinned tree
	if c.Shard == 0 {
		for _, ops := range [][]c13Op{
			{{Kind: "insertBefore", P: 0, Ref: -1, C: 5}},
			{{Kind: "insertAfter", P: 0, Ref: 4, C: 5}},
			{{Kind: "insertAfter", P: 0, Ref: -1, C: 5}},
			{{Kind: "insertBefore", P: 0, Ref: 5, C: 2}},
			{{Kind: "replace", P: 0, Ref: 5, C: 2}},
			{{Kind: "replace", P: 0, Ref: -1, C: 2}},
			{{Kind: "insertAfter", P: 0, Ref: 3, C: 4}},
		} {
			if i, d := c13RunSeq(6, c13Init6, ops, nil); i >= 0 {
				c13Report(c, 6, c13Init6, ops, i, d)
			}
		}
	}
	// 1. exhaustive sequences over the 6-node pool
	all := c13AllOps(6)
	maxLen := c.N(2, 3)
	onState := func(m *c13Model) {
		h, nt := m.stateHash()
		if nt {
			c.Sig(h)
		}
	}
	idx := 0
	var rec func(prefix []c13Op)
	rec = func(prefix []c13Op) {
		// every prefix is itself checked in lock-step while the full-length sequence runs, so only
		// full-length sequences (and the singletons) are executed.
		if len(prefix) == maxLen {
			return
		}
		for _, o := range all {
			seq := append(append([]c13Op(nil), prefix...), o)
			if len(seq) == maxLen || len(seq) == 1 {
				idx++
				if c.Mine(idx) {
					for _, x := range seq {
						c.Observe("calls", x.Kind)
					}
					if i, d := c13RunSeq(6, c13Init6, seq, onState); i >= 0 {
						c13Report(c, 6, c13Init6, seq, i, d)
					}
					c.Count("exhaustive_sequences", 1)
					if c.WantSample() && idx%9973 == 0 {
						var ls []string
						for _, x := range seq {
							ls = append(ls, x.String())
						}
						c.Sample(map[string]any{"kind": "exhaustive-sequence", "ops": ls})
					}
				}
			}
			if len(seq) < maxLen {
				rec(seq)
			}
		}
	}
	rec(nil)

	// 2. random long sequences over larger pools
	r := c.Rng
	nseq := c.PerShard(c.N(30000, 3000000))
	for s := 0; s < nseq; s++ {
		n := 3 + r.Intn(38)
		var init [][2]int
		ops := c13RandOps(r, n, 1+r.Intn(c.N(120, 300)))
		if i, d := c13RunSeq(n, init, ops, onState); i >= 0 {
			c13Report(c, n, init, ops, i, d)
		}
		c.Count("random_sequences", 1)
		c.Count("random_ops", int64(len(ops)))
		for _, x := range ops[:min(len(ops), 8)] {
			c.Observe("calls", x.Kind)
		}
	}

	// 2b. parents with many children (the count at every boundary size) in shuffled order: sort under each comparator, then
	// insert at the front and remove from the back; all accessors of all nodes are compared after every call
	kb := 0
	for _, nc := range wl.BoundarySizes {
		if nc < 2 || nc > 600 {
			continue
		}
		for cmp := 0; cmp < 3; cmp++ {
			kb++
			if !c.Mine(kb) {
				continue
			}
			perm := r.Perm(nc)
			var init [][2]int
			for _, x := range perm {
				init = append(init, [2]int{0, 1 + x})
			}
			ops := []c13Op{{Kind: "sort", P: 0, Ref: -1, Cmp: cmp}, {Kind: "insertBefore", P: 0, Ref: 1 + perm[0], C: nc + 1}, {Kind: "sort", P: 0, Ref: -1, Cmp: (cmp + 1) % 3},
				{Kind: "remove", P: 0, Ref: -1, C: 1 + perm[nc-1]}, {Kind: "insertAfter", P: 0, Ref: -1, C: 1 + perm[nc-1]}, {Kind: "sort", P: 0, Ref: -1, Cmp: cmp}}
			if i, d := c13RunSeq(nc+2, init, ops, onState); i >= 0 {
				c13Report(c, nc+2, init, ops, i, d)
			}
			c.Count("large_parent_sequences", 1)
		}
	}

	c.Evals(int(c13Calls))
	c.Count("api_calls", c13Calls)

	// 3. Walk
	c13Walks(c)
}

func c13RandOps(r *rand.Rand, n, l int) []c13Op {
	kinds := []string{"append", "append", "append", "insertBefore", "insertBefore", "insertAfter", "insertAfter", "replace", "remove", "removeChildren", "sort", "sort", "sortNested"}
	ops := make([]c13Op, l)
	// a few hub parents so that child lists grow
	hubs := 1 + r.Intn(3)
	for i := range ops {
		p := r.Intn(n)
		if r.Intn(3) > 0 {
			p = r.Intn(hubs)
		}
		o := c13Op{Kind: kinds[r.Intn(len(kinds))], P: p, C: r.Intn(n), Ref: r.Intn(n+1) - 1, Cmp: r.Intn(3)}
		ops[i] = o
	}
	return ops
}

// ---- Walk ----

type walkEvent struct {
	Node     int  `json:"node"`
	Entering bool `json:"entering"`
}

// outcome codes: 0 continue, 1 skip children, 2 stop, 3 error
func c13ModelWalk(m *c13Model, root int, script map[walkEvent]int, errs map[walkEvent]error) ([]walkEvent, error) {
	var visits []walkEvent
	var walk func(n int) (bool, error) // stop?, err
	walk = func(n int) (bool, error) {
		ev := walkEvent{n, true}
		visits = append(visits, ev)
		switch script[ev] {
		case 2:
			return true, nil
		case 3:
			return true, errs[ev]
		}
		if script[ev] != 1 {
			for _, k := range m.kids[n] {
				if stop, err := walk(k); stop {
					return true, err
				}
			}
		}
		ev = walkEvent{n, false}
		visits = append(visits, ev)
		switch script[ev] {
		case 2:
			return true, nil
		case 3:
			return true, errs[ev]
		}
		return false, nil
	}
	_, err := walk(root)
	return visits, err
}

func c13RealWalk(nodes []ast.Node, ids map[ast.Node]int, root int, script map[walkEvent]int, errs map[walkEvent]error) ([]walkEvent, error) {
	var visits []walkEvent
	err := ast.Walk(nodes[root], func(n ast.Node, entering bool) (ast.WalkStatus, error) {
		ev := walkEvent{ids[n], entering}
		visits = append(visits, ev)
		if len(visits) > 10000 {
			return ast.WalkStop, errors.New("runaway walk")
		}
		switch script[ev] {
		case 1:
			return ast.WalkSkipChildren, nil
		case 2:
			return ast.WalkStop, nil
		case 3:
			return ast.WalkContinue, errs[ev]
		}
		return ast.WalkContinue, nil
	})
	return visits, err
}

func c13WalkCase(c *core.Ctx, n int, init [][2]int, script map[walkEvent]int) {
	c13WalkCaseFrom(c, n, init, script, 0)
}

// c13WalkCaseFrom starts the walk at node start (Walk is defined for any node, not only for roots: it must stay inside the
// subtree of the node it is given).
func c13WalkCaseFrom(c *core.Ctx, n int, init [][2]int, script map[walkEvent]int, start int) {
	m, nodes, ids := c13Setup(n, init)
	errs := map[walkEvent]error{}
	for ev, oc := range script {
		if oc == 3 {
			errs[ev] = fmt.Errorf("boom@%d/%v", ev.Node, ev.Entering)
		}
	}
	want, wantErr := c13ModelWalk(m, start, script, errs)
	var got []walkEvent
	var gotErr error
	pv, st := core.Try(func() { got, gotErr = c13RealWalk(nodes, ids, start, script, errs) })
	c.Eval()
	c.Count("walk_scripts", 1)
	desc := ""
	switch {
	case pv != nil:
		desc = fmt.Sprintf("panic in Walk: %v\n%s", pv, trimStack(st))
	case len(got) != len(want):
		desc = fmt.Sprintf("visit sequence length %d, model %d", len(got), len(want))
	case gotErr != wantErr:
		desc = fmt.Sprintf("returned error %v, model %v", gotErr, wantErr)
	default:
		for i := range got {
			if got[i] != want[i] {
				desc = fmt.Sprintf("visit %d is %+v, model %+v", i, got[i], want[i])
				break
			}
		}
	}
	if desc != "" {
		kinds := map[int]string{1: "skip", 2: "stop", 3: "error"}
		var parts []string
		for ev, oc := range script {
			if oc != 0 {
				parts = append(parts, fmt.Sprintf("%s@%v", kinds[oc], ev.Entering))
			}
		}
		sortStrings(parts)
		sc := []map[string]any{}
		for ev, oc := range script {
			if oc != 0 {
				sc = append(sc, map[string]any{"node": ev.Node, "entering": ev.Entering, "outcome": kinds[oc]})
			}
		}
		c.Violation(&core.Violation{Class: "walk-mismatch", Locus: strings.Join(parts, ","),
			Script: map[string]any{"walk": true, "pool": n, "init": init, "script": sc, "start": start},
			Detail: fmt.Sprintf("tree links %v, walk started at node %d, script %v\n got  %v err=%v\n want %v err=%v\n%s", init, start, sc, got, gotErr, want, wantErr, desc)})
	}
}

var c13WalkTrees = [][][2]int{
	{},
	{{0, 1}},
	{{0, 1}, {0, 2}},
	{{0, 1}, {1, 2}},
	{{0, 1}, {0, 2}, {0, 3}},
	{{0, 1}, {1, 2}, {1, 3}, {0, 4}},
	{{0, 1}, {0, 2}, {1, 3}, {1, 4}, {2, 5}, {2, 6}},
	{{0, 1}, {1, 2}, {2, 3}, {3, 4}, {0, 5}, {5, 6}},
}

func c13Walks(c *core.Ctx) {
	k := 0
	for _, tree := range c13WalkTrees {
		n := len(tree) + 1
		var events []walkEvent
		for i := 0; i < n; i++ {
			events = append(events, walkEvent{i, true}, walkEvent{i, false})
		}
		// no deviation
		k++
		if c.Mine(k) {
			c13WalkCase(c, n, tree, map[walkEvent]int{})
		}
		// walks started at every inner node and leaf, without and with one deviation
		for start := 1; start < n; start++ {
			k++
			if c.Mine(k) {
				c13WalkCaseFrom(c, n, tree, map[walkEvent]int{}, start)
				for _, e1 := range events {
					for o1 := 1; o1 <= 3; o1++ {
						c13WalkCaseFrom(c, n, tree, map[walkEvent]int{e1: o1}, start)
					}
				}
				c.Count("walks_started_below_the_root", 1)
			}
		}
		for i, e1 := range events {
			for o1 := 1; o1 <= 3; o1++ {
				k++
				if c.Mine(k) {
					c13WalkCase(c, n, tree, map[walkEvent]int{e1: o1})
				}
				for _, e2 := range events[i+1:] {
					for o2 := 1; o2 <= 3; o2++ {
						k++
						if c.Mine(k) {
							c13WalkCase(c, n, tree, map[walkEvent]int{e1: o1, e2: o2})
						}
					}
				}
			}
		}
	}
	// deep and wide trees at boundary sizes: a spine of h nodes, every spine node with a leaf sibling; one or two deviations
	// near the root, in the middle and at the bottom (a walker that changes strategy beyond some depth or child count)
	for _, h := range wl.BoundarySizes {
		if h < 2 || h > 600 {
			continue
		}
		for shape := 0; shape < 2; shape++ {
			var tree [][2]int
			n := 1
			if shape == 0 {
				prev := 0
				for d := 1; d < h; d++ {
					tree = append(tree, [2]int{prev, n}, [2]int{prev, n + 1})
					prev = n
					n += 2
				}
			} else {
				for j := 1; j < h; j++ {
					tree = append(tree, [2]int{0, n})
					n++
				}
				tree = append(tree, [2]int{n - 1, n})
				n++
			}
			var evs []walkEvent
			for _, x := range []int{0, 1, 2, n / 2, n/2 + 1, n - 4, n - 3, n - 2, n - 1} {
				if x >= 0 && x < n {
					evs = append(evs, walkEvent{x, true}, walkEvent{x, false})
				}
			}
			for i, e1 := range evs {
				for o1 := 1; o1 <= 3; o1++ {
					k++
					if c.Mine(k) {
						c13WalkCase(c, n, tree, map[walkEvent]int{e1: o1})
						c.Count("walk_scripts_on_deep_or_wide_trees", 1)
					}
					if o1 == 1 && i+3 < len(evs) {
						k++
						if c.Mine(k) {
							c13WalkCase(c, n, tree, map[walkEvent]int{e1: o1, evs[i+3]: 2})
						}
					}
				}
			}
		}
	}
	// random trees and scripts
	r := c.Rng
	nr := c.PerShard(c.N(20000, 2000000))
	for i := 0; i < nr; i++ {
		n := 1 + r.Intn(14)
		var tree [][2]int
		for j := 1; j < n; j++ {
			tree = append(tree, [2]int{r.Intn(j), j})
		}
		script := map[walkEvent]int{}
		for d := r.Intn(4); d > 0; d-- {
			script[walkEvent{r.Intn(n), r.Intn(2) == 0}] = 1 + r.Intn(3)
		}
		if i%3 == 0 {
			c13WalkCaseFrom(c, n, tree, script, r.Intn(n))
		} else {
			c13WalkCase(c, n, tree, script)
		}
		if c.WantSample() && i == 5 {
			c.Sample(map[string]any{"kind": "walk-script", "tree_links": tree, "deviations": len(script)})
		}
	}
}

func replayC13(c *core.Ctx, v *core.Violation) (bool, string) {
	sc, ok := v.Script.(map[string]any)
	if !ok {
		return false, "no script"
	}
	n := int(sc["pool"].(float64))
	var init [][2]int
	if ii, ok := sc["init"].([]any); ok {
		for _, x := range ii {
			p := x.([]any)
			init = append(init, [2]int{int(p[0].(float64)), int(p[1].(float64))})
		}
	}
	if sc["walk"] == true {
		script := map[walkEvent]int{}
		codes := map[string]int{"skip": 1, "stop": 2, "error": 3}
		for _, x := range sc["script"].([]any) {
			e := x.(map[string]any)
			script[walkEvent{int(e["node"].(float64)), e["entering"].(bool)}] = codes[e["outcome"].(string)]
		}
		start := 0
		if f, ok := sc["start"].(float64); ok {
			start = int(f)
		}
		c13WalkCaseFrom(c, n, init, script, start)
		s := c.Finish()
		return len(s.Violations) > 0, "walk script re-executed"
	}
	var ops []c13Op
	for _, x := range sc["ops"].([]any) {
		e := x.(map[string]any)
		o := c13Op{Kind: e["op"].(string), P: int(e["p"].(float64)), Ref: int(e["ref"].(float64)), C: int(e["c"].(float64))}
		if cm, ok := e["cmp"].(float64); ok {
			o.Cmp = int(cm)
		}
		ops = append(ops, o)
	}
	i, d := c13RunSeq(n, init, ops, nil)
	return i >= 0, d
}
