package props

import (
	"bytes"
	"errors"
	"fmt"
	"math/rand"
	"os"
	"path/filepath"
	"runtime"
	"sort"
	"strings"
	"sync"
	"time"

	"github.com/yuin/goldmark"
	"github.com/yuin/goldmark/ast"
	"github.com/yuin/goldmark/extension"
	"github.com/yuin/goldmark/parser"
	"github.com/yuin/goldmark/renderer"
	"github.com/yuin/goldmark/renderer/html"
	"github.com/yuin/goldmark/text"
	"github.com/yuin/goldmark/util"

	"verif/cfg"
	"verif/core"
	"verif/sg"
	"verif/wl"
)

// C07 — a configured instance is safe for concurrent use (Go race detector + output comparison).

func init() {
	register(&Prop{
		ID:      "C07",
		Level:   "exploration",
		Race:    true,
		Workers: 24,
		Rule: "cases = rounds: a FRESH shared instance, G in {2,4,16} goroutines released by one barrier, each running a PRNG-chosen script of Convert / Parse+Render over a fixed pool of documents that touch every lazily initialised or shared object plus 2-7 fresh documents per round from the shared workload library (line soup, token soup, corpus mutants, by-construction documents), so that state reached only through particular input shapes is exercised concurrently; " +
			"worker processes are started per GOMAXPROCS in {1,2,4,16} and per repetition because process-wide first use can race only once per process; the harness is built with -race, " +
			"a build-tag hook inside goldmark injects yields/spins (no synchronisation) at Parse/Render entry and inside the three lazy initialisers. " +
			"Oracle: (1) any race-detector report with a goldmark frame, (2) a fatal runtime error, (3) any goroutine's output differing from the sequential output of the same (configuration, source). " +
			"distinct_nontrivial = distinct (instance kind, G, GOMAXPROCS, script signature) rounds in which at least two calls overlapped in time (measured from goroutine-local timestamps after the round).",
		Assumptions: []string{
			"the Go race detector (happens-before, shadow memory) reports conflicting unsynchronised accesses that were both executed in a process regardless of their timing, modulo shadow-cell eviction - hence many short rounds",
			"the injected hook performs no synchronisation (no atomics, mutexes or channels: time-derived choice, runtime.Gosched or a local spin), so it cannot order goldmark's accesses and hide a race",
			"trees are never shared between goroutines (the statement is about shared Markdown/Parser/Renderer values)",
		},
		Run: runC07,
		Env: func(shard, nshards int, work string) []string {
			return []string{"GORACE=halt_on_error=0 log_path=" + filepath.Join(work, "race") + " history_size=3", fmt.Sprintf("VERIF_GOMAXPROCS=%d", []int{1, 2, 4, 16}[shard%4])}
		},
		Post:                  c07Post,
		DeadWorkerIsViolation: true,
		Floors: func(m *Merged) []string {
			var out []string
			if m.Counters["rounds_with_overlap"] == 0 {
				out = append(out, "no round had two calls overlapping in time")
			}
			if m.Counters["first_use_rounds_with_overlap"] == 0 {
				out = append(out, "no process had overlapping first uses")
			}
			if m.Counters["race_detector_active"] == 0 {
				out = append(out, "the race detector was not active in the workers (binary not built with -race)")
			}
			for _, g := range []string{"1", "2", "4", "16"} {
				if m.Sets["gomaxprocs"][g] == 0 {
					out = append(out, "GOMAXPROCS value never used: "+g)
				}
			}
			return out
		},
	})
}

var c07Docs = []string{
	"&amp; &copy; &ouml; &#35; &hearts; &ClockwiseContourIntegral;\n",
	"[Foo]: /u \"t\"\n\n[FOO] [foo][] [x][ẞ]\n\n[SS]: /s\n",
	"# Title\n\n# Title\n\nSetext {#x}\n===\n\n## é {.c k=v}\n",
	"| a | b |\n|:--|--:|\n| `x\\|y` | **z** |\n",
	"- [x] done\n- [ ] todo\n\n~~del~~ http://a.b www.c.d e@f.g\n",
	"x[^1] y[^n]\n\n[^1]: one\n[^n]: two &amp; three\n",
	"Term\n: Definition *a*\n\nT2\n: D2\n",
	"\"quoted\" 'single' -- --- ... << >> it's '90s\n",
	"あ\nい\nabc\n*d*\\ e\n",
	"```go {a=b}\nfunc main() {}\n```\n\n    indented\n\n<div>\nraw\n</div>\n\n<!-- c -->\n",
	"> quote\n> - list\n>   1. nested\n\n***\n\n![img](/i \"t\") [l](<u v> 'w') <http://x.y> <a@b.c> `code` *e* **s** <b>raw</b>\n",
	"line one  \nline two\\\nline three\nfour\n",
	"&amp;\n",
	"[a]: /1\n[b]: /2\n\n[a] [b] [A] [B]\n",
	// every name of the shared (package-level) attribute filters, looked up through heading attributes
	c07AllAttributes,
	// the code span a failing node renderer of one instance kind objects to (an ordinary code span everywhere else)
	"text before the `FAIL` span\n\nand a paragraph after it\n",
	"- item\n\n  `FAIL`\n",
}

// c07FailRenderer renders code spans itself and returns an error for the span `FAIL`: conversions on this instance end
// through the error exits of Render, concurrently with conversions that succeed.
type c07FailRenderer struct{}

var errC07Node = errors.New("verif: node renderer objects to this code span")

func (c07FailRenderer) RegisterFuncs(reg renderer.NodeRendererFuncRegisterer) {
	reg.Register(ast.KindCodeSpan, func(w util.BufWriter, source []byte, n ast.Node, entering bool) (ast.WalkStatus, error) {
		if !entering {
			return ast.WalkContinue, nil
		}
		var t []byte
		for ch := n.FirstChild(); ch != nil; ch = ch.NextSibling() {
			if tx, ok := ch.(*ast.Text); ok {
				t = append(t, tx.Segment.Value(source)...)
			}
		}
		if string(t) == "FAIL" {
			return ast.WalkStop, errC07Node
		}
		_, _ = w.WriteString("<code>")
		_, _ = w.Write(util.EscapeHTML(t))
		_, _ = w.WriteString("</code>")
		return ast.WalkSkipChildren, nil
	})
}

var c07AllAttributes = func() string {
	var b strings.Builder
	names := strings.Split("accesskey,autocapitalize,autofocus,class,contenteditable,dir,draggable,enterkeyhint,hidden,id,inert,inputmode,is,itemid,itemprop,itemref,itemscope,itemtype,lang,part,role,slot,spellcheck,style,tabindex,title,translate,data-x,onclick,cite,start,align,width,href", ",")
	for i := 0; i < len(names); i += 3 {
		b.WriteString("# h {")
		for j := i; j < i+3 && j < len(names); j++ {
			b.WriteString(names[j] + "=v" + fmt.Sprint(j) + " ")
		}
		b.WriteString("}\n\nSetext {" + names[(i+7)%len(names)] + "=w}\n---\n\n")
	}
	return b.String()
}()

type c07Instance struct {
	Name  string
	Build func() (conv func(src []byte) ([]byte, error), pr func(src []byte) ([]byte, error))
}

func c07FromMarkdown(md goldmark.Markdown) (func([]byte) ([]byte, error), func([]byte) ([]byte, error)) {
	conv := func(src []byte) ([]byte, error) {
		var b bytes.Buffer
		err := md.Convert(src, &b)
		return b.Bytes(), err
	}
	pr := func(src []byte) ([]byte, error) {
		doc := md.Parser().Parse(text.NewReader(src))
		var b bytes.Buffer
		err := md.Renderer().Render(&b, src, doc)
		return b.Bytes(), err
	}
	return conv, pr
}

func c07PrefixFn(n ast.Node) []byte {
	d := n
	for d.Parent() != nil {
		d = d.Parent()
	}
	return []byte(fmt.Sprintf("d%d-", d.ChildCount()))
}

func c07Instances() []c07Instance {
	var out []c07Instance
	for e := 0; e < cfg.NExt; e++ {
		for _, full := range []bool{false, true} {
			sp := cfg.Spec{Ext: e, AutoHeadingID: full, Attribute: full, XHTML: full}
			out = append(out, c07Instance{Name: sp.Name(), Build: func() (func([]byte) ([]byte, error), func([]byte) ([]byte, error)) {
				return c07FromMarkdown(sp.Build())
			}})
		}
	}
	// extensions built with non-default options (id prefix, titles, classes, protocol list, substitutions): option values
	// are shared by every goroutine that uses the instance
	for _, sp := range cfg.RichSpecs() {
		sp := sp
		out = append(out, c07Instance{Name: sp.Name(), Build: func() (func([]byte) ([]byte, error), func([]byte) ([]byte, error)) {
			return c07FromMarkdown(sp.Build())
		}})
	}
	out = append(out, c07Instance{Name: "footnote+idprefixfunction+gfm", Build: func() (func([]byte) ([]byte, error), func([]byte) ([]byte, error)) {
		return c07FromMarkdown(goldmark.New(goldmark.WithExtensions(extension.GFM, extension.NewFootnote(extension.WithFootnoteIDPrefixFunction(c07PrefixFn)))))
	}})
	out = append(out, c07Instance{Name: "bare parser.NewParser + renderer.NewRenderer", Build: func() (func([]byte) ([]byte, error), func([]byte) ([]byte, error)) {
		p := parser.NewParser(parser.WithBlockParsers(parser.DefaultBlockParsers()...), parser.WithInlineParsers(parser.DefaultInlineParsers()...),
			parser.WithParagraphTransformers(parser.DefaultParagraphTransformers()...), parser.WithAutoHeadingID())
		r := renderer.NewRenderer(renderer.WithNodeRenderers(util.Prioritized(html.NewRenderer(html.WithUnsafe()), 1000)))
		f := func(src []byte) ([]byte, error) {
			doc := p.Parse(text.NewReader(src))
			var b bytes.Buffer
			err := r.Render(&b, src, doc)
			return b.Bytes(), err
		}
		return f, f
	}})
	out = append(out, c07Instance{Name: "gfm + a node renderer that fails on one code span", Build: func() (func([]byte) ([]byte, error), func([]byte) ([]byte, error)) {
		return c07FromMarkdown(goldmark.New(goldmark.WithExtensions(extension.GFM), goldmark.WithRendererOptions(renderer.WithNodeRenderers(util.Prioritized(c07FailRenderer{}, 10)))))
	}})
	out = append(out, c07Instance{Name: "package-level goldmark.Convert", Build: func() (func([]byte) ([]byte, error), func([]byte) ([]byte, error)) {
		f := func(src []byte) ([]byte, error) {
			var b bytes.Buffer
			err := goldmark.Convert(src, &b)
			return b.Bytes(), err
		}
		return f, f
	}})
	return out
}

// c07Hook injects scheduling noise without any synchronisation.
func c07Hook(site string) {
	t := time.Now().UnixNano()
	spin := func(n int) {
		x := 0
		for i := 0; i < n; i++ {
			x += i
		}
		_ = x
	}
	switch {
	case strings.HasSuffix(site, ".init.begin"):
		// a slow first initialisation: everybody else piles up behind it
		spin(20000 + int(t%7)*30000)
		runtime.Gosched()
	case strings.HasSuffix(site, ".init.end"):
		runtime.Gosched()
	default:
		switch t % 5 {
		case 0:
			runtime.Gosched()
		case 1:
			spin(200 + int(t%97)*50)
		}
	}
}

type c07Call struct {
	doc    int
	pr     bool
	out    []byte
	err    error
	pv     any
	t0, t1 int64
}

func runC07(c *core.Ctx) {
	gmp := 4
	fmt.Sscan(os.Getenv("VERIF_GOMAXPROCS"), &gmp)
	runtime.GOMAXPROCS(gmp)
	c.Observe("gomaxprocs", fmt.Sprint(gmp))
	if raceEnabled {
		c.Count("race_detector_active", 1)
	}
	parser.VerifHook = c07Hook
	renderer.VerifHook = c07Hook
	util.VerifHook = c07Hook

	insts := c07Instances()
	r := c.Rng
	rounds := c.N(300, 2000)
	fixed := make([][]byte, len(c07Docs))
	for i, d := range c07Docs {
		fixed[i] = []byte(d)
	}
	corpus := loadCorpus(c)
	for round := 0; round < rounds; round++ {
		// the documents of a round: the fixed pool (every lazily initialised or shared object) plus documents drawn from the
		// shared workload library, so that state reached only through particular input shapes is exercised concurrently too
		docs := append([][]byte(nil), fixed...)
		if round > 0 {
			for k := 2 + r.Intn(6); k > 0; k-- {
				var d []byte
				switch r.Intn(6) {
				case 0, 1:
					d = wl.SoupFrom(r, c08Lines, 2+r.Intn(12))
				case 2:
					d = wl.Soup(r, 1+r.Intn(24))
				case 3:
					d = []byte(sg.Document(r, 3, 6, 3, nil).Markdown)
				default:
					d = mixDoc(r, corpus)
				}
				docs = append(docs, d)
			}
			// and one or two members of the scalable families at a boundary size: pools, free lists and caches are often
			// reserved for inputs beyond some size
			for k := 1 + r.Intn(2); k > 0; k-- {
				fam := wl.DeepFamilies[wl.FirstLimitFamily+r.Intn(len(wl.DeepFamilies)-wl.FirstLimitFamily)]
				if strings.HasPrefix(fam.Name, "table-") {
					continue // quadratic output; the race build is slow enough
				}
				n := []int{33, 65, 129, 257, 300}[r.Intn(5)]
				if d := fam.Gen(n); len(d) > 0 && len(d) < 1<<13 {
					docs = append(docs, d)
					c.Observe("families_in_rounds", fam.Name)
				}
			}
			c.Count("generated_documents", int64(len(docs)-len(fixed)))
		}
		inst := insts[r.Intn(len(insts))]
		if round == 0 {
			// the very first round of the process: entity table, default instance and everything else race for first use
			inst = insts[(c.Shard/4)%len(insts)]
		}
		G := []int{2, 4, 16}[r.Intn(3)]
		if round == 0 {
			G = 16
		}
		conv, pr := inst.Build()
		scripts := make([][]c07Call, G)
		for g := range scripts {
			n := 1 + r.Intn(5)
			for i := 0; i < n; i++ {
				d := r.Intn(len(docs))
				if len(docs) > len(fixed) && r.Intn(2) == 0 {
					d = len(fixed) + r.Intn(len(docs)-len(fixed))
				}
				scripts[g] = append(scripts[g], c07Call{doc: d, pr: r.Intn(3) == 0})
			}
			if round == 0 {
				scripts[g][0].doc = g % 2 * 12 // entities on first use (documents 0 and 12)
			}
		}
		start := make(chan struct{})
		var wg sync.WaitGroup
		c.Begin(inst.Name, []byte(fmt.Sprintf("round %d G=%d", round, G)))
		for g := 0; g < G; g++ {
			wg.Add(1)
			go func(calls []c07Call) {
				defer wg.Done()
				<-start
				for i := range calls {
					cl := &calls[i]
					src := docs[cl.doc]
					cl.t0 = time.Now().UnixNano()
					pv, _ := core.Try(func() {
						if cl.pr {
							cl.out, cl.err = pr(src)
						} else {
							cl.out, cl.err = conv(src)
						}
					})
					cl.pv = pv
					cl.t1 = time.Now().UnixNano()
				}
			}(scripts[g])
		}
		close(start)
		wg.Wait()
		c.End()
		// sequential reference, computed after the round with a fresh instance (hook off: plain sequential execution)
		parser.VerifHook, renderer.VerifHook, util.VerifHook = nil, nil, nil
		refConv, _ := inst.Build()
		exp := map[int][]byte{}
		expErr := map[int]error{}
		type iv struct{ t0, t1 int64 }
		var ivs []iv
		var firsts []iv
		sig := fmt.Sprintf("%s|G%d|P%d|", inst.Name, G, gmp)
		for g := range scripts {
			for i := range scripts[g] {
				cl := &scripts[g][i]
				c.Eval()
				c.Count("calls", 1)
				ivs = append(ivs, iv{cl.t0, cl.t1})
				if i == 0 {
					firsts = append(firsts, iv{cl.t0, cl.t1})
				}
				sig += fmt.Sprintf("%d%v,", cl.doc, cl.pr)
				if cl.pv != nil {
					c.Violation(&core.Violation{Class: "panic-under-concurrency", Locus: stripDigits(fmt.Sprint(cl.pv)), Config: inst.Name, Input: docs[cl.doc],
						Detail: fmt.Sprintf("round %d, %d goroutines, GOMAXPROCS=%d: panic %v", round, G, gmp, cl.pv)})
					continue
				}
				want, ok := exp[cl.doc]
				if !ok {
					want, expErr[cl.doc] = refConv(docs[cl.doc])
					exp[cl.doc] = want
				}
				if werr := expErr[cl.doc]; werr != nil {
					// the sequential call fails too (a node renderer's own error): the concurrent call must fail the same way
					c.Count("calls_that_end_with_a_node_renderer_error", 1)
					if !errors.Is(cl.err, werr) {
						c.Violation(&core.Violation{Class: "error-lost-under-concurrency", Locus: inst.Name, Config: inst.Name, Input: docs[cl.doc],
							Detail: fmt.Sprintf("round %d: alone the call returns the error %q, under concurrency it returned %v", round, werr, cl.err)})
					}
					continue
				}
				if cl.err != nil {
					c.Violation(&core.Violation{Class: "error-under-concurrency", Locus: stripDigits(cl.err.Error()), Config: inst.Name, Input: docs[cl.doc], Detail: cl.err.Error()})
					continue
				}
				if !bytes.Equal(cl.out, want) {
					_, snip := diffSnippet(want, cl.out)
					c.Violation(&core.Violation{Class: "output-differs-under-concurrency", Locus: inst.Name, Config: inst.Name, Input: docs[cl.doc],
						Detail: fmt.Sprintf("round %d, %d goroutines on one fresh instance, GOMAXPROCS=%d: a call returned bytes different from the sequential output\n%s", round, G, gmp, snip)})
				}
			}
		}
		parser.VerifHook, renderer.VerifHook, util.VerifHook = c07Hook, c07Hook, c07Hook
		// overlap degree from goroutine-local timestamps
		deg := func(xs []iv) int {
			type ev struct {
				t int64
				d int
			}
			var es []ev
			for _, x := range xs {
				es = append(es, ev{x.t0, 1}, ev{x.t1, -1})
			}
			sort.Slice(es, func(i, j int) bool {
				if es[i].t != es[j].t {
					return es[i].t < es[j].t
				}
				return es[i].d < es[j].d
			})
			cur, max := 0, 0
			for _, e := range es {
				cur += e.d
				if cur > max {
					max = cur
				}
			}
			return max
		}
		d := deg(ivs)
		c.Observe("max_overlap_degree", fmt.Sprint(d))
		c.Count("rounds", 1)
		c.Observe("instance_kinds", inst.Name)
		if d >= 2 {
			c.Count("rounds_with_overlap", 1)
			c.Sig(core.HashStr(sig))
		}
		if fd := deg(firsts); fd >= 2 {
			c.Count("first_calls_overlapping_rounds", 1)
			if round == 0 {
				c.Count("first_use_rounds_with_overlap", 1)
			}
		}
		if c.WantSample() && round%40 == 0 {
			c.Sample(map[string]any{"round": round, "instance": inst.Name, "goroutines": G, "gomaxprocs": gmp, "calls": len(ivs), "max_overlap_degree": d})
		}
	}
	_ = rand.Int
}

// c07Post scans the race-detector logs written by the workers.
func c07Post(work string, m *Merged) []*core.Violation {
	files, _ := filepath.Glob(filepath.Join(work, "race.*"))
	m.Counters["race_log_files"] = int64(len(files))
	groups := map[string]*core.Violation{}
	total := 0
	for _, f := range files {
		b, err := os.ReadFile(f)
		if err != nil {
			continue
		}
		for _, blk := range strings.Split(string(b), "==================") {
			if !strings.Contains(blk, "WARNING: DATA RACE") {
				continue
			}
			total++
			if !strings.Contains(blk, "github.com/yuin/goldmark") {
				m.Counters["race_reports_without_goldmark_frame"]++
				continue
			}
			// signature: the first goldmark frame of each of the two stacks, line numbers stripped
			var frames []string
			for _, sec := range strings.Split(blk, "\n\n") {
				if !(strings.Contains(sec, "by goroutine") || strings.Contains(sec, "by main goroutine")) {
					continue
				}
				for _, l := range strings.Split(sec, "\n") {
					l = strings.TrimSpace(l)
					if strings.HasPrefix(l, "github.com/yuin/goldmark") {
						if i := strings.IndexByte(l, '('); i > 0 {
							l = l[:i]
						}
						frames = append(frames, strings.TrimPrefix(l, "github.com/yuin/goldmark"))
						break
					}
				}
			}
			sort.Strings(frames)
			key := strings.Join(frames, " <-> ")
			if g, ok := groups[key]; ok {
				g.Count++
				continue
			}
			groups[key] = &core.Violation{Property: "C07", Class: "data-race", Locus: key, Count: 1,
				Detail: "race detector report (first of its group):\n" + strings.TrimSpace(blk)}
		}
	}
	m.Counters["race_reports_total"] = int64(total)
	var out []*core.Violation
	for _, v := range groups {
		out = append(out, v)
	}
	return out
}
