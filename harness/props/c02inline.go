package props

import (
	"strings"

	"verif/cfg"
	"verif/core"
	"verif/sg"
	"verif/wl"
)

// C02 part 4: goldmark against the inline reference model (sg.InlineModel) on paragraphs that are paragraphs by
// construction.  Whether the text is one paragraph is decided from the input alone (c02RiskyLine): no line may be
// blank or begin with something that could open a block or interrupt a paragraph.

var c02BlockTags = func() map[string]bool {
	m := map[string]bool{}
	for _, n := range strings.Fields("pre script style textarea address article aside base basefont blockquote body caption center col colgroup dd details dialog dir div dl dt fieldset figcaption figure footer form frame frameset h1 h2 h3 h4 h5 h6 head header hr html iframe legend li link main menu menuitem nav noframes ol optgroup option p param search section summary table tbody td tfoot th thead title tr track ul") {
		m[n] = true
	}
	return m
}()

// c02RiskyLine reports whether a line could be anything but paragraph text (conservatively).
func c02RiskyLine(l string, first bool) bool {
	t := strings.TrimLeft(l, " ")
	if strings.TrimSpace(t) == "" {
		return true
	}
	if first && len(t) != len(l) {
		return true
	}
	switch t[0] {
	case '#', '>', '=', '~', '-', '+':
		return true
	case '*', '_':
		if len(t) == 1 || t[1] == ' ' {
			return true
		}
		if strings.Trim(t, string(t[0])+" ") == "" {
			return true
		}
	case '`':
		if strings.HasPrefix(t, "```") {
			return true
		}
	case '<':
		if len(t) < 2 {
			return false
		}
		if t[1] == '!' || t[1] == '?' {
			return true
		}
		k := 1
		if t[k] == '/' {
			k++
		}
		j := k
		for j < len(t) && (t[j] >= 'a' && t[j] <= 'z' || t[j] >= 'A' && t[j] <= 'Z' || t[j] >= '0' && t[j] <= '9') {
			j++
		}
		if j > k && c02BlockTags[strings.ToLower(t[k:j])] {
			return true
		}
		if first {
			// start condition 7: a complete open or closing tag alone on the line
			if i := strings.IndexByte(t, '>'); i >= 0 && strings.TrimSpace(t[i+1:]) == "" {
				return true
			}
		}
	}
	if t[0] >= '0' && t[0] <= '9' {
		i := 0
		for i < len(t) && i < 10 && t[i] >= '0' && t[i] <= '9' {
			i++
		}
		if i < len(t) && (t[i] == '.' || t[i] == ')') {
			return true
		}
	}
	return false
}

func c02ParagraphByConstruction(para string) bool {
	lines := strings.Split(para, "\n")
	for i, l := range lines {
		if c02RiskyLine(l, i == 0) {
			return false
		}
	}
	// a paragraph that begins with a link reference definition loses it
	if strings.HasPrefix(para, "[") && strings.Contains(para, "]:") {
		return false
	}
	return true
}

const c02InlineDefs = "[a]: /x\n[b]: /y \"t\"\n[a b]: <z> 'u'\n"

var c02InlineRefs = map[string]sg.Ref{
	sg.NormLabel("a"):   {Dest: "/x"},
	sg.NormLabel("b"):   {Dest: "/y", Title: "t", HasTitle: true},
	sg.NormLabel("a b"): {Dest: "z", Title: "u", HasTitle: true},
}

// c02Inline compares goldmark with the inline model on one paragraph, between two words and as it stands.
func c02Inline(c *core.Ctx, pool *cfg.Pool, spec cfg.Spec, para string, family string) {
	st := sg.Stats(nil)
	for mode := 0; mode < 2; mode++ {
		p := para
		if mode == 0 {
			p = "a " + para + " a"
		}
		if !c02ParagraphByConstruction(p) {
			c.Count("inline_model_not_a_paragraph_by_construction", 1)
			continue
		}
		want, ok := sg.InlineModel(p, c02InlineRefs)
		if !ok {
			c.Count("inline_model_declined", 1)
			continue
		}
		c.Observe("inline_model_families", family)
		c02Check(c, pool, spec, &c02Case{md: []byte(p + "\n\n" + c02InlineDefs), want: "<p>" + want + "</p>\n", kind: "inline-model"}, st)
	}
}

type c02Family struct {
	name  string
	alpha []string
	quick int
	thor  int
	wrap  func(string) string
}

var c02InlineFamilies = []c02Family{
	{"code-spans", []string{"`", "``", "a", " ", "*", "\\"}, 6, 7, nil},
	{"inline-links", []string{"[", "]", "(", ")", "a", "!", "*", " "}, 6, 7, nil},
	{"reference-links", []string{"[", "]", "a", "b", "!", " ", "*", "\\"}, 6, 7, nil},
	{"autolinks-raw-html", []string{"<", ">", "a", "b:", "/", " ", "!--", "-", "?", "=", "\"", "@", "."}, 4, 5, nil},
	{"entities-escapes", []string{"&", "#", ";", "x", "4", "2", "amp", "a", "\\", "*"}, 5, 6, nil},
	{"link-tails", []string{"<", ">", "a", " ", "\"", "'", "(", ")", "\\", "\n"}, 5, 6, func(s string) string { return "[a](" + s + ")" }},
	{"line-breaks", []string{"a", " ", "  ", "\\", "\n", "*", "`"}, 6, 7, nil},
	{"image-tails", []string{"[", "]", "a", "b", "*", " ", "`", "\""}, 5, 6, func(s string) string { return "![" + s + "](/u \"t\")" }},
	{"email-domains", []string{"a", "-", ".", "7", "xn--a", "@"}, 5, 6, func(s string) string { return "see <a@" + s + "> now" }},
	{"email-local-parts", []string{"a", ".", "+", "-", "_", "!", "@", "\\"}, 4, 5, func(s string) string { return "see <" + s + "@a.b> now" }},
	{"uri-autolinks", []string{"a", "b1", ":", "+", ".", "-", "/", " ", "<", "\\", "&amp;", "%20"}, 4, 5, func(s string) string { return "see <" + s + "> now" }},
}

var c02InlineTokens = []string{"a", "b", "a", " ", " ", "\n", "  \n", "\\\n", "*", "**", "_", "__", "***", "`", "``", "` ", "[", "]", "](", ")", "(", "![", "!", "][", "[]", "[a]", "[b]", "[a b]", "[A  b]",
	"(/u)", "(/u \"t\")", "(<u v> 't')", "(u (v))", "(\\()", "<", ">", "<b>", "</b>", "<b c=\"d\">", "<b c='d' e>", "<br/>", "<!-- c -->", "<!-->", "<?p?>", "<!D e>", "<![CDATA[x]]>", "<http://a.b>", "<m@n.o>", "<a:b>",
	"&amp;", "&#42;", "&#x5B;", "&#0;", "&copy;", "&nope;", "&amp", "&nvlt;", "&nvgt;", "&NewLine;", "&Tab;", "&fjlig;", "&bne;", "&lt;", "&quot;", "&nbsp;", "\\*", "\\[", "\\]", "\\`", "\\\\", "\\<", "\\&", "\\a", ".", "!", "\"", "'", "é", "“", " ", "£", "-", "#", ":"}

func runC02Inline(c *core.Ctx, pool *cfg.Pool, specs []cfg.Spec) {
	for _, f := range c02InlineFamilies {
		L := c.N(f.quick, f.thor)
		n := wl.ShortCount(len(f.alpha), L)
		for i := 0; i < n; i++ {
			if !c.Mine(i) {
				continue
			}
			s := wl.ShortAt(f.alpha, L, i)
			if f.wrap != nil {
				s = f.wrap(s)
			}
			c02Inline(c, pool, specs[i%2], s, f.name)
		}
	}
	// every HTML5 named character reference as an escape, between two letters and inside a title (the expected expansion
	// comes from the table of Go's html package, an independent copy of the HTML5 list)
	for i, name := range wl.EntityNames {
		if !c.Mine(i) {
			continue
		}
		c02Inline(c, pool, specs[i%2], "x&"+name+"y [l](/u \"&"+name+"\")", "all-named-references")
	}
	r := c.Rng
	for i := c.PerShard(c.N(250000, 10000000)); i > 0; i-- {
		var sb strings.Builder
		for k := 2 + r.Intn(16); k > 0; k-- {
			sb.WriteString(c02InlineTokens[r.Intn(len(c02InlineTokens))])
		}
		c02Inline(c, pool, specs[i%2], sb.String(), "random-token-lines")
	}
}

// InlineMismatch is one disagreement between goldmark and the inline model (development aid, cmd/inldebug).
type InlineMismatch struct{ Family, Para, Got, Want string }

// InlineMismatches enumerates the exhaustive families and returns every disagreement.
func InlineMismatches(thorough bool) []InlineMismatch {
	var out []InlineMismatch
	md := c02Specs()[0].Build()
	for _, f := range c02InlineFamilies {
		L := f.quick
		if thorough {
			L = f.thor
		}
		n := wl.ShortCount(len(f.alpha), L)
		for i := 0; i < n; i++ {
			s := wl.ShortAt(f.alpha, L, i)
			if f.wrap != nil {
				s = f.wrap(s)
			}
			for mode := 0; mode < 2; mode++ {
				p := s
				if mode == 0 {
					p = "a " + s + " a"
				}
				if !c02ParagraphByConstruction(p) {
					continue
				}
				want, ok := sg.InlineModel(p, c02InlineRefs)
				if !ok {
					continue
				}
				cs := &c02Case{md: []byte(p + "\n\n" + c02InlineDefs), want: "<p>" + want + "</p>\n", kind: "inline-model"}
				cl, _, _, _, ok2 := c02Eval(md, cs)
				if ok2 && cl != "" {
					res := parseRender(md, cs.md)
					out = append(out, InlineMismatch{f.name, p, string(res.Out), cs.want})
				}
			}
		}
	}
	return out
}
