package props

import (
	"bytes"
	"fmt"
	"math"
	"sort"
	"strings"

	"github.com/yuin/goldmark"
	"github.com/yuin/goldmark/ast"
	"github.com/yuin/goldmark/parser"
	"github.com/yuin/goldmark/renderer"
	"github.com/yuin/goldmark/renderer/html"
	"github.com/yuin/goldmark/text"
	"github.com/yuin/goldmark/util"

	"verif/core"
)

// C20 — registered parsers, transformers and renderers are applied strictly by priority.

func init() {
	register(&Prop{
		ID:    "C20",
		Level: "exploration",
		Rule: "cases = (category, probe set with distinct priorities, registration order, registration route per probe, accept/decline pattern, document). " +
			"Probe components log their invocations; the log and the output are compared with a priority-sorted dispatch model. " +
			"Exhaustive part: for 2..N probes per category, all assignments of distinct priorities from a pool straddling the built-in values x all registration orders x all route assignments x all accept patterns. " +
			"distinct_nontrivial = distinct scenarios in which at least two probes were invoked or competed (hash of the scenario).",
		Assumptions: []string{
			"priorities within one scenario are distinct from each other and from the built-ins' values (the order among equal priorities is not documented)",
			"probe block/inline parsers declare CanInterruptParagraph/CanAcceptIndentedLine = true so that only priority decides whether they are tried; the block-shared-trigger category varies CanInterruptParagraph and models it (c20shared.go)",
		},
		Run: runC20,
		Exhaustive: func(tier string) string {
			if tier == "thorough" {
				return "2..4 probes per category (block parsers: triggered and trigger-less; inline parsers; paragraph transformers; AST transformers; node renderers) x all distinct-priority assignments from a 6-value pool (incl. math.MinInt and math.MaxInt) x all registration orders x 3 routes per probe x all accept patterns"
			}
			return "2..3 probes per category (block parsers: triggered and trigger-less; inline parsers; paragraph transformers; AST transformers; node renderers) x all distinct-priority assignments from a 6-value pool (incl. math.MinInt and math.MaxInt) x all registration orders x 3 routes per probe x all accept patterns"
		},
		Floors: func(m *Merged) []string {
			var out []string
			for _, k := range []string{"block", "block-free", "block-shared-trigger", "inline", "paragraph-transformer", "ast-transformer", "renderer", "no-renderer-kind", "late-kind"} {
				if m.Sets["categories"][k] == 0 {
					out = append(out, "category never exercised: "+k)
				}
			}
			return out
		},
	})
}

// ---- probes ----

type c20Log struct{ events []string }

func (l *c20Log) add(s string) { l.events = append(l.events, s) }

var c20BlockKind = ast.NewNodeKind("VerifProbeBlock")
var c20InlineKind = ast.NewNodeKind("VerifProbeInline")
var c20BareKind = ast.NewNodeKind("VerifProbeBare") // never gets a renderer function

type c20BlockNode struct {
	ast.BaseBlock
	By string
}

func (n *c20BlockNode) Kind() ast.NodeKind         { return c20BlockKind }
func (n *c20BlockNode) Dump(src []byte, level int) {}
func (n *c20BlockNode) IsRaw() bool                { return true }

type c20InlineNode struct {
	ast.BaseInline
	By   string
	kind ast.NodeKind
}

func (n *c20InlineNode) Kind() ast.NodeKind         { return n.kind }
func (n *c20InlineNode) Dump(src []byte, level int) {}

type c20BlockParser struct {
	name    string
	trigger []byte
	accept  bool
	log     *c20Log
}

func (p *c20BlockParser) Trigger() []byte { return p.trigger }
func (p *c20BlockParser) Open(parent ast.Node, reader text.Reader, pc parser.Context) (ast.Node, parser.State) {
	line, _ := reader.PeekLine()
	pos := pc.BlockOffset()
	if pos < 0 || pos >= len(line) || line[pos] != '@' {
		return nil, parser.NoChildren
	}
	p.log.add(p.name)
	if !p.accept {
		return nil, parser.NoChildren
	}
	reader.Advance(len(line) - 1)
	return &c20BlockNode{By: p.name}, parser.NoChildren
}
func (p *c20BlockParser) Continue(node ast.Node, reader text.Reader, pc parser.Context) parser.State {
	return parser.Close
}
func (p *c20BlockParser) Close(node ast.Node, reader text.Reader, pc parser.Context) {}
func (p *c20BlockParser) CanInterruptParagraph() bool                                { return true }
func (p *c20BlockParser) CanAcceptIndentedLine() bool                                { return true }

type c20InlineParser struct {
	name   string
	accept bool
	log    *c20Log
}

func (p *c20InlineParser) Trigger() []byte { return []byte{'@'} }
func (p *c20InlineParser) Parse(parent ast.Node, block text.Reader, pc parser.Context) ast.Node {
	p.log.add(p.name)
	if !p.accept {
		return nil
	}
	block.Advance(1)
	return &c20InlineNode{By: p.name, kind: c20InlineKind}
}

type c20ParaTransformer struct {
	name string
	log  *c20Log
}

func (t *c20ParaTransformer) Transform(node *ast.Paragraph, reader text.Reader, pc parser.Context) {
	t.log.add(t.name)
}

type c20ASTTransformer struct {
	name   string
	log    *c20Log
	insert bool // wraps the first paragraph's children in a node of a kind without renderer
}

func (t *c20ASTTransformer) Transform(doc *ast.Document, reader text.Reader, pc parser.Context) {
	t.log.add(t.name)
	if t.insert {
		if p := doc.FirstChild(); p != nil && p.Kind() == ast.KindParagraph {
			w := &c20InlineNode{By: t.name, kind: c20BareKind}
			for c := p.FirstChild(); c != nil; {
				next := c.NextSibling()
				w.AppendChild(w, c)
				c = next
			}
			p.AppendChild(p, w)
		}
	}
}

type c20NodeRenderer struct {
	name  string
	kinds []ast.NodeKind
}

func (r *c20NodeRenderer) RegisterFuncs(reg renderer.NodeRendererFuncRegisterer) {
	for _, k := range r.kinds {
		name := r.name
		reg.Register(k, func(w util.BufWriter, source []byte, n ast.Node, entering bool) (ast.WalkStatus, error) {
			if entering {
				_, _ = w.WriteString("{" + name + "}")
			} else {
				_, _ = w.WriteString("{/" + name + "}")
			}
			return ast.WalkContinue, nil
		})
	}
}

// ---- scenarios ----

type c20Probe struct {
	Name   string `json:"name"`
	Prio   int    `json:"priority"`
	Route  int    `json:"route"` // 0 New(With*Options), 1 Extender, 2 AddOptions after New
	Accept bool   `json:"accept,omitempty"`
	Free   bool   `json:"triggerless,omitempty"`
}

type c20Scenario struct {
	Cat    string     `json:"category"`
	Probes []c20Probe `json:"probes"` // in registration order
	Doc    string     `json:"doc"`
	// Twin: the first probe is registered through a prioritized list with spare capacity that is also handed to a sibling
	// instance, which then registers a probe of its own; both instances are built before either is used, and each must
	// follow the priorities registered on itself.
	Twin bool `json:"twin,omitempty"`
	// Custom (with Twin): the shared list is the first option of a renderer.NewRenderer / parser.NewParser that the caller
	// builds itself and passes with goldmark.WithRenderer / goldmark.WithParser, instead of an option of goldmark.New.
	Custom bool `json:"custom,omitempty"`
}

type c20Ext struct{ f func(m goldmark.Markdown) }

func (e *c20Ext) Extend(m goldmark.Markdown) { e.f(m) }

func (s c20Scenario) String() string {
	var parts []string
	for _, p := range s.Probes {
		parts = append(parts, fmt.Sprintf("%s(prio=%d,route=%d,accept=%v,free=%v)", p.Name, p.Prio, p.Route, p.Accept, p.Free))
	}
	return fmt.Sprintf("%s doc=%q probes(in registration order)=[%s]", s.Cat, s.Doc, strings.Join(parts, " "))
}

// c20Component builds the probe component of a category.
func c20Component(cat string, p c20Probe, log *c20Log) util.PrioritizedValue {
	switch cat {
	case "block", "block-free":
		bp := &c20BlockParser{name: p.Name, accept: p.Accept, log: log}
		if !p.Free {
			bp.trigger = []byte{'@'}
		}
		return util.Prioritized(bp, p.Prio)
	case "inline":
		return util.Prioritized(&c20InlineParser{name: p.Name, accept: p.Accept, log: log}, p.Prio)
	case "paragraph-transformer":
		return util.Prioritized(&c20ParaTransformer{name: p.Name, log: log}, p.Prio)
	case "ast-transformer":
		return util.Prioritized(&c20ASTTransformer{name: p.Name, log: log}, p.Prio)
	}
	kinds := []ast.NodeKind{c20InlineKind}
	if p.Accept { // "Accept" doubles as: also overrides the built-in paragraph renderer
		kinds = append(kinds, ast.KindParagraph)
	}
	return util.Prioritized(&c20NodeRenderer{name: p.Name, kinds: kinds}, p.Prio)
}

// c20ListOption registers a list of components of a category.
func c20ListOption(cat string, vals ...util.PrioritizedValue) (parser.Option, renderer.Option) {
	switch cat {
	case "block", "block-free":
		return parser.WithBlockParsers(vals...), nil
	case "inline":
		return parser.WithInlineParsers(vals...), nil
	case "paragraph-transformer":
		return parser.WithParagraphTransformers(vals...), nil
	case "ast-transformer":
		return parser.WithASTTransformers(vals...), nil
	}
	return nil, renderer.WithNodeRenderers(vals...)
}

// c20Build creates the instance with every probe registered through its route, in list order.
func c20Build(s c20Scenario, log *c20Log) goldmark.Markdown { return c20BuildShared(s, log, nil) }

// c20BuildShared: like c20Build, but the first probe comes in the given shared list (when not nil).
func c20BuildShared(s c20Scenario, log *c20Log, shared []util.PrioritizedValue) goldmark.Markdown {
	var newOpts []goldmark.Option
	var later []func(m goldmark.Markdown)
	// probes with the same name are ONE object registered several times with different priorities
	objects := map[string]interface{}{}
	for pi, p := range s.Probes {
		p := p
		var po parser.Option
		var ro renderer.Option
		if pi == 0 && shared != nil {
			if s.Custom {
				// the caller's own Parser / Renderer object, built from the shared list (which then also holds the built-ins)
				if s.Cat == "renderer" {
					newOpts = append(newOpts, goldmark.WithRenderer(renderer.NewRenderer(renderer.WithNodeRenderers(shared...))))
				} else {
					opts := []parser.Option{parser.WithBlockParsers(parser.DefaultBlockParsers()...), parser.WithInlineParsers(parser.DefaultInlineParsers()...),
						parser.WithParagraphTransformers(parser.DefaultParagraphTransformers()...)}
					lo, _ := c20ListOption(s.Cat, shared...)
					newOpts = append(newOpts, goldmark.WithParser(parser.NewParser(append([]parser.Option{lo}, opts...)...)))
				}
				continue
			}
			po, ro = c20ListOption(s.Cat, shared...)
		} else {
			comp := c20Component(s.Cat, p, log)
			if obj, seen := objects[p.Name]; seen {
				comp = util.Prioritized(obj, p.Prio)
			} else {
				objects[p.Name] = comp.Value
			}
			po, ro = c20ListOption(s.Cat, comp)
		}
		switch p.Route {
		case 0:
			if po != nil {
				newOpts = append(newOpts, goldmark.WithParserOptions(po))
			} else {
				newOpts = append(newOpts, goldmark.WithRendererOptions(ro))
			}
		case 1:
			newOpts = append(newOpts, goldmark.WithExtensions(&c20Ext{func(m goldmark.Markdown) {
				if po != nil {
					m.Parser().AddOptions(po)
				} else {
					m.Renderer().AddOptions(ro)
				}
			}}))
		case 2:
			later = append(later, func(m goldmark.Markdown) {
				if po != nil {
					m.Parser().AddOptions(po)
				} else {
					m.Renderer().AddOptions(ro)
				}
			})
		}
	}
	if s.Cat == "renderer" {
		// the custom inline kind is produced by an always-accepting inline probe
		newOpts = append(newOpts, goldmark.WithParserOptions(parser.WithInlineParsers(util.Prioritized(&c20InlineParser{name: "mk", accept: true, log: &c20Log{}}, 10))))
	}
	md := goldmark.New(newOpts...)
	for _, f := range later {
		f(md)
	}
	return md
}

// built-in priorities that matter for the model
const (
	c20PrioCodeBlock = 500
	c20PrioParagraph = 1000
	c20PrioHTML      = 1000 // html renderer
)

// c20Expect computes the expected invocation log and facts about the output.
func c20Expect(s c20Scenario) (log []string, outContains []string, outLacks []string) {
	ps := append([]c20Probe(nil), s.Probes...)
	sort.SliceStable(ps, func(i, j int) bool { return ps[i].Prio < ps[j].Prio })
	switch s.Cat {
	case "block", "block-free":
		indented := strings.HasPrefix(s.Doc, "    ")
		accepted := ""
		// triggered probes first (ascending), then trigger-less parsers (ascending, built-ins included)
		for _, p := range ps {
			if p.Free {
				continue
			}
			log = append(log, p.Name)
			if p.Accept {
				accepted = p.Name
				break
			}
		}
		if accepted == "" {
			for _, p := range ps {
				if !p.Free {
					continue
				}
				// a built-in trigger-less parser with a smaller priority accepts first
				if indented && p.Prio > c20PrioCodeBlock {
					break
				}
				if !indented && p.Prio > c20PrioParagraph {
					break
				}
				log = append(log, p.Name)
				if p.Accept {
					accepted = p.Name
					break
				}
			}
		}
		_ = accepted
	case "inline":
		for _, p := range ps {
			log = append(log, p.Name)
			if p.Accept {
				break
			}
		}
	case "paragraph-transformer", "ast-transformer":
		for _, p := range ps {
			log = append(log, p.Name)
		}
	case "renderer":
		// smallest priority value wins per kind
		win := ps[0].Name
		outContains = append(outContains, "{"+win+"}{/"+win+"}")
		// paragraph: among probes that also register KindParagraph and the built-in (1000)
		pw := ""
		for _, p := range ps {
			if p.Accept {
				if p.Prio < c20PrioHTML {
					pw = p.Name
				}
				break
			}
		}
		if pw != "" {
			outContains = append(outContains, "{"+pw+"}a")
			outLacks = append(outLacks, "<p>")
		} else {
			outContains = append(outContains, "<p>a")
		}
	}
	return
}

func c20RunScenario(s c20Scenario) (string, []string) {
	if s.Twin {
		return c20RunTwin(s)
	}
	log := &c20Log{}
	var out bytes.Buffer
	var desc string
	pv, st := core.Try(func() {
		md := c20Build(s, log)
		if err := md.Convert([]byte(s.Doc), &out); err != nil {
			desc = "Convert returned error: " + err.Error()
		}
	})
	return c20Judge(s, log, &out, desc, pv, st)
}

// c20RunTwin builds two instances that share the list holding the first probe; the sibling adds a probe "T" of its own.
func c20RunTwin(s c20Scenario) (string, []string) {
	log := &c20Log{}
	shared := make([]util.PrioritizedValue, 0, 8)
	if s.Custom && s.Cat == "renderer" {
		shared = append(shared, util.Prioritized(html.NewRenderer(), c20PrioHTML))
	}
	shared = append(shared, c20Component(s.Cat, s.Probes[0], log))
	sb := c20Scenario{Cat: s.Cat, Doc: s.Doc, Twin: true, Custom: s.Custom, Probes: []c20Probe{s.Probes[0], {Name: "T", Prio: 7, Route: s.Probes[len(s.Probes)-1].Route, Accept: true, Free: s.Probes[0].Free}}}
	var outA, outB bytes.Buffer
	var descA, descB string
	var evA []string
	pv, st := core.Try(func() {
		a := c20BuildShared(s, log, shared)
		b := c20BuildShared(sb, log, shared)
		if err := a.Convert([]byte(s.Doc), &outA); err != nil {
			descA = "Convert returned error: " + err.Error()
		}
		evA = append([]string(nil), log.events...)
		log.events = nil
		if err := b.Convert([]byte(s.Doc), &outB); err != nil {
			descB = "Convert returned error: " + err.Error()
		}
	})
	if pv != nil {
		return c20Judge(s, log, &outA, "", pv, st)
	}
	evB := log.events
	log.events = evA
	if d, ev := c20Judge(s, log, &outA, descA, nil, nil); d != "" {
		return "first instance of a pair sharing a registration list: " + d, ev
	}
	log.events = evB
	if d, ev := c20Judge(sb, log, &outB, descB, nil, nil); d != "" {
		return "second instance of a pair sharing a registration list (" + sb.String() + "): " + d, ev
	}
	return "", append(evA, evB...)
}

func c20Judge(s c20Scenario, log *c20Log, outp *bytes.Buffer, desc string, pv any, st []byte) (string, []string) {
	out := *outp
	if pv != nil {
		return fmt.Sprintf("panic: %v\n%s", pv, trimStack(st)), log.events
	}
	if desc != "" {
		return desc, log.events
	}
	want, has, lacks := c20Expect(s)
	if s.Cat != "renderer" {
		// the log may contain the same line's probes once per paragraph/line; documents have exactly one trigger
		if strings.Join(log.events, ",") != strings.Join(want, ",") {
			return fmt.Sprintf("invocation order %v, priority model %v (output %q)", log.events, want, out.String()), log.events
		}
	}
	for _, h := range has {
		if !strings.Contains(out.String(), h) {
			return fmt.Sprintf("output %q lacks %q (the renderer function with the smallest priority value must be used)", out.String(), h), log.events
		}
	}
	for _, h := range lacks {
		if strings.Contains(out.String(), h) {
			return fmt.Sprintf("output %q contains %q (a custom renderer with a smaller priority value must override the built-in)", out.String(), h), log.events
		}
	}
	return "", log.events
}

func c20Perms(n int) [][]int {
	var out [][]int
	var rec func(cur []int, used int)
	rec = func(cur []int, used int) {
		if len(cur) == n {
			out = append(out, append([]int(nil), cur...))
			return
		}
		for i := 0; i < n; i++ {
			if used&(1<<i) == 0 {
				rec(append(cur, i), used|1<<i)
			}
		}
	}
	rec(nil, 0)
	return out
}

// c20Choose enumerates ordered selections of k distinct values from pool.
func c20Choose(pool []int, k int) [][]int {
	var out [][]int
	var rec func(cur []int, used int)
	rec = func(cur []int, used int) {
		if len(cur) == k {
			out = append(out, append([]int(nil), cur...))
			return
		}
		for i := range pool {
			if used&(1<<i) == 0 {
				rec(append(cur, pool[i]), used|1<<i)
			}
		}
	}
	rec(nil, 0)
	return out
}

func runC20(c *core.Ctx) {
	idx := 0
	run := func(s c20Scenario) {
		idx++
		if !c.Mine(idx) {
			return
		}
		d, events := c20RunScenario(s)
		c.Eval()
		c.Observe("categories", s.Cat)
		c.Count("log_entries_checked", int64(len(events)))
		if len(events) >= 2 || s.Cat == "renderer" {
			c.Sig(core.HashStr(s.String()))
		}
		if c.WantSample() && idx%2003 == 0 {
			c.Sample(map[string]any{"scenario": s.String(), "invocations": events})
		}
		if d != "" {
			what := "order"
			if strings.HasPrefix(d, "panic") {
				what = "panic"
			} else if strings.Contains(d, "output") && s.Cat == "renderer" {
				what = "renderer-choice"
			}
			c.Violation(&core.Violation{Class: "priority-" + what, Locus: s.Cat, Script: s, Detail: s.String() + "\n=> " + d})
		}
	}
	maxN := c.N(3, 4)
	// every pool straddles the built-in values and contains the extreme priorities
	pools := map[string][]int{
		"block":                 {math.MinInt, 250, 450, 650, 1050, math.MaxInt},
		"block-free":            {math.MinInt, 250, 450, 650, 1050, math.MaxInt},
		"inline":                {math.MinInt, 150, 250, 450, 1500, math.MaxInt},
		"paragraph-transformer": {math.MinInt, 50, 150, 999, 1500, math.MaxInt},
		"ast-transformer":       {math.MinInt, -10, 5, 999, 20000, math.MaxInt},
		"renderer":              {math.MinInt, 500, 999, 1001, 2000, math.MaxInt},
	}
	for _, cat := range []string{"block", "block-free", "inline", "paragraph-transformer", "ast-transformer", "renderer"} {
		pool := pools[cat]
		docs := []string{"@x\n"}
		switch cat {
		case "block":
			// also: the trigger on a line indented four columns that follows a paragraph line (probes accept indented lines and
			// may interrupt a paragraph), at top level and inside a block quote
			docs = []string{"@x\n", "para\n    @x\n", "> para\n>     @x\n", "para\n@x\n"}
		case "block-free":
			docs = []string{"@x\n", "    @x\n"}
		case "inline":
			docs = []string{"a @ b\n"}
		case "paragraph-transformer":
			docs = []string{"a\n"}
		case "ast-transformer":
			// AST transformers run on every document, also on one in which no block opens
			docs = []string{"a\n", "", "\n", "  \n\n", "[r]: /only-a-definition\n"}
		case "renderer":
			docs = []string{"a@b\n"}
		}
		for n := 2; n <= maxN; n++ {
			prios := c20Choose(pool, n) // ordered: the i-th registered probe gets prios[i], so all registration orders are covered
			nroutes := 1
			for i := 0; i < n; i++ {
				nroutes *= 3
			}
			naccept := 1 << n
			if cat == "paragraph-transformer" || cat == "ast-transformer" {
				naccept = 1
			}
			nfree := 1
			if cat == "block-free" {
				nfree = 1 << n
			}
			for _, pr := range prios {
				for rt := 0; rt < nroutes; rt++ {
					if n == 4 && rt%3 != 0 && c.Quick() {
						continue
					}
					for ac := 0; ac < naccept; ac++ {
						for fr := 0; fr < nfree; fr++ {
							if cat == "block-free" && fr == 0 {
								continue // at least one trigger-less probe
							}
							s := c20Scenario{Cat: cat}
							r := rt
							for i := 0; i < n; i++ {
								s.Probes = append(s.Probes, c20Probe{Name: fmt.Sprintf("P%d", i), Prio: pr[i], Route: r % 3, Accept: ac&(1<<i) != 0, Free: fr&(1<<i) != 0})
								r /= 3
							}
							for _, d := range docs {
								s.Doc = d
								run(s)
								if n == 2 {
									t := s
									t.Twin = true
									run(t)
									t.Custom = true
									run(t)
								}
							}
						}
					}
				}
			}
		}
	}
	// one object registered twice: P0 at two priorities with P1 between, before or after them; every registration counts on
	// its own (tried / run at its priority), whichever route each registration takes
	for _, cat := range []string{"block", "inline", "paragraph-transformer", "ast-transformer", "renderer"} {
		pool := pools[cat]
		doc := map[string]string{"block": "@x\n", "inline": "a @ b\n", "paragraph-transformer": "a\n", "ast-transformer": "a\n", "renderer": "a@b\n"}[cat]
		for _, pr := range c20Choose(pool, 3) {
			for rt := 0; rt < 27; rt++ {
				for ac := 0; ac < 4; ac++ {
					if (cat == "paragraph-transformer" || cat == "ast-transformer") && ac > 0 {
						continue
					}
					s := c20Scenario{Cat: cat, Doc: doc}
					s.Probes = []c20Probe{
						{Name: "P0", Prio: pr[0], Route: rt % 3, Accept: ac&1 != 0},
						{Name: "P1", Prio: pr[1], Route: rt / 3 % 3, Accept: ac&2 != 0},
						{Name: "P0", Prio: pr[2], Route: rt / 9 % 3, Accept: ac&1 != 0},
					}
					run(s)
					c.Count("scenarios_with_one_object_registered_twice", 1)
				}
			}
		}
	}
	// probes that share '-', '=' and ':' with built-in parsers, may or may not interrupt a paragraph, and compete for a line
	// that follows a paragraph which persists or which a paragraph transformer takes away (c20shared.go)
	c20Shared(c, func(s c20SScenario) {
		idx++
		if !c.Mine(idx) {
			return
		}
		d, events := c20SRun(s)
		c.Eval()
		c.Observe("categories", "block-shared-trigger")
		c.Count("log_entries_checked", int64(len(events)))
		c.Count([]string{"shared_trigger_line_follows_nothing", "shared_trigger_line_follows_a_paragraph_that_stays", "shared_trigger_line_follows_a_paragraph_that_is_transformed_away"}[c20SDocs[s.Doc].Para], 1)
		if len(events) >= 2 {
			c.Sig(core.HashStr(s.String()))
		}
		if c.WantSample() && idx%4001 == 0 {
			c.Sample(map[string]any{"scenario": s.String(), "invocations": events})
		}
		if d != "" {
			what := "order"
			if strings.HasPrefix(d, "panic") {
				what = "panic"
			}
			c.Violation(&core.Violation{Class: "priority-" + what, Locus: "block-shared-trigger", Script: s, Detail: s.String() + "\n=> " + d})
		}
	})
	c.Count("scenarios", int64(idx))

	// kinds without a renderer function
	if c.Shard == 0 {
		c20NoRenderer(c)
	}
}

func c20NoRenderer(c *core.Ctx) {
	// (a) a registered-kind-range node without renderer function, produced by an AST transformer
	log := &c20Log{}
	for _, route := range []int{0, 1, 2} {
		opt := parser.WithASTTransformers(util.Prioritized(&c20ASTTransformer{name: "W", log: log, insert: true}, 500))
		var md goldmark.Markdown
		switch route {
		case 0:
			md = goldmark.New(goldmark.WithParserOptions(opt))
		case 1:
			md = goldmark.New(goldmark.WithExtensions(&c20Ext{func(m goldmark.Markdown) { m.Parser().AddOptions(opt) }}))
		default:
			md = goldmark.New()
			md.Parser().AddOptions(opt)
		}
		var out bytes.Buffer
		var err error
		pv, st := core.Try(func() { err = md.Convert([]byte("a *b* c\n"), &out) })
		c.Eval()
		c.Observe("categories", "no-renderer-kind")
		want := "<p>a <em>b</em> c</p>\n"
		switch {
		case pv != nil:
			c.Violation(&core.Violation{Class: "priority-panic", Locus: "no-renderer-kind", Detail: fmt.Sprintf("route %d: panic %v\n%s", route, pv, trimStack(st))})
		case err != nil:
			c.Violation(&core.Violation{Class: "no-renderer-kind-fails", Locus: "error", Detail: fmt.Sprintf("route %d: error %v", route, err)})
		case out.String() != want:
			c.Violation(&core.Violation{Class: "no-renderer-kind-fails", Locus: "children-not-rendered", Detail: fmt.Sprintf("route %d: output %q, want %q (node skipped, children rendered)", route, out.String(), want)})
		}
	}
	// (b) a kind created after the renderer was initialised
	md := goldmark.New()
	var first bytes.Buffer
	_ = md.Convert([]byte("x\n"), &first) // initialises the renderer's table
	late := ast.NewNodeKind(fmt.Sprintf("VerifLateKind%d", c.Seed))
	for depth := 0; depth < 3; depth++ {
		src := []byte("a *b* c\n")
		doc := md.Parser().Parse(text.NewReader(src))
		p := doc.FirstChild()
		var holder ast.Node = p
		for d := 0; d <= depth; d++ {
			w := &c20InlineNode{By: "late", kind: late}
			for ch := holder.FirstChild(); ch != nil; {
				next := ch.NextSibling()
				w.AppendChild(w, ch)
				ch = next
			}
			holder.AppendChild(holder, w)
			holder = w
		}
		var out bytes.Buffer
		var err error
		pv, st := core.Try(func() { err = md.Renderer().Render(&out, src, doc) })
		c.Eval()
		c.Observe("categories", "late-kind")
		want := "<p>a <em>b</em> c</p>\n"
		switch {
		case pv != nil:
			c.Violation(&core.Violation{Class: "priority-panic", Locus: "late-kind", Detail: fmt.Sprintf("kind created after first Render, depth %d: panic %v\n%s", depth, pv, trimStack(st))})
		case err != nil:
			c.Violation(&core.Violation{Class: "no-renderer-kind-fails", Locus: "late-kind-error", Detail: fmt.Sprintf("error %v", err)})
		case out.String() != want:
			c.Violation(&core.Violation{Class: "no-renderer-kind-fails", Locus: "late-kind-children-not-rendered", Detail: fmt.Sprintf("output %q, want %q", out.String(), want)})
		}
	}
}
