// Package props holds one monitor per property C01..C20.
package props

import (
	"sort"

	"verif/core"
)

// Prop describes one property monitor.
type Prop struct {
	ID          string
	Level       string // evidence level
	Rule        string // how cases are generated and what makes one non-trivial / distinct
	Assumptions []string
	Race        bool // needs the -race build
	Workers     int  // 0 = default
	// Run executes this worker's shard of the workload.
	Run func(c *core.Ctx)
	// Replay re-executes one recorded violation and reports whether it still violates.
	Replay func(c *core.Ctx, v *core.Violation) (bool, string)
	// Floors inspects the merged statistics and returns reasons why the run is inconclusive (coverage floors).
	Floors func(m *Merged) []string
	// Exhaustive describes the finite sub-space that was enumerated completely ("" if none).
	Exhaustive func(tier string) string
	// Extra lets a property add keys to coverage.
	Extra func(m *Merged, cov map[string]any)
	// Env returns extra environment variables for a worker process.
	Env func(shard, nshards int, workDir string) []string
	// Post runs in the driver after all workers finished (e.g. scanning race-detector logs).
	Post func(workDir string, m *Merged) []*core.Violation
	// DeadWorkerIsViolation: a worker killed by a fatal runtime error is itself a refutation (concurrency properties).
	DeadWorkerIsViolation bool
}

// Merged is the union of all worker summaries.
type Merged struct {
	Tier     string
	Evals    int64
	Counters map[string]int64
	Sets     map[string]map[string]int64
	Samples  []any
	Distinct int
	SigDrop  int64
}

// SetKeys returns the sorted values of a set.
func (m *Merged) SetKeys(name string) []string {
	var out []string
	for k := range m.Sets[name] {
		out = append(out, k)
	}
	sort.Strings(out)
	return out
}

// Registry maps property id to monitor.
var Registry = map[string]*Prop{}

func register(p *Prop) { Registry[p.ID] = p }

// StageCounters names, per property, the counters of stages that must have run (a stage that silently observed nothing
// makes the run inconclusive, not a pass). All of them are functions of the case list alone.
var StageCounters = map[string][]string{
	"C01": {"parses_with_a_caller_supplied_context", "deep_cases"},
	"C03": {"recycled_buffer_histories", "truncated_multibyte_before_significant_character", "attribute_block_documents"},
	"C04": {"recycled_buffer_histories", "unsafe_twin_renders_before_the_safe_one"},
	"C05": {"trees_parsed_with_a_reused_context", "family_cases"},
	"C06": {"op_convert_from_recycled_buffer", "twin_payload_documents", "role_matrix_documents"},
	"C07": {"calls_that_end_with_a_node_renderer_error"},
	"C09": {"twin_pairs_through_a_recycled_buffer", "definition_moves_with_near_miss_labels_defined_in_D", "definition_moves_with_many_own_definitions"},
	"C10": {"recycled_buffer_steps", "decorated_trees"},
	"C11": {"ascii_documents_compared_after_their_wide_character_twin", "conversions_by_neighbour_instances_sharing_extension_values", "line_ending_documents", "wide_character_documents_on_a_cjk_base"},
	"C14": {"histories", "history_nested_renders", "history_conversions_ending_with_node_renderer_error", "history_conversions_with_node_renderer_error_and_failing_writer", "subtrees_rendered_with_fault_enumeration"},
	"C15": {"documents_with_ids_of_a_chosen_length", "documents_with_many_headings"},
	"C16": {"context_histories", "documents_parsed_with_a_reused_context", "reference_graph_documents"},
	"C18": {"calls_Reset", "long_source_cases"},
	"C19": {"big_filter_runs", "big_filter_full_membership_sweeps", "filter_programs"},
	"C20": {"scenarios_with_one_object_registered_twice", "shared_trigger_line_follows_a_paragraph_that_is_transformed_away"},
}

// StageFloors returns the stages of a property that did not run.
func StageFloors(id string, m *Merged) []string {
	var out []string
	for _, k := range StageCounters[id] {
		if m.Counters[k] == 0 {
			out = append(out, "stage did not run or observed nothing: "+k)
		}
	}
	return out
}
