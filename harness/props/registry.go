// Package props holds one monitor per property C01..C20.
package props

import (
	"sort"

	"verif/core"
)

// Prop describes one property monitor.
type Prop struct {
	ID          string
	Level       string // evidence level
	Rule        string // how cases are generated and what makes one non-trivial / distinct
	Assumptions []string
	Race        bool // needs the -race build
	Workers     int  // 0 = default
	// Run executes this worker's shard of the workload.
	Run func(c *core.Ctx)
	// Replay re-executes one recorded violation and reports whether it still violates.
	Replay func(c *core.Ctx, v *core.Violation) (bool, string)
	// Floors inspects the merged statistics and returns reasons why the run is inconclusive (coverage floors).
	Floors func(m *Merged) []string
	// Exhaustive describes the finite sub-space that was enumerated completely ("" if none).
	Exhaustive func(tier string) string
	// Extra lets a property add keys to coverage.
	Extra func(m *Merged, cov map[string]any)
	// Env returns extra environment variables for a worker process.
	Env func(shard, nshards int, workDir string) []string
	// Post runs in the driver after all workers finished (e.g. scanning race-detector logs).
	Post func(workDir string, m *Merged) []*core.Violation
	// DeadWorkerIsViolation: a worker killed by a fatal runtime error is itself a refutation (concurrency properties).
	DeadWorkerIsViolation bool
}

// Merged is the union of all worker summaries.
type Merged struct {
	Tier     string
	Evals    int64
	Counters map[string]int64
	Sets     map[string]map[string]int64
	Samples  []any
	Distinct int
	SigDrop  int64
}

// SetKeys returns the sorted values of a set.
func (m *Merged) SetKeys(name string) []string {
	var out []string
	for k := range m.Sets[name] {
		out = append(out, k)
	}
	sort.Strings(out)
	return out
}

// Registry maps property id to monitor.
var Registry = map[string]*Prop{}

func register(p *Prop) { Registry[p.ID] = p }
