package props

import (
	"bytes"
	"fmt"
	"strings"

	"github.com/yuin/goldmark/text"

	"verif/cfg"
	"verif/core"
	"verif/oracle"
	"verif/rw"
	"verif/wl"
)

// Coverage-guided engine: FuzzOne evaluates one (selector, input) pair with the per-case oracle of a property.
// It is what the Go fuzzing engine (harness/fz) calls, and what the distilled corpus it produced is replayed
// through.  Only properties whose oracle gives a verdict for an arbitrary source are served.

// FuzzProps lists the properties served by the coverage-guided engine.
var FuzzProps = []string{"C01", "C03", "C04", "C05", "C06", "C08", "C10", "C11", "C12", "C15", "C16", "C17"}

var (
	fzPool   = cfg.NewPool()
	fzGroups = map[string]*c10Group{}
	fzC12    *c12State
	fzAll    = append(cfg.All(), cfg.RichSpecs()...)
	fzSafe   = append(cfg.Safe(), richSafe()...)
	fzPSide  = append(cfg.ParserSide(), richSafe()...)
	fzC08    = c08Specs()
	fzC15    = c15Specs()
	fzC16    = c16Specs()
	fzC17    = c17Specs()
	fzC12Sp  = []cfg.Spec{{Ext: cfg.ExtCore}, {Ext: cfg.ExtCore, AutoHeadingID: true, Attribute: true}, {Ext: cfg.ExtGFM}, {Ext: cfg.ExtGFM, Attribute: true, XHTML: true},
		{Ext: cfg.ExtAll, AutoHeadingID: true, Attribute: true}, {Ext: cfg.ExtAll, Unsafe: true, HardWraps: true}, {Ext: cfg.ExtFootnote}, {Ext: cfg.ExtDefList, Attribute: true},
		{Ext: cfg.ExtTypographer}, {Ext: cfg.ExtCJKSimple}, {Ext: cfg.ExtCJKCSS3, XHTML: true}, {Ext: cfg.ExtCJKEscSpace, AutoHeadingID: true},
		{Ext: cfg.ExtAll, Rich: true, AutoHeadingID: true, Attribute: true}, {Ext: cfg.ExtGFM, Rich: true, Unsafe: true, XHTML: true}}
)

// richSafe: the safe-mode configurations whose extensions carry non-default options.
func richSafe() []cfg.Spec {
	var out []cfg.Spec
	for _, s := range cfg.RichSpecs() {
		if !s.Unsafe {
			out = append(out, s)
		}
	}
	return out
}

// FuzzServes reports whether the engine serves the property.
func FuzzServes(id string) bool {
	for _, p := range FuzzProps {
		if p == id {
			return true
		}
	}
	return false
}

// FuzzResult is the verdict of one coverage-guided execution.
type FuzzResult struct {
	Bad    bool   `json:"bad"`
	Config string `json:"config"`
	Class  string `json:"class"`
	Locus  string `json:"locus"`
	Detail string `json:"detail"`
	Script any    `json:"script,omitempty"`
	// Input is what the oracle really evaluated (C08 and C11 first make the bytes eligible by substitution); it is the
	// input to hand to the property's Replay.
	Input []byte `json:"input"`
}

func (r *FuzzResult) reject(class, locus, detail string, script any) {
	r.Bad, r.Class, r.Locus, r.Detail, r.Script = true, class, locus, detail, script
}

// FuzzOne evaluates one (selector, input) pair with the per-case oracle of property id.
func FuzzOne(id string, sel uint16, data []byte) (res FuzzResult) {
	res.Input = data
	defer func() {
		if p := recover(); p != nil {
			// a panic of goldmark is C01's business; the other oracles treat the case as not evaluable
			if id == "C01" {
				res.reject("panic", stripDigits(fmt.Sprint(p)), "panic: "+fmt.Sprint(p), nil)
			} else {
				res.Bad = false
			}
		}
	}()
	s := int(sel)
	switch id {
	case "C01":
		spec := fzAll[s%len(fzAll)]
		res.Config = spec.Name()
		md := fzPool.Get(spec)
		r := parseRender(md, data)
		if r.Panic != nil {
			res.reject("panic-"+r.Phase, panicLocus(r.Panic, r.Stack), fmt.Sprintf("panic: %v\n%s", r.Panic, r.Stack), nil)
			return
		}
		if r.Err != nil {
			res.reject("error-with-good-writer", stripDigits(r.Err.Error()), r.Err.Error(), nil)
			return
		}
		r2 := convert(md, data)
		if r2.Panic != nil {
			res.reject("panic-convert", panicLocus(r2.Panic, r2.Stack), fmt.Sprintf("panic: %v\n%s", r2.Panic, r2.Stack), nil)
		} else if r2.Err != nil {
			res.reject("error-with-good-writer", stripDigits(r2.Err.Error()), r2.Err.Error(), nil)
		}
	case "C03":
		spec := fzSafe[s%len(fzSafe)]
		res.Config = spec.Name()
		out := parseRender(fzPool.Get(spec), data)
		if !out.OK() {
			return
		}
		if cl, lo, d := c03Verdict(spec, out.Out, nil); cl != "" {
			res.reject(cl, lo, d, nil)
		}
	case "C04":
		spec := fzSafe[s%len(fzSafe)]
		res.Config = spec.Name()
		tw := spec
		tw.Unsafe = true
		_ = parseRender(fzPool.Get(tw), data)
		out := parseRender(fzPool.Get(spec), data)
		if !out.OK() {
			return
		}
		urls, _ := c04Extract(out.Out)
		for _, u := range urls {
			if u.Scheme != "" {
				res.reject("dangerous-url", u.Scheme+" in "+u.Elem+"/"+u.Attr, fmt.Sprintf("<%s %s=%q> normalises to %q", u.Elem, u.Attr, u.Value, u.Norm), nil)
				return
			}
		}
	case "C05":
		spec := fzPSide[s%len(fzPSide)]
		res.Config = spec.Name()
		doc := fzPool.Get(spec).Parser().Parse(text.NewReader(data))
		if ps := oracle.CheckAST(doc, data, nil); len(ps) > 0 {
			res.reject("ast-"+ps[0].Class, ps[0].Locus, ps[0].Detail, nil)
		}
	case "C06":
		spec := fzAll[s%len(fzAll)]
		res.Config = spec.Name()
		md := fzPool.Get(spec)
		doc := md.Parser().Parse(text.NewReader(data))
		var b1, b2, b3 bytes.Buffer
		before := oracle.Snapshot(doc)
		if md.Renderer().Render(&b1, data, doc) != nil {
			return
		}
		after := oracle.Snapshot(doc)
		_ = md.Renderer().Render(&b2, data, doc)
		if before != after {
			res.reject("render-mutates-tree", "snapshot", "tree snapshot changed during Render", nil)
			return
		}
		if !bytes.Equal(b1.Bytes(), b2.Bytes()) {
			res.reject("render-mutates-tree", "second-render", "second render of the same tree differs", nil)
			return
		}
		// the long-lived pooled instance (it has converted everything before) against an instance without history
		if spec.Build().Convert(data, &b3) == nil && !bytes.Equal(b1.Bytes(), b3.Bytes()) {
			res.reject("history-dependent-output", "pooled-vs-fresh", "instance with history differs from a fresh instance", nil)
		}
	case "C08":
		spec := fzC08[s%len(fzC08)]
		res.Config = spec.Name()
		d := c08Sanitize(data)
		if !c08Eligible(d) {
			return
		}
		res.Input = d
		n := 1 + (s/len(fzC08))%3
		cl, lo, det, _, ok := c08Eval(fzPool.Get(spec), &c08Case{spec: spec, d: d, n: n})
		if ok && cl != "" {
			res.reject(cl, lo, det, map[string]any{"n": n})
		}
	case "C10":
		base := c10Base(s%cfg.NExt, (s/cfg.NExt)%2)
		if s%11 == 10 {
			base = c10Direct(s / 11 % 2)
		}
		res.Config = base.Name()
		g := fzGroups[res.Config]
		if g == nil {
			g = c10Build(base)
			fzGroups[res.Config] = g
		}
		deco := (s/(2*cfg.NExt))%4 == 0
		rs, st := c10EvalMode(g, data, deco)
		if st.evaluable && len(rs) > 0 {
			lo := rs[0].locus
			if deco {
				lo = "decorated-tree:" + lo
			}
			res.reject(rs[0].class, lo, rs[0].detail, nil)
		}
	case "C11":
		e := c11Exts[s%len(c11Exts)]
		unsafe := (s/len(c11Exts))%2 == 1
		po := (s / (2 * len(c11Exts))) % 4
		a := cfg.Spec{Only: []string{}, Unsafe: unsafe, AutoHeadingID: po&1 != 0, Attribute: po&2 != 0}
		b := cfg.Spec{Only: []string{e.name}, Unsafe: unsafe, AutoHeadingID: po&1 != 0, Attribute: po&2 != 0}
		if (s/(8*len(c11Exts)))%2 == 1 && !isCJK(e.name) {
			// on top of the other non-CJK extensions
			var base []string
			for _, n := range c11BaseNames {
				if n != e.name && !isCJK(n) {
					base = append(base, n)
				}
			}
			a.Only = base
			b.Only = append(append([]string{}, base...), e.name)
		}
		res.Config = b.Name()
		d := e.strip(data)
		if c11HasTrigger(e.name, d) {
			return
		}
		res.Input = d
		cl, lo, det, ok := c11Eval(fzPool, a, b, d, nil, e.name)
		if ok && cl != "" {
			res.reject(cl, lo, det, map[string]any{"without": a.Name(), "with": b.Name(), "extension": e.name})
		}
	case "C12":
		spec := fzC12Sp[s%len(fzC12Sp)]
		res.Config = spec.Name()
		if fzC12 == nil {
			buf, err := rw.New(1 << 17)
			if err != nil {
				return
			}
			fzC12 = &c12State{buf: buf}
		}
		if len(data) > 1<<16 {
			return
		}
		spare := []int{0, 1, 64}[(s/len(fzC12Sp))%3]
		mode := (s / (3 * len(fzC12Sp))) % 3
		md := fzPool.Get(spec)
		cl, lo, det := fzC12.protected(md, data, spare, mode)
		if cl == "" {
			cl, lo, det = c12CanaryPass(md, data, spare, mode)
		}
		if cl != "" && cl != "panic" {
			res.reject(cl, lo, det, map[string]any{"spare": spare, "mode": mode})
		}
	case "C15":
		spec := fzC15[s%len(fzC15)]
		res.Config = spec.Name()
		x := c15Inspect(fzPool.Get(spec), data)
		if x.ok && x.problem != "" {
			res.reject(x.problem, x.locus, x.detail, nil)
		}
	case "C16":
		spec := fzC16[s%len(fzC16)]
		res.Config = spec.Name()
		fs, _, _, st := c16Eval(fzPool.Get(spec), spec, data, nil)
		if st == "ok" && len(fs) > 0 {
			res.reject(fs[0].class, fs[0].locus, fs[0].detail, nil)
		}
	case "C17":
		spec := fzC17[s%len(fzC17)]
		res.Config = spec.Name()
		fs, _, st := c17Eval(fzPool.Get(spec), spec, data, nil)
		if st == "ok" && len(fs) > 0 {
			res.reject(fs[0].class, fs[0].locus, fs[0].detail, nil)
		}
	}
	return
}

// CovReplay runs this worker's share of the distilled corpus (wl.CovCorpus) through the per-case oracle, under k
// configurations per input.  It is a deterministic stage of every served check.
func CovReplay(c *core.Ctx, id string) {
	if !FuzzServes(id) {
		return
	}
	docs := wl.CovCorpus()
	k := c.N(3, 24)
	for i, d := range docs {
		if !c.Mine(i) {
			continue
		}
		for j := 0; j < k; j++ {
			sel := uint16((i*7 + j*37 + int(c.Seed)*11) & 0xffff)
			c.Begin("cov:"+fmt.Sprint(sel), d)
			r := FuzzOne(id, sel, d)
			c.End()
			c.Eval()
			c.Count("distilled_corpus_cases", 1)
			if r.Bad {
				if c.Seen(r.Class, r.Locus) {
					c.Violation(&core.Violation{Class: r.Class, Locus: r.Locus, Config: r.Config, Input: r.Input})
					continue
				}
				c.Violation(&core.Violation{Class: r.Class, Locus: r.Locus, Config: r.Config, Input: r.Input, Detail: r.Detail, Script: r.Script})
			}
		}
		c.Count("distilled_corpus_inputs", 1)
	}
}

// FamilyReplay runs the scalable input families (wl.DeepFamilies: nesting, long runs, and counted structures such as n
// footnotes referenced out of order or n definitions) at every boundary size through the per-case oracle.  Thresholds at
// which an implementation changes algorithm or recycles a buffer are not known in advance; boundary sizes on both sides
// of powers of two and of round numbers are where they sit.
func FamilyReplay(c *core.Ctx, id string) {
	if !FuzzServes(id) || id == "C01" || id == "C05" || id == "C12" {
		return // C01, C05 and C12 run the families in their own workloads
	}
	k := c.N(2, 8)
	idx := 0
	for fi, fam := range wl.DeepFamilies {
		for _, n := range wl.BoundarySizes {
			if fi < wl.FirstLimitFamily && n > 257 {
				continue
			}
			if strings.HasSuffix(fam.Name, "-xl") && (id != "C17" || n != 1025) {
				continue // very large outputs: only where the shape itself is the subject
			}
			idx++
			if !c.Mine(idx) {
				continue
			}
			d := fam.Gen(n)
			if len(d) > 1<<18 {
				continue
			}
			for j := 0; j < k; j++ {
				sel := uint16((idx*13 + j*101 + int(c.Seed)*7) & 0xffff)
				c.Begin("cov:"+fmt.Sprint(sel), d)
				r := FuzzOne(id, sel, d)
				c.End()
				c.Eval()
				c.Count("family_cases", 1)
				if r.Bad {
					c.Observe("families_with_violations", fam.Name)
					if c.Seen(r.Class, r.Locus) {
						c.Violation(&core.Violation{Class: r.Class, Locus: r.Locus, Config: r.Config, Input: r.Input})
						continue
					}
					c.Violation(&core.Violation{Class: r.Class, Locus: r.Locus, Config: r.Config, Input: r.Input, Script: r.Script,
						Detail: fmt.Sprintf("family %s at size %d\n%s", fam.Name, n, r.Detail)})
				}
			}
		}
	}
}
