package props

import (
	"bytes"
	"fmt"
	"math/rand"
	"strings"

	"github.com/yuin/goldmark"
	"github.com/yuin/goldmark/ast"

	"verif/cfg"
	"verif/core"
	"verif/sg"
	"verif/wl"
)

// C09 — closed blocks render independently; link reference definitions work from anywhere.

func init() {
	register(&Prop{
		ID:    "C09",
		Level: "exploration",
		Rule: "two metamorphic relations over executions of the real converter. (i) independence: for CR-free A, B without '[' where A does not end inside an open fenced/indented code block or HTML block, " +
			"Convert(A + blank line + ATX heading line + blank line + B) == Convert(A) + heading + Convert(B), byte for byte, with several spellings of the heading line; " +
			"(ii) definitions: for D not ending inside an open code/HTML block and a block Defs of link reference definitions with fresh labels (referenced from D in random case/whitespace variants), " +
			"Convert(Defs + blank + D) == Convert(D + blank + Defs). Pairs that do not satisfy the side conditions are skipped and counted, never passed or failed. " +
			"Sources: line soup, token soup, corpus items and mutants with '[' and CR removed; configurations {core, GFM} x {safe, unsafe}. " +
			"Non-trivial = A and B (or D) both contain a node other than Document/Paragraph/Text; distinct = distinct (shape signature of A, shape signature of B, extension set).",
		Assumptions: []string{
			"'ends inside an open block' is decided conservatively from A's own tree: the chain of last children must not contain an indented code block, an HTML block of types 1-5 without closure line, or a fenced code block unless a fence line follows its last content line (which can then only be its closing fence)",
			"'no link reference syntax' is enforced as 'no [ byte' exactly as the property's quantifier says; in relation (ii) D additionally contains no ']:' except through the generated references",
			"a panic or error during conversion is counted and left to C01",
		},
		Run:    runC09,
		Replay: replayC09,
		Floors: func(m *Merged) []string {
			var out []string
			if m.Counters["independence_pairs"] < 10000 {
				out = append(out, fmt.Sprintf("only %d independence pairs evaluated", m.Counters["independence_pairs"]))
			}
			if m.Counters["definition_moves"] < 5000 {
				out = append(out, fmt.Sprintf("only %d definition moves evaluated", m.Counters["definition_moves"]))
			}
			if n := len(m.Sets["adjacency"]); n < 80 {
				out = append(out, fmt.Sprintf("only %d (last block of A, first block of B) adjacencies covered", n))
			}
			if m.Counters["definition_moves_with_resolved_links"] < 1000 {
				out = append(out, "too few definition moves in which the moved definitions were actually used by a link")
			}
			return out
		},
		Exhaustive: func(tier string) string { return "" },
	})
}

func c09Specs() []cfg.Spec {
	return []cfg.Spec{{Ext: cfg.ExtCore}, {Ext: cfg.ExtCore, Unsafe: true}, {Ext: cfg.ExtGFM}, {Ext: cfg.ExtGFM, Unsafe: true}}
}

// c09Clean removes CR and '[' by substitution.
func c09Clean(d []byte) []byte {
	if bytes.IndexByte(d, '\r') < 0 && bytes.IndexByte(d, '[') < 0 {
		return d
	}
	out := make([]byte, 0, len(d))
	for i := 0; i < len(d); i++ {
		switch d[i] {
		case '\r':
			if i+1 < len(d) && d[i+1] == '\n' {
				continue
			}
			out = append(out, '\n')
		case '[':
			out = append(out, '(')
		default:
			out = append(out, d[i])
		}
	}
	return out
}

// c09EndsOpen decides (conservatively) from A's tree whether A ends inside an open code or HTML block.
func c09EndsOpen(doc ast.Node, src []byte) (bool, string) {
	for n := doc.LastChild(); n != nil; n = n.LastChild() {
		switch b := n.(type) {
		case *ast.CodeBlock:
			return true, "indented-code"
		case *ast.HTMLBlock:
			if b.HTMLBlockType <= ast.HTMLBlockType5 && !b.HasClosure() {
				// No closure line recorded. Whether the block is closed is decided from the specification's end conditions,
				// not from goldmark's opinion: it is closed iff one of its lines contains the end condition of its type.
				if c09HTMLEndConditionMet(b, src) {
					return false, ""
				}
				return true, "html-block-1-5-end-condition-not-met"
			}
			return false, ""
		case *ast.FencedCodeBlock:
			ls := b.Lines()
			if ls == nil || ls.Len() == 0 {
				return true, "fenced-without-content"
			}
			first := ls.At(0)
			end := ls.At(ls.Len() - 1).Stop
			if end > len(src) || first.Start > len(src) || first.Start < 0 {
				return true, "fenced-bad-segment"
			}
			rest := src[end:]
			if bytes.Contains(rest, []byte("```")) || bytes.Contains(rest, []byte("~~~")) {
				// F is the last block, so a fence after its last content line can only be its closing fence
				return false, ""
			}
			// Independent of goldmark's decision: a content line that is a valid closing fence per the specification
			// (<= 3 columns of indentation, at least as many fence characters as the opening fence, nothing else) closes the block.
			ch, n, find := c09OpeningFence(src, first.Start)
			if n == 0 {
				return true, "fenced-opening-not-found"
			}
			for i := 0; i < ls.Len(); i++ {
				seg := ls.At(i)
				if c09IsClosingFence(seg.Value(src), ch, n, find) {
					return false, ""
				}
			}
			return true, "fenced-unclosed"
		}
		if n.Type() == ast.TypeInline {
			break
		}
	}
	return false, ""
}

// c09LastChainHasRawBlock: does the document end in (or inside) a block whose content is taken verbatim, line endings included?
func c09LastChainHasRawBlock(doc ast.Node) bool {
	for n := doc.LastChild(); n != nil; n = n.LastChild() {
		switch n.(type) {
		case *ast.CodeBlock, *ast.HTMLBlock, *ast.FencedCodeBlock:
			return true
		}
		if n.Type() == ast.TypeInline {
			break
		}
	}
	return false
}

var c09HTMLEnds = map[ast.HTMLBlockType][]string{
	ast.HTMLBlockType1: {"</script>", "</pre>", "</style>", "</textarea>"},
	ast.HTMLBlockType2: {"-->"},
	ast.HTMLBlockType3: {"?>"},
	ast.HTMLBlockType4: {">"},
	ast.HTMLBlockType5: {"]]>"},
}

func c09HTMLEndConditionMet(b *ast.HTMLBlock, src []byte) bool {
	ls := b.Lines()
	for i := 0; i < ls.Len(); i++ {
		seg := ls.At(i)
		if seg.Start < 0 || seg.Stop > len(src) || seg.Start > seg.Stop {
			return false
		}
		// ASCII case only: tag names are matched ASCII-case-insensitively, and Unicode lower-casing would turn U+0130 and
		// U+212A into the letters i and k ("</scr\u0130pt>" is not an end tag)
		line := asciiLower(src[seg.Start:seg.Stop])
		for _, e := range c09HTMLEnds[b.HTMLBlockType] {
			if bytes.Contains(line, []byte(e)) {
				return true
			}
		}
	}
	return false
}

func asciiLower(b []byte) []byte {
	out := make([]byte, len(b))
	for i, c := range b {
		if c >= 'A' && c <= 'Z' {
			c += 32
		}
		out[i] = c
	}
	return out
}

// c09OpeningFence finds the fence of the line that precedes the line containing offset pos.
// It also returns an upper bound of the fence's own indentation (spaces directly before it), which goldmark strips from content lines.
func c09OpeningFence(src []byte, pos int) (byte, int, int) {
	ls := bytes.LastIndexByte(src[:pos], '\n')
	if ls <= 0 {
		return 0, 0, 0
	}
	ps := bytes.LastIndexByte(src[:ls], '\n') + 1
	line := src[ps:ls]
	for i := 0; i < len(line); i++ {
		if line[i] == '`' || line[i] == '~' {
			j := i
			for j < len(line) && line[j] == line[i] {
				j++
			}
			if j-i >= 3 {
				// upper bound of the fence's own indentation: the white space directly before it (a tab may stand for up to
				// three columns of it; a fence is never indented more than three)
				ind := 0
				for k := i - 1; k >= 0 && (line[k] == ' ' || line[k] == '\t'); k-- {
					if line[k] == '\t' {
						ind = 3
						break
					}
					ind++
				}
				if ind > 3 {
					ind = 3
				}
				return line[i], j - i, ind
			}
			i = j - 1
		}
	}
	return 0, 0, 0
}

func c09IsClosingFence(v []byte, ch byte, n int, stripped int) bool {
	i := 0
	for i < len(v) && v[i] == ' ' && i < 4 {
		i++
	}
	// the line's own indentation is at most what is left plus what was stripped
	if i+stripped > 3 {
		return false
	}
	j := i
	for j < len(v) && v[j] == ch {
		j++
	}
	if j-i < n {
		return false
	}
	for ; j < len(v); j++ {
		if v[j] != ' ' && v[j] != '\n' {
			return false
		}
	}
	return true
}

var c09Headings = []struct{ line, html string }{
	{"# h", "<h1>h</h1>\n"},
	{"## h", "<h2>h</h2>\n"},
	{"# h #", "<h1>h</h1>\n"},
	{"###### h ######", "<h6>h</h6>\n"},
	{"#  h  ", "<h1>h</h1>\n"},
	{"### z z", "<h3>z z</h3>\n"},
}

func firstBlockKind(doc ast.Node, last bool) string {
	if doc == nil {
		return "none"
	}
	n := doc.FirstChild()
	if last {
		n = doc.LastChild()
	}
	if n == nil {
		return "empty"
	}
	k := n.Kind().String()
	if hb, ok := n.(*ast.HTMLBlock); ok {
		k = fmt.Sprintf("HTMLBlock%d", int(hb.HTMLBlockType))
	}
	if l, ok := n.(*ast.List); ok {
		if l.IsOrdered() {
			k = "OrderedList"
		}
		if !l.IsTight {
			k += "Loose"
		}
	}
	return k
}

type c09Indep struct {
	a, b []byte
	h    int
	// arena (optional): A and then B are read into this one recycled buffer before they are converted, as a caller does that
	// reuses its read buffer; the combined document comes from a slice of its own
	arena *srcArena
}

// c09EvalIndep: status "ok", "skip:<why>", "fail" (conversion failed) or "bad".
func c09EvalIndep(md goldmark.Markdown, cs *c09Indep) (status, locus, detail string, da, db ast.Node) {
	srcA, srcB := cs.a, cs.b
	if cs.arena != nil {
		srcA = cs.arena.load(cs.a)
	}
	ra := parseRender(md, srcA)
	if !ra.OK() {
		return "fail", "", "", nil, nil
	}
	if open, why := c09EndsOpen(ra.Doc, cs.a); open {
		return "skip:" + why, "", "", ra.Doc, nil
	}
	if cs.arena != nil {
		srcB = cs.arena.load(cs.b)
	}
	rb := parseRender(md, srcB)
	if !rb.OK() {
		return "fail", "", "", ra.Doc, nil
	}
	h := c09Headings[cs.h%len(c09Headings)]
	var src []byte
	src = append(src, cs.a...)
	src = append(src, "\n\n"...)
	src = append(src, h.line...)
	src = append(src, "\n\n"...)
	src = append(src, cs.b...)
	rc := convert(md, src)
	if !rc.OK() {
		return "fail", "", "", ra.Doc, rb.Doc
	}
	var want []byte
	want = append(want, ra.Out...)
	want = append(want, h.html...)
	want = append(want, rb.Out...)
	if bytes.Equal(rc.Out, want) {
		// The same relation for A WITHOUT its final newline (the statement does not ask for one). Skipped when A ends in a code
		// or HTML block, whose content includes its line endings: there the unterminated form differs by that byte alone.
		if n := len(cs.a); n > 1 && cs.a[n-1] == '\n' && cs.a[n-2] != '\n' && cs.arena == nil && !c09LastChainHasRawBlock(ra.Doc) {
			au := cs.a[:n-1]
			ru := convert(md, au)
			var srcu []byte
			srcu = append(srcu, au...)
			srcu = append(srcu, "\n\n"...)
			srcu = append(srcu, h.line...)
			srcu = append(srcu, "\n\n"...)
			srcu = append(srcu, cs.b...)
			rcu := convert(md, srcu)
			if ru.OK() && rcu.OK() {
				var wantu []byte
				wantu = append(wantu, ru.Out...)
				wantu = append(wantu, h.html...)
				wantu = append(wantu, rb.Out...)
				if !bytes.Equal(rcu.Out, wantu) {
					return "bad", "unterminated-A:" + firstBlockKind(ra.Doc, true), fmt.Sprintf("A without a final newline: combined source %s\n%s", q(srcu), firstDiff(rcu.Out, wantu)), ra.Doc, rb.Doc
				}
			}
		}
		return "ok", "", "", ra.Doc, rb.Doc
	}
	// locus: which side diverges
	side := "in-B"
	i := 0
	for i < len(rc.Out) && i < len(want) && rc.Out[i] == want[i] {
		i++
	}
	if i < len(ra.Out) {
		side = "in-A"
	} else if i < len(ra.Out)+len(h.html) {
		side = "at-heading"
	}
	locus = side + ":" + firstBlockKind(ra.Doc, true) + "|" + firstBlockKind(rb.Doc, false)
	return "bad", locus, fmt.Sprintf("combined source %s\n%s", q(src), firstDiff(rc.Out, want)), ra.Doc, rb.Doc
}

func c09CheckIndep(c *core.Ctx, pool *cfg.Pool, spec cfg.Spec, cs *c09Indep) {
	name := spec.Name()
	md := pool.Get(spec)
	joined := append(append(append([]byte(nil), cs.a...), 0xfe), cs.b...)
	c.Begin(name, joined)
	status, locus, detail, da, db := c09EvalIndep(md, cs)
	c.End()
	c.Evals(3)
	c.Observe("configs", name)
	switch {
	case status == "fail":
		c.Count("conversion_failed_left_to_C01", 1)
		return
	case strings.HasPrefix(status, "skip:"):
		c.Count("independence_skipped:"+status[5:], 1)
		return
	}
	c.Count("independence_pairs", 1)
	c.Observe("adjacency", firstBlockKind(da, true)+"|"+firstBlockKind(db, false))
	c.Observe("heading_spelling", c09Headings[cs.h%len(c09Headings)].line)
	sa, sb := observeShape(c, da, ""), observeShape(c, db, "")
	if sa.NonTrivial && sb.NonTrivial {
		c.Sig(sa.Sig*31 ^ sb.Sig ^ core.HashStr(extName(spec)))
	}
	if status != "bad" {
		return
	}
	class := "neighbour-block-changed-rendering"
	if cs.arena != nil {
		c.Violation(&core.Violation{Class: class, Locus: locus + ":recycled-source-buffer", Config: name, Input: joined,
			Detail: "A and then B were converted from one recycled source buffer (B written over A), the combined document from a slice of its own\n" + detail,
			Script: map[string]any{"relation": "independence", "a": string(cs.a), "b": string(cs.b), "heading": cs.h, "recycled_buffer": true}})
		return
	}
	if c.Seen(class, locus) {
		c.Violation(&core.Violation{Class: class, Locus: locus, Config: name, Input: joined})
		return
	}
	fresh := spec.Build()
	h := cs.h
	bad := func(a, b []byte) bool {
		st, lo, _, _, _ := c09EvalIndep(fresh, &c09Indep{a: a, b: b, h: h})
		return st == "bad" && lo == locus
	}
	a, b := cs.a, cs.b
	a = core.Minimize(a, func(x []byte) bool {
		return len(x) > 0 && x[len(x)-1] == '\n' && bytes.IndexByte(x, '[') < 0 && bad(x, b)
	}, 700)
	b = core.Minimize(b, func(x []byte) bool { return bytes.IndexByte(x, '[') < 0 && bad(a, x) }, 700)
	if _, _, d, _, _ := c09EvalIndep(fresh, &c09Indep{a: a, b: b, h: h}); d != "" {
		detail = d
	}
	c.Violation(&core.Violation{Class: class, Locus: locus, Config: name, Input: append(append(append([]byte(nil), a...), 0xfe), b...),
		Detail: detail, Script: map[string]any{"relation": "independence", "a": string(a), "b": string(b), "heading": h}})
}

var c09TwinLines = [][2]string{{"* a b", "*a* b"}, {"- item", "-item-"}, {"1. one", "1.5 is"}, {"+ x y", "+x+ y"}, {"10) ab", "10)ab."}, {"# a b", "#a  b"}, {"## hh", "##hh."},
	{"~~~ x", "~~x y"}, {"    c", "   cc"}, {"---", "--x"}, {"***", "**x"}, {"___", "__x"}, {"===", "==x"}, {"<div>", "<dix>"}, {"<!-- c -->", "<!- cc -->."}, {"| a | b |", "( a ) b )"},
	{": def", ";:def"}, {"- ( ) t", "-( ) tt"}, {"> q r", ">q r."}, {"* * *", "* *x*"}, {"2. a", "2.a."}, {"-", "a"}, {"*\tb", "*b\t"}, {"   # h", "  x# h"}}
var c09TwinFrames = [][2]string{{"", "\n"}, {"para\n\n", "\n\nafter\n"}, {"para\n", "\nmore\n"}, {"- x\n\n  ", "\n"}, {"> ", "\n> more\n"}, {"first\n\n", "\n\n---\n"}, {"| h | i |\n|---|---|\n", "\n"}}

func c09Twins(c *core.Ctx, pool *cfg.Pool, specs []cfg.Spec) {
	a := &srcArena{}
	k := 0
	for _, fr := range c09TwinFrames {
		for _, tw := range c09TwinLines {
			for order := 0; order < 2; order++ {
				for si, sp := range specs {
					k++
					if !c.Mine(k) {
						continue
					}
					x, y := tw[order], tw[1-order]
					docA := []byte(fr[0] + x + fr[1])
					docB := []byte(fr[0] + y + fr[1])
					c09CheckIndep(c, pool, sp, &c09Indep{a: docA, b: docB, h: k + si, arena: a})
					c.Count("twin_pairs_through_a_recycled_buffer", 1)
				}
			}
		}
	}
}

// ---- relation (ii): moving definitions ----

type c09Def struct {
	label string // canonical label
	dest  string
	title string
}

type c09Move struct {
	d    []byte
	defs []byte
}

var c09Labels = []string{"zq", "Zeta Ref", "x1 y2", "ÄÖ ü", "ΑΓΩ", "ref-3", "ẞ", "a*b", "with `tick`", "!bang", "123", "very long label with many words inside it"}

// respell returns a case/whitespace variant of a label that normalises to the same reference.
func c09Respell(r *rand.Rand, label string) string {
	var b strings.Builder
	if r.Intn(3) == 0 {
		b.WriteString(strings.Repeat(" ", 1+r.Intn(2)))
	}
	for _, ru := range label {
		switch {
		case ru == ' ':
			switch r.Intn(4) {
			case 0:
				b.WriteString("  ")
			case 1:
				b.WriteString("\n")
			case 2:
				b.WriteString(" \n ")
			default:
				b.WriteByte(' ')
			}
		case r.Intn(2) == 0:
			b.WriteString(strings.ToUpper(string(ru)))
		default:
			b.WriteString(strings.ToLower(string(ru)))
		}
	}
	if r.Intn(3) == 0 {
		b.WriteString(" ")
	}
	return b.String()
}

func c09GenDefs(r *rand.Rand) ([]c09Def, []byte) {
	n := 1 + r.Intn(3)
	perm := r.Perm(len(c09Labels))[:n]
	var defs []c09Def
	var b bytes.Buffer
	for i, p := range perm {
		d := c09Def{label: c09Labels[p], dest: fmt.Sprintf("/u%d", i)}
		lab := d.label
		if r.Intn(2) == 0 {
			lab = strings.ReplaceAll(c09Respell(r, lab), "\n", " ")
		}
		switch r.Intn(4) {
		case 0:
			d.dest = "<" + d.dest + " x>"
		case 1:
			d.dest = "http://e.x/" + fmt.Sprint(i) + "?a=b&c"
		}
		if i > 0 {
			// the first definition starts at column 0 so that, placed after D, it cannot continue a list item of D
			b.WriteString(strings.Repeat(" ", r.Intn(4)))
		}
		b.WriteString("[" + lab + "]:")
		if r.Intn(5) == 0 {
			b.WriteString("\n ")
		} else {
			b.WriteString(strings.Repeat(" ", 1+r.Intn(2)))
		}
		b.WriteString(d.dest)
		switch r.Intn(5) {
		case 0:
			b.WriteString(" \"t" + fmt.Sprint(i) + "\"")
		case 1:
			b.WriteString(" 'multi\nline " + fmt.Sprint(i) + "'")
		case 2:
			b.WriteString("\n  (paren " + fmt.Sprint(i) + ")")
		}
		b.WriteString("\n")
		if r.Intn(4) == 0 {
			b.WriteString("\n")
		}
		defs = append(defs, d)
	}
	return defs, b.Bytes()
}

// c09InjectRefs inserts references to the definitions (and to one undefined label) into D at line starts/ends and word gaps.
func c09InjectRefs(r *rand.Rand, d []byte, defs []c09Def) []byte {
	k := 1 + r.Intn(4)
	out := append([]byte(nil), d...)
	for i := 0; i < k; i++ {
		def := defs[r.Intn(len(defs))]
		lab := def.label
		if r.Intn(3) != 0 {
			lab = c09Respell(r, lab)
		}
		// a label that continues on the next line is only valid without container markers in between: keep multi-line respellings for top-level text
		var ref string
		switch r.Intn(6) {
		case 0:
			ref = "[" + lab + "]"
		case 1:
			ref = "[" + lab + "][]"
		case 2:
			ref = "[text *e*][" + lab + "]"
		case 3:
			ref = "![img][" + lab + "]"
		case 4:
			ref = "![" + lab + "]"
		default:
			ref = "[undefined zz][]" + " [" + lab + "]"
		}
		// insertion points: after a space or at a line start
		var pts []int
		pts = append(pts, 0, len(out))
		for j := 0; j < len(out); j++ {
			if out[j] == ' ' || out[j] == '\n' {
				pts = append(pts, j+1)
			}
		}
		p := pts[r.Intn(len(pts))]
		ins := ref + " "
		out = append(out[:p:p], append([]byte(ins), out[p:]...)...)
	}
	if len(out) == 0 || out[len(out)-1] != '\n' {
		out = append(out, '\n')
	}
	return out
}

// c09NearMiss gives D a definition of its own whose label is *not* the moved label but close to it: the interior space
// written as a character that is no space, tab or line ending for label matching (NBSP, EM SPACE, IDEOGRAPHIC SPACE, VT, FF,
// NEL, ZERO WIDTH SPACE, LINE SEPARATOR), or a punctuation character written as a backslash escape or a character reference
// (labels are matched on their raw spelling). D references both labels. The side condition of the relation holds - the moved
// label is not otherwise defined in D - so the position of the moved block must not matter.
var c09NearSpaces = []string{"\u00a0", "\u2003", "\u3000", "\v", "\f", "\u0085", "\u200b", "\u2028", "\u1680", "\u00a0 ", " \u3000"}

func c09NearMiss(r *rand.Rand, d []byte, defs []c09Def) []byte {
	def := defs[r.Intn(len(defs))]
	near := ""
	switch {
	case strings.Contains(def.label, " ") && r.Intn(4) != 0:
		near = strings.Replace(def.label, " ", c09NearSpaces[r.Intn(len(c09NearSpaces))], 1)
	case strings.ContainsAny(def.label, "*!-`"):
		i := strings.IndexAny(def.label, "*!-`")
		if r.Intn(2) == 0 {
			near = def.label[:i] + "\\" + def.label[i:]
		} else {
			near = def.label[:i] + fmt.Sprintf("&#%d;", def.label[i]) + def.label[i+1:]
		}
	default:
		near = def.label + c09NearSpaces[r.Intn(len(c09NearSpaces))] + "x"
	}
	lab := def.label
	if r.Intn(2) == 0 {
		lab = strings.ReplaceAll(c09Respell(r, lab), "\n", " ")
	}
	var b bytes.Buffer
	b.Write(d)
	fmt.Fprintf(&b, "\n[%s]: /defined-in-the-document\n\nnear [%s] and [t][%s], moved [%s] and ![i][%s]\n", near, near, near, lab, lab)
	return b.Bytes()
}

func c09EvalMove(md goldmark.Markdown, cs *c09Move) (status, locus, detail string, doc ast.Node, links int) {
	rd := parseRender(md, cs.d)
	if !rd.OK() {
		return "fail", "", "", nil, 0
	}
	if open, why := c09EndsOpen(rd.Doc, cs.d); open {
		return "skip:" + why, "", "", rd.Doc, 0
	}
	top := append(append(append([]byte(nil), cs.defs...), '\n'), cs.d...)
	bot := append(append(append([]byte(nil), cs.d...), "\n\n"...), cs.defs...)
	rt := parseRender(md, top)
	rb := convert(md, bot)
	if !rt.OK() || !rb.OK() {
		return "fail", "", "", rd.Doc, 0
	}
	if rt.Doc != nil {
		ast.Walk(rt.Doc, func(n ast.Node, entering bool) (ast.WalkStatus, error) {
			if entering {
				if k := n.Kind(); k == ast.KindLink || k == ast.KindImage {
					links++
				}
			}
			return ast.WalkContinue, nil
		})
	}
	if bytes.Equal(rt.Out, rb.Out) {
		// the same with the moved block ending the input without a final newline (the block renders nothing, and the
		// document before it is closed by the blank line, so nothing else may change)
		ru := convert(md, bytes.TrimRight(bot, "\n"))
		if ru.OK() && !bytes.Equal(rt.Out, ru.Out) {
			locus = "definitions-end-the-input-without-newline|last-block:" + firstBlockKind(rd.Doc, true)
			return "bad", locus, fmt.Sprintf("definitions %s\ndocument %s\nwith definitions at the END and no final newline (got) versus at the TOP (want)\n%s", q(cs.defs), q(cs.d), firstDiff(ru.Out, rt.Out)), rd.Doc, links
		}
		return "ok", "", "", rd.Doc, links
	}
	locus = "last-block:" + firstBlockKind(rd.Doc, true) + "|first-block:" + firstBlockKind(rd.Doc, false)
	return "bad", locus, fmt.Sprintf("definitions %s\ndocument %s\nwith definitions at the END (got) versus at the TOP (want)\n%s", q(cs.defs), q(cs.d), firstDiff(rb.Out, rt.Out)), rd.Doc, links
}

func c09CheckMove(c *core.Ctx, pool *cfg.Pool, spec cfg.Spec, cs *c09Move) {
	name := spec.Name()
	md := pool.Get(spec)
	joined := append(append(append([]byte(nil), cs.defs...), 0xfe), cs.d...)
	c.Begin(name, joined)
	status, locus, detail, doc, links := c09EvalMove(md, cs)
	c.End()
	c.Evals(3)
	c.Observe("configs", name)
	switch {
	case status == "fail":
		c.Count("conversion_failed_left_to_C01", 1)
		return
	case strings.HasPrefix(status, "skip:"):
		c.Count("definition_move_skipped:"+status[5:], 1)
		return
	}
	c.Count("definition_moves", 1)
	if links > 0 {
		c.Count("definition_moves_with_resolved_links", 1)
	}
	c.Observe("defs_follow_block", firstBlockKind(doc, true))
	c.Observe("defs_precede_block", firstBlockKind(doc, false))
	if sh := observeShape(c, doc, "move"+extName(spec)); sh.NonTrivial {
		c.Sig(sh.Sig ^ core.HashStr("move", extName(spec)))
	}
	if status != "bad" {
		return
	}
	class := "definition-position-matters"
	if c.Seen(class, locus) {
		c.Violation(&core.Violation{Class: class, Locus: locus, Config: name, Input: joined})
		return
	}
	fresh := spec.Build()
	defs := cs.defs
	d := core.Minimize(cs.d, func(x []byte) bool {
		if len(x) == 0 || x[len(x)-1] != '\n' {
			return false
		}
		st, lo, _, _, _ := c09EvalMove(fresh, &c09Move{d: x, defs: defs})
		return st == "bad" && lo == locus
	}, 900)
	if _, _, dd, _, _ := c09EvalMove(fresh, &c09Move{d: d, defs: defs}); dd != "" {
		detail = dd
	}
	c.Violation(&core.Violation{Class: class, Locus: locus, Config: name, Input: append(append(append([]byte(nil), defs...), 0xfe), d...),
		Detail: detail, Script: map[string]any{"relation": "move-definitions", "defs": string(defs), "d": string(d)}})
}

func replayC09(c *core.Ctx, v *core.Violation) (bool, string) {
	m, _ := v.Script.(map[string]any)
	spec := specOf(v.Config)
	if m != nil && m["relation"] == "move-definitions" {
		defs, _ := m["defs"].(string)
		d, _ := m["d"].(string)
		st, lo, det, _, _ := c09EvalMove(spec.Build(), &c09Move{d: []byte(d), defs: []byte(defs)})
		return st == "bad", st + " " + lo + " " + det
	}
	var a, b []byte
	h := 0
	if m != nil {
		as, _ := m["a"].(string)
		bs, _ := m["b"].(string)
		a, b = []byte(as), []byte(bs)
		if f, ok := m["heading"].(float64); ok {
			h = int(f)
		}
	} else if i := bytes.IndexByte(v.Input, 0xfe); i >= 0 {
		a, b = v.Input[:i], v.Input[i+1:]
	}
	st, lo, det, _, _ := c09EvalIndep(spec.Build(), &c09Indep{a: a, b: b, h: h})
	return st == "bad", st + " " + lo + " " + det
}

// c09DocNoRefs produces a CR-free document without '[' and without ']:'.
func c09Doc(r *rand.Rand, corpus []wl.Example) []byte {
	var d []byte
	switch r.Intn(7) {
	case 0, 1, 2:
		d = wl.SoupFrom(r, c08Lines, 1+r.Intn(8))
	case 3:
		d = wl.Soup(r, 1+r.Intn(20))
	case 4:
		d = []byte(sg.Document(r, 3, 4, 3, nil).Markdown)
	default:
		d = mixDoc(r, corpus)
	}
	d = c09Clean(d)
	// documents are sequences of complete lines: an unterminated last line would make raw (HTML/code) output differ by the
	// line ending alone once anything is appended
	if len(d) == 0 || d[len(d)-1] != '\n' {
		d = append(d, '\n')
	}
	return d
}

// c09Long concatenates many small documents (blank-line separated): state that accumulates with the length of a
// document (counters, buffers with thresholds, tables that grow) only shows on long inputs.
func c09Long(r *rand.Rand, corpus []wl.Example) []byte {
	var d []byte
	for k := 8 + r.Intn(70); k > 0; k-- {
		part := c09Doc(r, corpus)
		if r.Intn(3) == 0 {
			// plain multi-line paragraphs make line counts grow without closing anything special
			part = nil
			for n := 1 + r.Intn(40); n > 0; n-- {
				part = append(part, "line of text\n"...)
			}
		}
		d = append(d, part...)
		d = append(d, '\n')
	}
	return d
}

func runC09(c *core.Ctx) {
	pool := cfg.NewPool()
	specs := c09Specs()
	corpus := loadCorpus(c)
	r := c.Rng
	// (0) regression seeds: witnesses of repaired defects (72eab90: a tab-indented short last line taken for blank)
	if c.Shard == 0 {
		// (and documents that end in an HTML block whose "end tag" only looks like one: U+0130 / U+212A are not ASCII letters)
		for _, a := range []string{"<style></scr\u0130pt>\n", "<textarea></scr\u0130pt>\n", "<script></\u212are>\n", "> \t#\n", "> \t##\n", "- \t#\n", "1. \t#\n", "> \t:\n", "> \t-\n", ">  \t#\n"} {
			for si, sp := range specs {
				c09CheckIndep(c, pool, sp, &c09Indep{a: []byte(a), b: []byte("after\n"), h: si})
			}
		}
	}
	// (i) independence
	n1 := c.PerShard(c.N(600000, 25000000))
	for i := 0; i < n1; i++ {
		a, b := c09Doc(r, corpus), c09Doc(r, corpus)
		switch r.Intn(24) {
		case 0:
			a = c09Long(r, corpus)
			c.Count("independence_pairs_with_long_A", 1)
		case 1:
			b = c09Long(r, corpus)
			c.Count("independence_pairs_with_long_B", 1)
		}
		if r.Intn(8) == 0 {
			// A is itself a closed-block-terminated document: exercise explicit closers
			a = append(a, []string{"\n```\n", "\n-->\n", "\n\n", "\n</pre>\n", "\n?>\n", "\n]]>\n", "\n>\n"}[r.Intn(7)]...)
		}
		sp := specs[r.Intn(len(specs))]
		c09CheckIndep(c, pool, sp, &c09Indep{a: a, b: b, h: r.Intn(len(c09Headings))})
		if c.WantSample() && i%9000 == 17 {
			c.Sample(map[string]any{"relation": "independence", "config": sp.Name(), "A": q(a), "B": q(b)})
		}
	}
	// (i-twins) A and B differ in one line only, and there only in how the line reads: a block opener and a look-alike of the
	// same length at the same place ("* a b" / "*a* b", "1. one" / "1.5 is", "# a b" / "#a  b", "---" / "--x" ...). They are
	// converted one after the other from one recycled buffer, in both orders; the combined document is converted from a slice
	// of its own. What the parser decided about "the line at this place" for one must not be what it decides for the other.
	c09Twins(c, pool, specs)
	// (i') line-count boundaries: A is a plain document of exactly n lines, n on both sides of powers of two and ten, B is small
	// and sensitive to blank-line bookkeeping. State that depends on how many lines came before shows only at such n.
	bases := []int{100, 128, 256, 512, 1000, 1024, 2048, 4096}
	if !c.Quick() {
		bases = append(bases, 8192, 10000, 16384, 32768, 65536)
	}
	sensitive := []string{"- a\n\n- b\n", "1. a\n\n   b\n", "> - a\n>\n> - b\n", "- a\n- b\n\n  c\n", "a\n===\n", "    code\n\n    more\n", "```\nx\n\n```\n", "- a\n  - b\n\n  - c\n", "* a\n\n\n* b\n"}
	k := 0
	for _, base := range bases {
		for n := base - 8; n <= base+8; n++ {
			for shape := 0; shape < 3; shape++ {
				k++
				if !c.Mine(k) || n < 1 {
					continue
				}
				var a []byte
				switch shape {
				case 0: // one paragraph of n lines
					a = bytes.Repeat([]byte("line of text\n"), n)
				case 1: // two-line paragraphs: n lines in total, blank lines included
					for len(bytes.Split(a, []byte("\n")))-1 < n {
						a = append(a, "two\nlines\n\n"...)
					}
				default: // a tight list of n items
					a = bytes.Repeat([]byte("- item\n"), n)
				}
				for bi, b := range sensitive {
					c09CheckIndep(c, pool, specs[(k+bi)%len(specs)], &c09Indep{a: a, b: []byte(b), h: bi})
					c.Count("independence_pairs_at_line_count_boundaries", 1)
				}
			}
		}
	}
	// (ii-b) moving definitions when the document has many definitions of its own: the k-th definition by order of
	// appearance is another one when the moved block sits at the top (k at every boundary size)
	kk := 0
	for _, k := range wl.BoundarySizes {
		if k > 1025 {
			continue
		}
		for _, j := range []int{1, 2, 5, 40} {
			kk++
			if !c.Mine(kk) {
				continue
			}
			var refs, own, moved strings.Builder
			for i := 0; i < k; i++ {
				fmt.Fprintf(&refs, "[own%d] ", i)
				if i%8 == 7 {
					refs.WriteString("\n")
				}
				fmt.Fprintf(&own, "[own%d]: /o%d\n", i, i)
			}
			for i := 0; i < j; i++ {
				fmt.Fprintf(&refs, "[MV%d] [text][mv%d] ", i, i)
				fmt.Fprintf(&moved, "[mv%d]: /m%d 't%d'\n", i, i, i)
			}
			if k >= 2 && kk%2 == 0 {
				// some of the document's own labels are defined a second time further down (the first definition counts):
				// which one is "first" must not depend on how many definitions stand before them
				fmt.Fprintf(&own, "\n[OWN0]: /second-definition-of-own0\n[own%d]: /second-definition 'x'\n[own%d]: /second-definition-of-the-last\n", k/3, k-1)
			}
			d := "intro\n\n" + own.String() + "\n" + refs.String() + "\n\n# end\n"
			for si, sp := range specs {
				if (kk+si)%2 == 0 {
					c09CheckMove(c, pool, sp, &c09Move{d: []byte(d), defs: []byte(moved.String())})
					c.Count("definition_moves_with_many_own_definitions", 1)
				}
			}
		}
	}
	// (ii) moving definitions
	n2 := c.PerShard(c.N(350000, 15000000))
	for i := 0; i < n2; i++ {
		d := c09Doc(r, corpus)
		if r.Intn(24) == 0 {
			d = c09Long(r, corpus)
			c.Count("definition_moves_with_long_D", 1)
		}
		d = bytes.ReplaceAll(d, []byte("]:"), []byte("] "))
		defs, dsrc := c09GenDefs(r)
		d = c09InjectRefs(r, d, defs)
		if r.Intn(4) == 0 {
			d = c09NearMiss(r, d, defs)
			c.Count("definition_moves_with_near_miss_labels_defined_in_D", 1)
		}
		sp := specs[r.Intn(len(specs))]
		c09CheckMove(c, pool, sp, &c09Move{d: d, defs: dsrc})
		if c.WantSample() && i%9000 == 23 {
			c.Sample(map[string]any{"relation": "move-definitions", "config": sp.Name(), "defs": q(dsrc), "D": q(d)})
		}
	}
}
