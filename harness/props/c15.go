package props

import (
	"bytes"
	"fmt"
	"math/rand"
	"strings"

	"github.com/yuin/goldmark"
	"github.com/yuin/goldmark/ast"
	"github.com/yuin/goldmark/text"

	"verif/cfg"
	"verif/core"
	"verif/oracle"
	"verif/wl"
)

// C15 — auto heading ids are present, non-empty, unique within a document, and a function of the document only.

func init() {
	register(&Prop{
		ID:    "C15",
		Level: "exploration",
		Rule: "cases = (extension set with AutoHeadingID and without Attribute, safe mode, document). Every output is tokenized by the strict tokenizer; every h1..h6 start tag must carry an id attribute, the id must be non-empty, " +
			"and the heading ids of one document must be pairwise distinct; the same is asserted on the parsed tree (every ast.Heading has a non-empty []byte id attribute, and the number of headings in the tree equals the number in the output). " +
			"History independence: the document is converted by a long-lived instance that has converted every earlier document of the worker and by a fresh instance; the id lists must be equal. " +
			"Documents: every arrival order of up to 4 (quick) / 5 (thorough) heading texts from a 16-text pool of colliding, empty, non-ASCII, punctuation-only and suffix-colliding texts, as ATX or Setext headings, at top level or inside quotes, list items, footnote and definition bodies; plus random soups with many headings. " +
			"Non-trivial = at least two headings share a slug before de-duplication or a heading has an empty slug; distinct = distinct (sequence of ids, extension set).",
		Assumptions: []string{
			"safe mode is used so that every <hN> in the output is a heading written by the renderer (raw HTML is replaced by the placeholder)",
			"outputs the strict tokenizer rejects are counted and left to C03; a panic or error is left to C01",
			"uniqueness is asserted among heading ids (the property's subject); collisions between a heading id and another generated id (footnote ids) are counted separately",
		},
		Run:    runC15,
		Replay: replayC15,
		Floors: func(m *Merged) []string {
			var out []string
			if m.Counters["headings_inspected"] < 100000 {
				out = append(out, fmt.Sprintf("only %d headings inspected", m.Counters["headings_inspected"]))
			}
			if m.Counters["documents_with_colliding_slugs"] < 5000 {
				out = append(out, "too few documents with colliding slugs")
			}
			if m.Counters["history_comparisons"] < 20000 {
				out = append(out, "too few history comparisons")
			}
			if len(m.Sets["ext_sets"]) < 9 {
				out = append(out, fmt.Sprintf("only %d extension sets exercised", len(m.Sets["ext_sets"])))
			}
			for _, k := range []string{"top", "quote", "list", "footnote", "deflist", "nested"} {
				if m.Sets["containers"][k] == 0 {
					out = append(out, "container never used: "+k)
				}
			}
			return out
		},
		Exhaustive: func(tier string) string {
			if tier == "thorough" {
				return "all sequences of <=5 heading texts from the 16-text pool (1,118,481 documents), heading syntax and container chosen per sequence by the PRNG; everything else sampled"
			}
			return "all sequences of <=4 heading texts from the 16-text pool (69,905 documents), heading syntax and container chosen per sequence by the PRNG; everything else sampled"
		},
	})
}

var c15Texts = []string{"a", "a-1", "A", "a 1", "-1", "1", "", "é", "!!!", "heading", "heading-1", "id", "*a*", "`a`", "a_b", "a-1-1"}

var c15Extra = []string{"a  1", "a--1", "heading 1", "Heading", "a1", "a-2", "-", "_", "あ", "a é", "<b>a</b>", "[a](u)", "a \\* b", "&amp;", "a&nbsp;1", "x y z very long heading text with many words in it", "a-1-1-1", "1-1", "HEADING-1", "a\t1"}

type c15Ids struct {
	ids     []string
	problem string // class
	locus   string
	detail  string
	ok      bool
}

func c15Inspect(md goldmark.Markdown, src []byte) (r c15Ids) {
	res := parseRender(md, src)
	if !res.OK() {
		return
	}
	toks, terr := oracle.Tokenize(res.Out)
	if terr != nil {
		r.problem, r.ok = "tokenizer", false
		return
	}
	r.ok = true
	seen := map[string]int{}
	nOut := 0
	for i := range toks {
		t := &toks[i]
		if t.Kind != oracle.TokStart || len(t.Name) != 2 || t.Name[0] != 'h' || t.Name[1] < '1' || t.Name[1] > '6' {
			continue
		}
		nOut++
		id, has := t.Get("id")
		switch {
		case !has:
			r.problem, r.locus, r.detail = "heading-without-id", t.Path, fmt.Sprintf("<%s> at offset %d has no id attribute\noutput: %s", t.Name, t.Pos, q(res.Out))
			return
		case id == "":
			r.problem, r.locus, r.detail = "heading-with-empty-id", t.Path, fmt.Sprintf("<%s> at offset %d has id=\"\"\noutput: %s", t.Name, t.Pos, q(res.Out))
			return
		}
		if prev, dup := seen[id]; dup {
			r.problem, r.locus = "duplicate-heading-id", "dup"
			r.detail = fmt.Sprintf("headings #%d and #%d both have id=%q\noutput: %s", prev+1, len(r.ids)+1, id, q(res.Out))
			r.ids = append(r.ids, id)
			return
		}
		seen[id] = len(r.ids)
		r.ids = append(r.ids, id)
	}
	// tree side
	nTree := 0
	ast.Walk(res.Doc, func(n ast.Node, entering bool) (ast.WalkStatus, error) {
		if !entering {
			return ast.WalkContinue, nil
		}
		if h, ok := n.(*ast.Heading); ok {
			nTree++
			v, has := h.AttributeString("id")
			b, isBytes := v.([]byte)
			if r.problem == "" && (!has || !isBytes || len(b) == 0) {
				r.problem, r.locus = "tree-heading-without-id", n.Parent().Kind().String()
				r.detail = fmt.Sprintf("ast.Heading (level %d) under %s has id attribute %v (present=%v)", h.Level, n.Parent().Kind(), v, has)
			}
		}
		return ast.WalkContinue, nil
	})
	if r.problem == "" && nTree != nOut {
		r.problem, r.locus = "heading-count-mismatch", ""
		r.detail = fmt.Sprintf("the tree has %d headings, the output has %d\noutput: %s", nTree, nOut, q(res.Out))
	}
	return
}

// slug approximates goldmark's slug only to classify cases as (non-)trivial; it never decides a verdict.
func c15Slug(s string) string {
	var b strings.Builder
	for _, r := range strings.TrimSpace(s) {
		switch {
		case r >= 'a' && r <= 'z' || r >= '0' && r <= '9':
			b.WriteRune(r)
		case r >= 'A' && r <= 'Z':
			b.WriteRune(r + 32)
		case r == ' ' || r == '-' || r == '_' || r == '\t':
			b.WriteByte('-')
		}
	}
	return b.String()
}

type c15Doc struct {
	src       []byte
	texts     []string
	container string
}

// c15Build writes the headings as ATX or Setext, inside a container.
func c15Build(r *rand.Rand, texts []string, spec cfg.Spec) c15Doc {
	var b strings.Builder
	containers := []string{"top", "top", "quote", "list", "nested"}
	if spec.HasExt(cfg.SFootnote) {
		containers = append(containers, "footnote")
	}
	if spec.HasExt(cfg.SDefList) {
		containers = append(containers, "deflist")
	}
	cont := containers[r.Intn(len(containers))]
	for i, t := range texts {
		setext := r.Intn(3) == 0 && strings.TrimSpace(t) != "" && !strings.ContainsAny(t, "\n")
		if setext {
			b.WriteString(t + "\n")
			if r.Intn(2) == 0 {
				b.WriteString("===\n")
			} else {
				b.WriteString("---\n")
			}
		} else {
			lvl := 1 + r.Intn(6)
			b.WriteString(strings.Repeat("#", lvl))
			if t != "" {
				b.WriteString(" " + t)
			}
			if r.Intn(5) == 0 {
				b.WriteString(" " + strings.Repeat("#", 1+r.Intn(3)))
			}
			b.WriteString("\n")
		}
		switch r.Intn(4) {
		case 0:
			b.WriteString("\n")
		case 1:
			b.WriteString("\ntext " + fmt.Sprint(i) + "\n\n")
		}
	}
	body := []byte(b.String())
	var src []byte
	switch cont {
	case "top":
		src = body
	case "quote":
		src = wl.PrefixLines(body, "> ")
	case "list":
		src = wl.IndentLines(body, "- ", "  ")
	case "nested":
		src = wl.PrefixLines(wl.IndentLines(body, "1. ", "   "), "> ")
	case "footnote":
		src = append([]byte("ref[^n]\n\n"), wl.IndentLines(body, "[^n]: ", "    ")...)
	case "deflist":
		src = append([]byte("term\n"), wl.IndentLines(body, ": ", "  ")...)
	}
	// sometimes a table / other blocks nearby
	if r.Intn(6) == 0 && spec.HasExt(cfg.STable) {
		src = append(src, "\n| a |\n|---|\n| b |\n\n# a\n"...)
	}
	return c15Doc{src: src, texts: texts, container: cont}
}

func c15Specs() []cfg.Spec {
	var out []cfg.Spec
	for e := 0; e < cfg.NExt; e++ {
		out = append(out, cfg.Spec{Ext: e, AutoHeadingID: true}, cfg.Spec{Ext: e, AutoHeadingID: true, XHTML: true, HardWraps: true})
	}
	// automatic ids switched on through the heading parsers' own constructors (a caller-built parser) instead of the parser option
	out = append(out, cfg.Spec{Ext: cfg.ExtCore, AutoHeadingID: true, HeadingRoute: true}, cfg.Spec{Ext: cfg.ExtCore, AutoHeadingID: true, HeadingRoute: true, XHTML: true})
	return out
}

var (
	c15Prev []byte
	c15N    int
)

// c15IdsOf returns the id attributes of the headings of an output, in order.
func c15IdsOf(out []byte) ([]string, bool) {
	toks, terr := oracle.Tokenize(out)
	if terr != nil {
		return nil, false
	}
	var ids []string
	for i := range toks {
		t := &toks[i]
		if t.Kind == oracle.TokStart && len(t.Name) == 2 && t.Name[0] == 'h' && t.Name[1] >= '1' && t.Name[1] <= '6' {
			for _, a := range t.Attrs {
				if a.Name == "id" {
					ids = append(ids, a.Value)
				}
			}
		}
	}
	return ids, true
}

func c15Check(c *core.Ctx, pool *cfg.Pool, spec cfg.Spec, d c15Doc) {
	name := spec.Name()
	md := pool.Get(spec)
	c.Begin(name, d.src)
	r := c15Inspect(md, d.src)
	var fr c15Ids
	if r.ok {
		fr = c15Inspect(spec.Build(), d.src)
	}
	c.End()
	c.Evals(2)
	c.Observe("ext_sets", extName(spec))
	if !r.ok {
		if r.problem == "tokenizer" {
			c.Count("output_rejected_by_tokenizer_left_to_C03", 1)
		} else {
			c.Count("conversion_failed_left_to_C01", 1)
		}
		return
	}
	c.Count("documents", 1)
	c.Count("headings_inspected", int64(len(r.ids)))
	c.Observe("containers", d.container)
	c.Max("headings_per_document", int64(len(r.ids)))
	if d.texts != nil {
		slugs := map[string]int{}
		coll := false
		for _, t := range d.texts {
			s := c15Slug(t)
			if s == "" || slugs[s] > 0 {
				coll = true
			}
			slugs[s]++
		}
		if coll {
			c.Count("documents_with_colliding_slugs", 1)
			c.Sig(core.HashStr(strings.Join(r.ids, "\x00"), extName(spec)))
		}
	} else if len(r.ids) >= 2 {
		c.Sig(core.HashStr(strings.Join(r.ids, "\x00"), extName(spec)))
	}
	for _, id := range r.ids {
		if i := strings.LastIndexByte(id, '-'); i > 0 {
			n := 0
			fmt.Sscanf(id[i+1:], "%d", &n)
			c.Max("numeric_suffix_seen", int64(n))
		}
	}
	class, locus, detail := r.problem, r.locus, r.detail
	if class == "" && fr.ok {
		c.Count("history_comparisons", 1)
		if strings.Join(fr.ids, "\x00") != strings.Join(r.ids, "\x00") {
			class, locus = "ids-depend-on-history", ""
			detail = fmt.Sprintf("long-lived instance: %q\nfresh instance:      %q", r.ids, fr.ids)
		}
	}
	// parse this document, parse another one on the same instance, and only then render the first tree (what a site
	// generator does): the ids in the output must still be the ones a fresh instance gives
	if class == "" && fr.ok && c15Prev != nil {
		c15N++
		if c15N%3 == 0 {
			var out bytes.Buffer
			pv, _ := core.Try(func() {
				tree := md.Parser().Parse(text.NewReader(d.src))
				_ = md.Parser().Parse(text.NewReader(c15Prev))
				_ = md.Renderer().Render(&out, d.src, tree)
			})
			c.Eval()
			c.Count("parse_parse_render_sequences", 1)
			if pv == nil {
				if ids, ok := c15IdsOf(out.Bytes()); ok && strings.Join(ids, "\x00") != strings.Join(fr.ids, "\x00") {
					class, locus = "ids-depend-on-history", "parse-other-before-render"
					detail = fmt.Sprintf("Parse(this), Parse(other), Render(this) on the long-lived instance: %q\nfresh instance: %q\nother document: %s", ids, fr.ids, q(c15Prev))
				}
			}
		}
	}
	c15Prev = d.src
	if class == "" {
		return
	}
	if c.Seen(class, locus) {
		c.Violation(&core.Violation{Class: class, Locus: locus, Config: name, Input: d.src})
		return
	}
	min := d.src
	if class != "ids-depend-on-history" {
		fresh := spec.Build()
		min = core.Minimize(d.src, func(b []byte) bool {
			x := c15Inspect(fresh, b)
			return x.ok && x.problem == class && x.locus == locus
		}, 800)
		if x := c15Inspect(fresh, min); x.detail != "" {
			detail = x.detail
		}
	}
	c.Violation(&core.Violation{Class: class, Locus: locus, Config: name, Input: min, Detail: detail})
}

func replayC15(c *core.Ctx, v *core.Violation) (bool, string) {
	spec := specOf(v.Config)
	if v.Class == "ids-depend-on-history" {
		return false, "history violations need the history: re-run the check with the recorded seed " + fmt.Sprint(v.Seed)
	}
	x := c15Inspect(spec.Build(), v.Input)
	if !x.ok {
		return false, "not evaluable (C01/C03)"
	}
	return x.problem != "", x.problem + " " + x.detail
}

func runC15(c *core.Ctx) {
	pool := cfg.NewPool()
	specs := c15Specs()
	corpus := loadCorpus(c)
	r := c.Rng
	// 1. every arrival order of up to L texts
	L := c.N(4, 5)
	k := len(c15Texts)
	total := wl.ShortCount(k, L)
	for i := 0; i < total && !c.Saturated(); i++ {
		if !c.Mine(i) {
			continue
		}
		// decode i into a sequence
		var seq []string
		x, p := i, 1
		for l := 0; l <= L; l++ {
			if x < p {
				idx := make([]int, l)
				for j := l - 1; j >= 0; j-- {
					idx[j] = x % k
					x /= k
				}
				for _, v := range idx {
					seq = append(seq, c15Texts[v])
				}
				break
			}
			x -= p
			p *= k
		}
		if len(seq) == 0 {
			continue
		}
		rr := newRand(core.SeedFor(c.Seed, "c15seq", i))
		spec := specs[rr.Intn(len(specs))]
		c15Check(c, pool, spec, c15Build(rr, seq, spec))
	}
	all := append(append([]string{}, c15Texts...), c15Extra...)
	// 1b. documents with very many headings (the count at every boundary size), each followed on the same long-lived
	// instance by small documents that share their heading texts: whatever a big document leaves behind in the instance
	// (an id table that is recycled, a buffer kept for reuse) shows in the ids of the next one
	kb := 0
	for _, nh := range wl.BoundarySizes {
		if nh < 8 || nh > 1100 {
			continue
		}
		for si := range specs {
			kb++
			if !c.Mine(kb) || (kb/16+si)%3 != 0 {
				continue
			}
			rr := newRand(core.SeedFor(c.Seed, "c15big", kb))
			seq := make([]string, nh)
			for j := range seq {
				seq[j] = all[rr.Intn(len(all))]
			}
			c15Check(c, pool, specs[si], c15Build(rr, seq, specs[si]))
			c.Count("documents_with_many_headings", 1)
			for f := 0; f < 3; f++ {
				small := make([]string, 1+rr.Intn(4))
				for j := range small {
					small[j] = seq[rr.Intn(len(seq))]
				}
				c15Check(c, pool, specs[si], c15Build(rr, small, specs[si]))
			}
		}
	}
	// 1c. ids of every length: after ten other headings, three different headings whose ids are exactly L bytes long and a
	// repeated heading whose second id reaches L bytes through its suffix - for every L up to 140 and at the boundary sizes
	// beyond (ids assembled in a fixed-size scratch area, copied or not depending on their length, show only at that length)
	kl := 0
	var lens []int
	for l := 1; l <= 140; l++ {
		lens = append(lens, l)
	}
	for _, l := range wl.BoundarySizes {
		if l > 140 && l < 1100 {
			lens = append(lens, l)
		}
	}
	for _, l := range lens {
		for v := 0; v < 2; v++ {
			kl++
			if !c.Mine(kl) {
				continue
			}
			rr := newRand(core.SeedFor(c.Seed, "c15len", kl))
			seq := make([]string, 0, 18)
			for j := 0; j < 10; j++ {
				seq = append(seq, all[rr.Intn(len(all))])
			}
			body := func(n int, tail string) string {
				if v == 1 && n >= 2 {
					return "é" + strings.Repeat("x", n-2) + tail // the same byte length with a two-byte character in front
				}
				return strings.Repeat("x", n) + tail
			}
			for j := 0; j < 3; j++ {
				seq = append(seq, body(l-1, string(rune('a'+j))))
			}
			if l >= 3 {
				seq = append(seq, body(l-3, "u"), body(l-3, "u"), body(l-3, "u"))
			}
			spec := specs[kl%len(specs)]
			c15Check(c, pool, spec, c15Build(rr, seq, spec))
			c.Count("documents_with_ids_of_a_chosen_length", 1)
		}
	}
	// 1d. many equal headings after headings whose literal text already is "slug-K": the generated suffixes have to step around
	// the literal ones, for K around the number of equal headings, around 64/65 and at the boundary sizes
	kd := 0
	for _, nEq := range wl.BoundarySizes {
		if nEq < 2 || nEq > 300 {
			continue
		}
		for v := 0; v < 2; v++ {
			kd++
			if !c.Mine(kd) {
				continue
			}
			rr := newRand(core.SeedFor(c.Seed, "c15lit", kd))
			var seq []string
			lits := []int{nEq - 2, nEq - 1, nEq, nEq + 1, nEq + 2, 63, 64, 65, 66, 70}
			if v == 1 {
				lits = []int{nEq + 3, nEq / 2, 1, 2, nEq * 2}
			}
			for _, k := range lits {
				if k > 0 {
					seq = append(seq, fmt.Sprintf("a-%d", k))
				}
			}
			for j := 0; j < nEq; j++ {
				seq = append(seq, "a")
			}
			spec := specs[kd%len(specs)]
			c15Check(c, pool, spec, c15Build(rr, seq, spec))
			c.Count("documents_with_literal_suffix_headings_before_equal_ones", 1)
		}
	}
	// 2. random longer multisets (many duplicates force long suffix probing)
	n2 := c.PerShard(c.N(120000, 6000000))
	for i := 0; i < n2 && !c.Saturated(); i++ {
		n := 2 + r.Intn(12)
		if r.Intn(20) == 0 {
			n = 20 + r.Intn(21)
		}
		base := all
		if r.Intn(2) == 0 {
			// small sub-pool: many collisions
			p := r.Perm(len(all))[:2+r.Intn(3)]
			base = nil
			for _, x := range p {
				base = append(base, all[x])
			}
		}
		seq := make([]string, n)
		for j := range seq {
			seq[j] = base[r.Intn(len(base))]
		}
		spec := specs[r.Intn(len(specs))]
		d := c15Build(r, seq, spec)
		c15Check(c, pool, spec, d)
		if c.WantSample() && i%4000 == 5 {
			x := c15Inspect(spec.Build(), d.src)
			c.Sample(map[string]any{"config": spec.Name(), "document": q(d.src), "ids": x.ids})
		}
	}
	// 3. arbitrary documents (soup with heading tokens, corpus mutants)
	n3 := c.PerShard(c.N(150000, 6000000))
	for i := 0; i < n3 && !c.Saturated(); i++ {
		var src []byte
		if i%2 == 0 {
			src = wl.SoupFrom(r, c15Soup, 2+r.Intn(14))
		} else {
			src = mixDoc(r, corpus)
		}
		spec := specs[r.Intn(len(specs))]
		c15Check(c, pool, spec, c15Doc{src: src, container: "soup"})
	}
}

var c15Soup = []string{"# a\n", "# a\n", "## a\n", "# a-1\n", "# A\n", "#\n", "# \n", "###### \n", "# é\n", "# !!!\n", "a\n===\n", "a\n---\n", "a-1\n===\n", "heading\n---\n", "# heading\n", "# heading-1\n",
	"> # a\n", "- # a\n", "  # a\n", "    # a\n", "1. a\n   ===\n", "> a\n> ===\n", "\n", "\n", "text\n", "# *a*\n", "# `a`\n", "# [a](u)\n", "# a #\n", "# a \\#\n", "# a {#x}\n", "```\n# a\n```\n", "<div>\n# a\n</div>\n\n",
	"[^1]\n", "[^1]: # a\n", "[^1]:\n    # a\n", "t\n: # a\n", "| # a |\n|---|\n", "- [ ] # a\n", "# a\x00\n", "# \x80\n", "# a\tb\n", "#\ta\n", "# a\r\n", "***\n", "---\n", "===\n", "# 1\n", "# -1\n", "# -\n", "# _\n", "# a_b\n", "# a b\n", "# a  b\n"}
