package props

import (
	"bytes"
	"fmt"
	stdhtml "html"
	"strings"

	"github.com/yuin/goldmark"
	"github.com/yuin/goldmark/ast"
	"github.com/yuin/goldmark/extension"
	ghtml "github.com/yuin/goldmark/renderer/html"
	"github.com/yuin/goldmark/text"
	"github.com/yuin/goldmark/util"

	"verif/cfg"
	"verif/core"
	"verif/oracle"
	"verif/sg"
	"verif/wl"
)

// C10 — renderer options are orthogonal rewrites of the same output.

func init() {
	register(&Prop{
		ID:    "C10",
		Level: "exploration",
		Rule: "cases = (extension set, parser options, source); the source is rendered under all 8 combinations of {Unsafe, XHTML, HardWraps} (table alignment pinned to the align attribute, East Asian line-break suppression off) and the 12 pairs that differ in one flag are compared: " +
			"XHTML: in safe mode out_xhtml == voidfix(out_html) exactly (voidfix rewrites the '>' closing a br/hr/img/input start tag into ' />'); in unsafe mode a lock-step walk allows only that difference. " +
			"HardWraps: a lock-step walk allows only '\\n' versus '<br>\\n' ('<br />\\n'), and the number of such places must equal the number of soft-break text nodes of the parsed tree that are rendered as text (not raw, not inside an image description or code span). " +
			"Unsafe: a lock-step walk guided by the raw fragments of the parsed tree (HTML block lines, closure line, raw inline HTML outside image descriptions, in render order) allows only placeholder-versus-fragment, every fragment must be consumed, " +
			"and an empty-versus-value href/src only when the value is classified dangerous. For one source in four the same relations are also checked on the parsed tree after every node got a class attribute through the public API (what an AST transformer may do), rendered by the 8 renderers. Non-trivial = at least one pair of outputs actually differed; distinct = distinct (AST shape signature, extension set, set of effective axes).",
		Assumptions: []string{
			"the tree used to count soft breaks and to list raw fragments comes from the same parser configuration (the property is about renderer options); it is read through public accessors",
			"'classified as dangerous' = goldmark's exported IsDangerousURL on the raw or written destination, or the browser-like normaliser of C04; blanking is permitted for such values, never required here (that is C04)",
			"a panic or error during conversion is counted and left to C01",
		},
		Run:    runC10,
		Replay: replayC10,
		Floors: func(m *Merged) []string {
			var out []string
			for _, k := range []string{"effective:xhtml", "effective:hardwraps", "effective:unsafe-fragments", "effective:unsafe-url"} {
				if m.Counters[k] < 200 {
					out = append(out, fmt.Sprintf("axis %s was effective in only %d cases", k, m.Counters[k]))
				}
			}
			for _, v := range []string{"br", "hr", "img", "input"} {
				if m.Sets["void_tags_rewritten"][v] == 0 {
					out = append(out, "void element never rewritten under XHTML: "+v)
				}
			}
			if len(m.Sets["ext_sets"]) < 9 {
				out = append(out, fmt.Sprintf("only %d extension sets exercised", len(m.Sets["ext_sets"])))
			}
			return out
		},
		Exhaustive: func(tier string) string {
			if tier == "thorough" {
				return "all strings of length<=4 over a 20-unit alphabet x 9 extension sets x 8 flag combinations; everything else sampled"
			}
			return "all strings of length<=3 over a 20-unit alphabet x 3 extension sets (rotating) x 8 flag combinations; everything else sampled"
		},
	})
}

type c10Group struct {
	base cfg.Spec
	md   [8]goldmark.Markdown // index = unsafe | xhtml<<1 | hardwraps<<2
}

// c10Direct is the base whose renderer flags are handed to html.NewRenderer(...) directly (core CommonMark: the other route
// by which options reach the renderer).
// c10Direct: renderer flags given to html.NewRenderer itself; po 1 also switches the parser options on and gives the flags in
// the opposite order (the order of independent options must not matter).
func c10Direct(po int) cfg.Spec {
	return cfg.Spec{Ext: cfg.ExtCore, Direct: true, AutoHeadingID: po != 0, Attribute: po != 0, Rev: po != 0}
}

func c10Base(ext int, po int) cfg.Spec {
	return cfg.Spec{Ext: ext, AutoHeadingID: po != 0, Attribute: po != 0, PinTableAlign: true, TableAlign: extension.TableCellAlignAttribute, NoEALB: true}
}

func c10Build(base cfg.Spec) *c10Group {
	g := &c10Group{base: base}
	for f := 0; f < 8; f++ {
		s := base
		s.Unsafe, s.XHTML, s.HardWraps = f&1 != 0, f&2 != 0, f&4 != 0
		g.md[f] = s.Build()
	}
	return g
}

var c10Voids = []string{"br", "hr", "img", "input"}

// voidTagAt reports whether s[i:] starts a void-element start tag and returns its name.
func voidTagAt(s []byte, i int) string {
	if i >= len(s) || s[i] != '<' {
		return ""
	}
	for _, v := range c10Voids {
		if bytes.HasPrefix(s[i+1:], []byte(v)) {
			j := i + 1 + len(v)
			if j < len(s) && (s[j] == ' ' || s[j] == '>') {
				return v
			}
		}
	}
	return ""
}

// voidfix rewrites the '>' that closes every void start tag into " />" (quote-aware).
func voidfix(h []byte, seen func(string)) []byte {
	out := make([]byte, 0, len(h)+16)
	for i := 0; i < len(h); {
		v := voidTagAt(h, i)
		if v == "" {
			out = append(out, h[i])
			i++
			continue
		}
		j := i
		inq := false
		for j < len(h) {
			if h[j] == '"' {
				inq = !inq
			} else if h[j] == '>' && !inq {
				break
			}
			j++
		}
		if j >= len(h) {
			out = append(out, h[i:]...)
			return out
		}
		out = append(out, h[i:j]...)
		out = append(out, " />"...)
		if seen != nil {
			seen(v)
		}
		i = j + 1
	}
	return out
}

// lockstepXHTML allows only '>' versus ' />' at the end of a void start tag. Returns "" or a description; n = rewrites seen.
func lockstepXHTML(h, x []byte, seen func(string)) (string, int) {
	i, j, n := 0, 0, 0
	for i < len(h) && j < len(x) {
		if h[i] == x[j] {
			i++
			j++
			continue
		}
		if h[i] == '>' && bytes.HasPrefix(x[j:], []byte(" />")) {
			k := bytes.LastIndexByte(h[:i], '<')
			if k >= 0 {
				if v := voidTagAt(h, k); v != "" {
					if seen != nil {
						seen(v)
					}
					n++
					i++
					j += 3
					continue
				}
			}
		}
		return fmt.Sprintf("outputs differ by something other than '>' versus ' />' on a void element\n%s", firstDiffAt(h, x, i, j, "html ", "xhtml")), n
	}
	if i != len(h) || j != len(x) {
		return fmt.Sprintf("one output is a proper prefix of the other\n%s", firstDiffAt(h, x, i, j, "html ", "xhtml")), n
	}
	return "", n
}

func firstDiffAt(a, b []byte, i, j int, na, nb string) string {
	sa, sb := i-40, j-40
	if sa < 0 {
		sa = 0
	}
	if sb < 0 {
		sb = 0
	}
	ea, eb := i+50, j+50
	if ea > len(a) {
		ea = len(a)
	}
	if eb > len(b) {
		eb = len(b)
	}
	return fmt.Sprintf("%s at %d: …%q\n%s at %d: …%q", na, i, a[sa:ea], nb, j, b[sb:eb])
}

// lockstepHardWraps allows only "\n" versus "<br>\n"/"<br />\n". Returns description and number of inserted breaks.
func lockstepHardWraps(s, w []byte) (string, int) {
	i, j, n := 0, 0, 0
	for i < len(s) && j < len(w) {
		if s[i] == w[j] {
			i++
			j++
			continue
		}
		if s[i] == '\n' {
			if bytes.HasPrefix(w[j:], []byte("<br>\n")) {
				i++
				j += 5
				n++
				continue
			}
			if bytes.HasPrefix(w[j:], []byte("<br />\n")) {
				i++
				j += 7
				n++
				continue
			}
		}
		return fmt.Sprintf("outputs differ by something other than a <br> before a soft line break\n%s", firstDiffAt(s, w, i, j, "soft", "hard")), n
	}
	if i != len(s) || j != len(w) {
		return fmt.Sprintf("one output is a proper prefix of the other\n%s", firstDiffAt(s, w, i, j, "soft", "hard")), n
	}
	return "", n
}

type c10Frag struct {
	b     []byte
	block bool
}

type c10Facts struct {
	frags      []c10Frag
	softBreaks int
	dangerous  map[string]bool // written forms of destinations goldmark's predicate classifies as dangerous
}

func secure(b []byte) []byte {
	return bytes.ReplaceAll(b, []byte{0}, []byte("�"))
}

// c10Collect reads the facts the oracles need from the parsed tree.
func c10Collect(doc ast.Node, src []byte) *c10Facts {
	f := &c10Facts{dangerous: map[string]bool{}}
	var walk func(n ast.Node, inImage bool)
	walk = func(n ast.Node, inImage bool) {
		switch t := n.(type) {
		case *ast.HTMLBlock:
			var b []byte
			ls := t.Lines()
			for i := 0; i < ls.Len(); i++ {
				seg := ls.At(i)
				b = append(b, secure(seg.Value(src))...)
			}
			f.frags = append(f.frags, c10Frag{b, true})
			if t.HasClosure() {
				f.frags = append(f.frags, c10Frag{secure(t.ClosureLine.Value(src)), true})
			}
			return
		case *ast.RawHTML:
			if !inImage {
				var b []byte
				for i := 0; i < t.Segments.Len(); i++ {
					seg := t.Segments.At(i)
					b = append(b, seg.Value(src)...)
				}
				f.frags = append(f.frags, c10Frag{b, false})
			}
			return
		case *ast.Text:
			if t.SoftLineBreak() && !t.IsRaw() && !inImage {
				if p := t.Parent(); p == nil || p.Kind() != ast.KindCodeSpan {
					f.softBreaks++
				}
			}
		case *ast.Link:
			if ghtml.IsDangerousURL(t.Destination) || ghtml.IsDangerousURL(util.URLEscape(t.Destination, true)) {
				f.dangerous[string(util.EscapeHTML(util.URLEscape(t.Destination, true)))] = true
			}
		case *ast.Image:
			if ghtml.IsDangerousURL(t.Destination) || ghtml.IsDangerousURL(util.URLEscape(t.Destination, true)) {
				f.dangerous[string(util.EscapeHTML(util.URLEscape(t.Destination, true)))] = true
			}
			for c := n.FirstChild(); c != nil; c = c.NextSibling() {
				walk(c, true)
			}
			return
		case *ast.AutoLink:
			u := t.URL(src)
			if ghtml.IsDangerousURL(u) {
				f.dangerous[string(util.EscapeHTML(util.URLEscape(u, false)))] = true
			}
		}
		for c := n.FirstChild(); c != nil; c = c.NextSibling() {
			walk(c, inImage)
		}
	}
	walk(doc, false)
	return f
}

var placeholderB = []byte(oracle.Placeholder)

// lockstepUnsafe walks the safe and unsafe outputs guided by the fragment list.
func lockstepUnsafe(s, u []byte, f *c10Facts) (desc string, fragsUsed, urls int) {
	i, j, k := 0, 0, 0
	for i < len(s) {
		if s[i] == '<' && bytes.HasPrefix(s[i:], placeholderB) {
			if k >= len(f.frags) {
				return fmt.Sprintf("safe output has a placeholder but the tree lists no further raw fragment (fragment #%d)\n%s", k, firstDiffAt(s, u, i, j, "safe  ", "unsafe")), k, urls
			}
			fr := f.frags[k]
			if !bytes.HasPrefix(u[min(j, len(u)):], fr.b) {
				return fmt.Sprintf("unsafe output does not carry raw fragment #%d %q where the safe output has the placeholder\n%s", k, clipB(fr.b, 80), firstDiffAt(s, u, i, j, "safe  ", "unsafe")), k, urls
			}
			i += len(placeholderB)
			if fr.block {
				if i >= len(s) || s[i] != '\n' {
					return fmt.Sprintf("placeholder of block fragment #%d is not followed by a newline\n%s", k, firstDiffAt(s, u, i, j, "safe  ", "unsafe")), k, urls
				}
				i++
			}
			j += len(fr.b)
			k++
			continue
		}
		if j < len(u) && s[i] == u[j] {
			i++
			j++
			continue
		}
		// empty versus actual URL
		if s[i] == '"' && (bytes.HasSuffix(s[:i], []byte(` href="`)) || bytes.HasSuffix(s[:i], []byte(` src="`))) && j < len(u) {
			e := bytes.IndexByte(u[j:], '"')
			if e > 0 {
				val := string(u[j : j+e])
				dec := stdhtml.UnescapeString(val)
				if f.dangerous[val] || ghtml.IsDangerousURL([]byte(dec)) || dangerousScheme(normalizeURL(dec)) != "" {
					j += e
					urls++
					continue
				}
				return fmt.Sprintf("safe mode emptied a destination that is not classified as dangerous: %q\n%s", val, firstDiffAt(s, u, i, j, "safe  ", "unsafe")), k, urls
			}
		}
		return fmt.Sprintf("outputs differ outside raw HTML fragments and dangerous destinations\n%s", firstDiffAt(s, u, i, j, "safe  ", "unsafe")), k, urls
	}
	if j != len(u) {
		return fmt.Sprintf("unsafe output has trailing bytes the safe output lacks\n%s", firstDiffAt(s, u, i, j, "safe  ", "unsafe")), k, urls
	}
	if k != len(f.frags) {
		return fmt.Sprintf("the tree lists %d raw fragments but only %d appear in the outputs (next: %q)", len(f.frags), k, clipB(f.frags[k].b, 80)), k, urls
	}
	return "", k, urls
}

func clipB(b []byte, n int) []byte {
	if len(b) > n {
		return b[:n]
	}
	return b
}

type c10Result struct {
	class, locus, detail string
}

type c10Stats struct {
	xhtml, hard, frags, urls int
	voids                    map[string]int
	evaluable                bool
	doc                      ast.Node
}

// c10Eval renders src under the 8 flag combinations and checks the 12 single-flag pairs.
func c10Eval(g *c10Group, src []byte) (res []c10Result, st c10Stats) {
	return c10EvalMode(g, src, false)
}

// c10EvalMode: with decorate, the parsed tree gets a class attribute on every node through the public API (what an AST
// transformer or a caller may do between Parse and Render) and the same tree is rendered by the 8 renderers; the relations
// between the outputs are the same.
func c10EvalMode(g *c10Group, src []byte, decorate bool) (res []c10Result, st c10Stats) {
	st.voids = map[string]int{}
	var outs [8][]byte
	var doc ast.Node
	pv, _ := core.Try(func() { doc = g.md[0].Parser().Parse(text.NewReader(src)) })
	if pv != nil || doc == nil {
		return nil, st
	}
	if decorate {
		_ = ast.Walk(doc, func(n ast.Node, entering bool) (ast.WalkStatus, error) {
			if entering && n.Kind() != ast.KindDocument {
				if _, ok := n.AttributeString("class"); !ok {
					n.SetAttributeString("class", []byte("zz"))
				}
			}
			return ast.WalkContinue, nil
		})
	}
	for f := 0; f < 8; f++ {
		if decorate {
			var buf bytes.Buffer
			var err error
			pv, _ := core.Try(func() { err = g.md[f].Renderer().Render(&buf, src, doc) })
			if pv != nil || err != nil {
				return nil, st
			}
			outs[f] = append([]byte(nil), buf.Bytes()...)
			continue
		}
		r := convert(g.md[f], src)
		if !r.OK() {
			return nil, st
		}
		outs[f] = r.Out
	}
	st.evaluable = true
	st.doc = doc
	facts := c10Collect(doc, src)
	name := func(f int) string {
		var p []string
		if f&1 != 0 {
			p = append(p, "unsafe")
		}
		if f&2 != 0 {
			p = append(p, "xhtml")
		}
		if f&4 != 0 {
			p = append(p, "hardwraps")
		}
		if len(p) == 0 {
			return "plain"
		}
		return strings.Join(p, "+")
	}
	seen := func(v string) { st.voids[v]++ }
	for f := 0; f < 8; f++ {
		// XHTML axis
		if f&2 == 0 {
			h, x := outs[f], outs[f|2]
			if f&1 == 0 {
				n0 := 0
				want := voidfix(h, func(v string) { seen(v); n0++ })
				st.xhtml += n0
				if !bytes.Equal(want, x) {
					d, _ := lockstepXHTML(h, x, nil)
					if d == "" {
						d = "lock-step form holds but voidfix(out_html) != out_xhtml\n" + firstDiff(x, want)
					}
					res = append(res, c10Result{"xhtml-not-orthogonal", "safe:" + c10Where(h, x), fmt.Sprintf("other flags: %s\n%s", name(f), d)})
				}
			} else {
				d, n := lockstepXHTML(h, x, seen)
				st.xhtml += n
				if d != "" {
					res = append(res, c10Result{"xhtml-not-orthogonal", "unsafe:" + c10Where(h, x), fmt.Sprintf("other flags: %s\n%s", name(f), d)})
				}
			}
		}
		// HardWraps axis
		if f&4 == 0 {
			s, w := outs[f], outs[f|4]
			d, n := lockstepHardWraps(s, w)
			st.hard += n
			if d != "" {
				res = append(res, c10Result{"hardwraps-not-orthogonal", c10Where(s, w), fmt.Sprintf("other flags: %s\n%s", name(f), d)})
			} else if n != facts.softBreaks {
				res = append(res, c10Result{"hardwraps-break-count", c10Sign(n - facts.softBreaks), fmt.Sprintf("other flags: %s\nthe tree has %d soft line breaks rendered as text, HardWraps added %d <br> tags\nsoft: %s\nhard: %s", name(f), facts.softBreaks, n, q(s), q(w))})
			}
		}
		// Unsafe axis
		if f&1 == 0 {
			s, u := outs[f], outs[f|1]
			d, nf, nu := lockstepUnsafe(s, u, facts)
			st.frags += nf
			st.urls += nu
			if d != "" {
				res = append(res, c10Result{"unsafe-not-orthogonal", c10Where(s, u), fmt.Sprintf("other flags: %s\n%s", name(f), d)})
			}
		}
	}
	return res, st
}

func c10Sign(d int) string {
	if d < 0 {
		return "too-few-br"
	}
	return "too-many-br"
}

// c10Where names the innermost open element (in the first output) at the first difference: a coarse, stable locus.
func c10Where(a, b []byte) string {
	i := 0
	for i < len(a) && i < len(b) && a[i] == b[i] {
		i++
	}
	var stack []string
	w := string(a)
	for p := 0; p < i && p < len(w); p++ {
		if w[p] != '<' {
			continue
		}
		e := strings.IndexAny(w[p:], "> \n")
		if e < 0 {
			// inside an unterminated tag
			e = len(w) - p
		}
		name := w[p+1 : p+e]
		if strings.HasPrefix(name, "/") {
			if len(stack) > 0 && stack[len(stack)-1] == name[1:] {
				stack = stack[:len(stack)-1]
			}
		} else if oracle.Elements[name] && !oracle.VoidElements[name] {
			stack = append(stack, name)
		} else if oracle.VoidElements[name] {
			// are we still inside this tag?
			if c := strings.IndexByte(w[p:], '>'); c < 0 || p+c >= i {
				return "in-tag:" + name
			}
		}
	}
	// inside a non-void start tag?
	if k := strings.LastIndexByte(w[:i], '<'); k >= 0 {
		if c := strings.IndexByte(w[k:], '>'); c < 0 || k+c >= i {
			e := strings.IndexAny(w[k:], "> \n")
			if e > 1 {
				return "in-tag:" + w[k+1:k+e]
			}
		}
	}
	if len(stack) == 0 {
		return "top"
	}
	return "in:" + stack[len(stack)-1]
}

func c10Check(c *core.Ctx, groups map[string]*c10Group, base cfg.Spec, src []byte) {
	name := base.Name()
	g := groups[name]
	if g == nil {
		g = c10Build(base)
		groups[name] = g
	}
	c.Begin(name, src)
	res, st := c10Eval(g, src)
	if st.evaluable && len(src)%4 == 0 {
		dres, dst := c10EvalMode(g, src, true)
		if dst.evaluable {
			c.Count("decorated_trees", 1)
			c.Evals(8)
			for _, r := range dres {
				r.locus = "decorated-tree:" + r.locus
				res = append(res, r)
			}
		}
	}
	c.End()
	c.Evals(8)
	if !st.evaluable {
		c.Count("conversion_failed_left_to_C01", 1)
		return
	}
	c.Count("sources", 1)
	c.Observe("ext_sets", extName(base))
	c.Observe("groups", name)
	axes := ""
	if st.xhtml > 0 {
		c.Count("effective:xhtml", 1)
		axes += "x"
	}
	if st.hard > 0 {
		c.Count("effective:hardwraps", 1)
		axes += "h"
	}
	if st.frags > 0 {
		c.Count("effective:unsafe-fragments", 1)
		axes += "u"
	}
	if st.urls > 0 {
		c.Count("effective:unsafe-url", 1)
		axes += "d"
	}
	c.Count("void_tags_rewritten", int64(st.xhtml))
	c.Count("br_inserted", int64(st.hard))
	c.Count("fragments_matched", int64(st.frags))
	c.Count("dangerous_urls_matched", int64(st.urls))
	for v, n := range st.voids {
		for ; n > 0; n-- {
			c.Observe("void_tags_rewritten", v)
		}
		c.Observe("void_by_ext:"+v, extName(base))
	}
	if st.doc != nil {
		sh := oracle.ShapeOf(st.doc)
		for k := range sh.Kinds {
			c.Observe("node_kinds", k.String())
		}
		if axes != "" {
			c.Sig(sh.Sig ^ core.HashStr(extName(base), axes))
		}
	}
	for _, r := range res {
		if c.Seen(r.class, r.locus) {
			c.Violation(&core.Violation{Class: r.class, Locus: r.locus, Config: name, Input: src})
			continue
		}
		fresh := c10Build(base)
		deco := strings.HasPrefix(r.locus, "decorated-tree:")
		bare := strings.TrimPrefix(r.locus, "decorated-tree:")
		min := core.Minimize(src, func(b []byte) bool {
			rs, _ := c10EvalMode(fresh, b, deco)
			for _, x := range rs {
				if x.class == r.class && x.locus == bare {
					return true
				}
			}
			return false
		}, 600)
		detail := r.detail
		rs, _ := c10EvalMode(fresh, min, deco)
		for i := range rs {
			if deco {
				rs[i].locus = "decorated-tree:" + rs[i].locus
			}
		}
		for _, x := range rs {
			if x.class == r.class && x.locus == r.locus {
				detail = x.detail
				break
			}
		}
		c.Violation(&core.Violation{Class: r.class, Locus: r.locus, Config: name, Input: min, Detail: detail})
	}
}

func replayC10(c *core.Ctx, v *core.Violation) (bool, string) {
	g := c10Build(specOf(v.Config))
	if steps := arenaFromScript(v.Script); steps != nil {
		a := &srcArena{}
		for i, s := range steps {
			rs, _ := c10Eval(g, a.load(s.Doc))
			if len(rs) > 0 {
				return true, fmt.Sprintf("step %d of the recycled-buffer history: %s %s %s", i+1, rs[0].class, rs[0].locus, rs[0].detail)
			}
		}
		return false, "all pairs satisfy their relation at every step of the history"
	}
	deco := strings.HasPrefix(v.Locus, "decorated-tree:")
	rs, st := c10EvalMode(g, v.Input, deco)
	for i := range rs {
		if deco {
			rs[i].locus = "decorated-tree:" + rs[i].locus
		}
	}
	if !st.evaluable {
		return false, "conversion failed (C01)"
	}
	for _, x := range rs {
		if x.class == v.Class && x.locus == v.Locus {
			return true, x.detail
		}
	}
	if len(rs) > 0 {
		return true, "different: " + rs[0].class + " " + rs[0].locus + " " + rs[0].detail
	}
	return false, "all 12 single-flag pairs satisfy their relation"
}

var c10Alpha = []string{"a", " ", "\n", "*", "`", "[", "]", "(", ")", "<", ">", "!", "-", "#", "|", ":", "x", "/", "&", "\\"}

var c10Tokens = []string{
	"![a\\ b\nc](u)", "![a\\ b  \nc\\ d](u 't')", "![*x\\ y*\nz](u)", "a\\ b\nc", "\\ ", "![\\ \n\\ ](u)", "[l\\ m\nn](u)",
	"a\nb", "a\nb\nc", "foo\n", "  \n", "\\\n", "\n", "\n\n", "*e\nf*", "[l\nm](u)", "![i\nj](u)", "![i  \nj](u \"t\")", "`c\nd`", "# h\n", "h\nk\n===\n", "> q\nr\n", "- i\nj\n", "1. o\n   p\n",
	"***\n", "---\n", "![a](u)", "![](u)", "![a](<u v> 't')", "[![a](u)](v)", "<br>", "<br/>", "<hr>", "<img src=x>", "<b>", "</b>", "<!-- c -->", "<a href=\"x\">", "<?p?>", "<!X>", "<![CDATA[x]]>",
	"<div>\n", "</div>\n", "<div>\nx\n</div>\n\n", "<script>\n", "</script>\n", "<pre>\n\n</pre>\n", "<!--\n", "-->\n", "<!-- raw HTML omitted -->", "<!-- raw HTML omitted -->\n", "<x-y>\n", "<hr />\n", "<hr>\n",
	"[a](javascript:x)", "[a](JAVASCRIPT:x)", "![a](vbscript:x)", "<javascript:x>", "<file:///e>", "[a](data:text/html,x)", "[a](data:image/png;base64,x)", "[a](data:imag&#101;/png;x)", "[a](java&#115;cript:x)", "[a](javascript\\:x)", "[a][d]\n\n[d]: javascript:y\n", "![a][d]\n\n[d]: file:y\n", "[a](http://x.y)", "<http://x.y>", "<a@b.c>",
	"| a | b |\n|:--|--:|\n| c | d |\n", "| a |\n|:-:|\n| ![i](u) <b> |\n", "- [ ] t\n", "- [x] u\nv\n", "1. [ ] w\n", "~~s\nt~~", "f[^1]\n\n[^1]: n\nm\n", "[^2]\n\n[^2]: <b>x</b>\n\n    <div>\n", "t\n: d\ne\n", "t\n: <hr>\n", "http://a.b\nwww.c.d\n", "\"q\"\n'r'\n", "a -- b\n...\n",
	"# h {#i .c}\n", "# a\nb {k=v}\n===\n", "{#z}\n", "あ\nい", "a\nあ", "\x00", "<div>\x00\n", "<b\x00>", "é", "\x80", "\t", "\r\n", " ", "a", "b", "*", "_", "`", "[", "]", "(", ")", "<", ">", "!", "\"",
}

// c10Arena: the eight renderers of a group convert documents that a caller reads into one recycled buffer: a document with a
// dangerous destination, then - written over it - the same document with a harmless destination of the same length (and the
// other way round). Whatever a renderer remembers about "the destination at this place" is stale by then; the relations
// between the eight outputs must hold at every step all the same.
func c10Arena(c *core.Ctx, groups map[string]*c10Group) {
	r := c.Rng
	a := &srcArena{}
	n := c.PerShard(c.N(6000, 300000))
	for i := 0; i < n; i++ {
		con := c04Constructs[r.Intn(len(c04Constructs))]
		h := c04Harmless[r.Intn(len(c04Harmless))]
		scheme := c04Schemes[r.Intn(len(c04Schemes))]
		d := padTo(scheme+"alert(1)", len(h), '/')
		docH := []byte(strings.ReplaceAll(con.Tmpl, "%U", h))
		docD := []byte(strings.ReplaceAll(con.Tmpl, "%U", d))
		e := r.Intn(cfg.NExt)
		base := c10Base(e, r.Intn(2))
		name := base.Name()
		g := groups[name]
		if g == nil {
			g = c10Build(base)
			groups[name] = g
		}
		steps := []arenaStep{{Doc: docD}, {Doc: docH}, {Doc: docD}}
		if r.Intn(2) == 0 {
			steps = []arenaStep{{Doc: docH}, {Doc: docD}, {Doc: docH}}
		}
		c.Begin(name, docH)
		for si, s := range steps {
			rs, st := c10Eval(g, a.load(s.Doc))
			c.Evals(8)
			if !st.evaluable {
				c.Count("conversion_failed_left_to_C01", 1)
				continue
			}
			c.Count("recycled_buffer_steps", 1)
			c.Count("dangerous_urls_matched", int64(st.urls))
			for _, x := range rs {
				c.Violation(&core.Violation{Class: x.class, Locus: x.locus + ":recycled-source-buffer", Config: name, Input: s.Doc, Script: arenaScript(steps),
					Detail: fmt.Sprintf("one group of renderers, the caller reuses its source buffer between conversions:\n%sstep %d: %s", arenaDescribe(steps), si+1, x.detail)})
			}
		}
		c.End()
	}
}

func runC10(c *core.Ctx) {
	groups := map[string]*c10Group{}
	corpus := loadCorpus(c)
	r := c.Rng
	defer c10Arena(c, groups)
	// regression / anchor documents: every void element under every extension that has one
	anchors := []string{
		"a  \nb\nc ![i](u)\n\n***\n\n- [x] t\n- [ ] u\n\nf[^1]\n\n[^1]: n\n\n| a |\n|:-:|\n| b<br> |\n\n<hr>\n\n[x](javascript:y) <javascript:z>\n",
	}
	if c.Shard == 0 {
		for _, a := range anchors {
			for e := 0; e < cfg.NExt; e++ {
				for po := 0; po < 2; po++ {
					c10Check(c, groups, c10Base(e, po), []byte(a))
				}
			}
			c10Check(c, groups, c10Direct(0), []byte(a))
			c10Check(c, groups, c10Direct(1), []byte(a))
		}
	}
	// 1. exhaustive short strings
	L := c.N(3, 4)
	n1 := wl.ShortCount(len(c10Alpha), L)
	for i := 0; i < n1; i++ {
		if !c.Mine(i) {
			continue
		}
		src := []byte(wl.ShortAt(c10Alpha, L, i))
		if i%4 == 0 {
			c10Check(c, groups, c10Direct(i/4%2), src)
		}
		if c.Quick() {
			for k := 0; k < 3; k++ {
				c10Check(c, groups, c10Base((i+3*k)%cfg.NExt, (i/9+k)%2), src)
			}
		} else {
			for e := 0; e < cfg.NExt; e++ {
				c10Check(c, groups, c10Base(e, (i+e)%2), src)
			}
		}
	}
	// 2. random sources
	n2 := c.PerShard(c.N(260000, 9000000))
	for i := 0; i < n2; i++ {
		var src []byte
		switch i % 6 {
		case 5:
			src = []byte(sg.Document(r, 3, 5, 4, nil).Markdown)
		case 0, 1:
			src = wl.SoupFrom(r, c10Tokens, 1+r.Intn(12))
		case 2:
			src = wl.SoupFrom(r, c08Lines, 1+r.Intn(10))
		case 3:
			src = wl.SoupFrom(r, c03Tokens, 1+r.Intn(12))
		default:
			src = mixDoc(r, corpus)
		}
		e := r.Intn(cfg.NExt)
		if r.Intn(3) == 0 {
			e = cfg.ExtAll
		}
		base := c10Base(e, r.Intn(2))
		if i%10 == 9 {
			base = c10Direct(r.Intn(2))
		}
		c10Check(c, groups, base, src)
		if c.WantSample() && i%5000 == 7 {
			c.Sample(map[string]any{"group": base.Name(), "input": q(src)})
		}
	}
}
