package props

import (
	"encoding/base64"
	"fmt"
	"strings"

	"github.com/yuin/goldmark"

	"verif/cfg"
)

// srcArena is the read buffer of a caller that recycles it: every document is copied over the previous one before it is
// converted. goldmark may keep slices of a source only as long as the conversion runs; whatever it keeps beyond that (a
// cache value that aliases the source, a memo keyed by a sub-slice) changes under its feet here.
type srcArena struct{ buf []byte }

func (a *srcArena) load(src []byte) []byte {
	if cap(a.buf) < len(src)+1 {
		a.buf = make([]byte, 0, 2*len(src)+256)
	}
	a.buf = a.buf[:len(src)]
	copy(a.buf, src)
	return a.buf[:len(src):len(src)]
}

// arenaStep is one conversion of a recycled-buffer history.
type arenaStep struct {
	Doc   []byte
	Fresh bool // converted from a slice of its own instead of the recycled buffer
}

// arenaRun converts the steps in order on one instance and returns the outputs (nil where the conversion failed).
func arenaRun(md goldmark.Markdown, a *srcArena, steps []arenaStep) [][]byte {
	outs := make([][]byte, len(steps))
	for i, s := range steps {
		src := s.Doc
		if !s.Fresh {
			src = a.load(s.Doc)
		} else {
			src = append([]byte(nil), s.Doc...)
		}
		res := parseRender(md, src)
		if res.OK() {
			outs[i] = append([]byte(nil), res.Out...)
		}
	}
	return outs
}

func arenaScript(steps []arenaStep) map[string]any {
	var docs []string
	var fresh []bool
	for _, s := range steps {
		docs = append(docs, base64.StdEncoding.EncodeToString(s.Doc))
		fresh = append(fresh, s.Fresh)
	}
	return map[string]any{"recycled_source_buffer_history_b64": docs, "converted_from_own_slice": fresh}
}

// arenaFromScript decodes a recorded history (nil if the script is not one).
func arenaFromScript(script any) []arenaStep {
	sc, ok := script.(map[string]any)
	if !ok {
		return nil
	}
	ds, ok := sc["recycled_source_buffer_history_b64"].([]any)
	if !ok {
		return nil
	}
	fr, _ := sc["converted_from_own_slice"].([]any)
	var steps []arenaStep
	for i, d := range ds {
		s, _ := d.(string)
		b, err := base64.StdEncoding.DecodeString(s)
		if err != nil {
			return nil
		}
		st := arenaStep{Doc: b}
		if i < len(fr) {
			st.Fresh, _ = fr[i].(bool)
		}
		steps = append(steps, st)
	}
	return steps
}

func arenaDescribe(steps []arenaStep) string {
	var b strings.Builder
	for i, s := range steps {
		where := "recycled buffer"
		if s.Fresh {
			where = "own slice"
		}
		fmt.Fprintf(&b, "  %d. (%s) %s\n", i+1, where, q(s.Doc))
	}
	return b.String()
}

// padTo makes s exactly n bytes long by appending fill bytes or cutting (n is chosen by the callers so that cutting keeps the
// significant prefix).
func padTo(s string, n int, fill byte) string {
	if len(s) >= n {
		return s[:n]
	}
	return s + strings.Repeat(string(fill), n-len(s))
}

var _ = cfg.Spec{}
