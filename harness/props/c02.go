package props

import (
	"bytes"
	"fmt"
	"regexp"
	"strings"

	"github.com/yuin/goldmark"
	"github.com/yuin/goldmark/ast"

	"verif/cfg"
	"verif/core"
	"verif/sg"
	"verif/wl"
)

// C02 — CommonMark conformance on constructed documents and rewritten spec examples.

func init() {
	register(&Prop{
		ID:    "C02",
		Level: "exploration",
		Rule: "part 1: a generator draws an abstract document tree (paragraphs, ATX/Setext headings, thematic breaks, indented/fenced code, block quotes with lazy lines, tight/loose bullet and ordered lists, link reference definitions, HTML blocks of all 7 types; " +
			"inlines: words with backslash/entity/numeric escapes, emphasis/strong with either delimiter, code spans, inline/full/collapsed/shortcut links and images, autolinks, raw inline HTML, hard and soft breaks) and derives independently a Markdown spelling under random surface choices " +
			"and the HTML the specification prescribes; the real converter (Unsafe, with and without XHTML) must produce that HTML up to the inter-block whitespace the specification's comparison ignores. " +
			"part 2: each of the 652 spec examples is converted after spec-licensed rewrites (final newline removed/added, an unrelated closed block prepended or appended) and compared with spec.json's HTML plus the rewrite's HTML. " +
			"part 3: an independent implementation of the emphasis rules (harness/sg/emph.go, validated against the 103 single-line examples of the specification's emphasis section that lie in its alphabet) is run in lock-step on every line over {*, _, a, space} up to length 8 (quick) / 10 (thorough), between two words and - when the line is a paragraph - as a whole line, and on random longer lines with inert punctuation. " +
			"Non-trivial = the document has at least one block other than a paragraph; distinct = distinct AST shape signatures of the generated documents.",
		Assumptions: []string{
			"the generator (harness/sg, about 1000 lines) is the trusted base of part 1: every construct is generated only where the specification fixes its meaning (DESIGN.md section 4 / C02 lists the rules and the adjacency table); there is no reference implementation on this machine",
			"the comparison ignores whitespace adjacent to block-level tags outside <pre> and the difference between '<br />' and '<br>' style void tags, nothing else",
			"the claim covers the generated language and the rewrite set, not CommonMark at large",
		},
		Run:    runC02,
		Replay: replayC02,
		Floors: func(m *Merged) []string {
			var out []string
			if m.Counters["generated_documents"] < 20000 {
				out = append(out, fmt.Sprintf("only %d generated documents", m.Counters["generated_documents"]))
			}
			if m.Counters["spec_rewrites_checked"] < 2000 {
				out = append(out, fmt.Sprintf("only %d spec rewrites checked", m.Counters["spec_rewrites_checked"]))
			}
			need := []string{"block:paragraph", "block:atx-heading", "block:setext-heading", "block:thematic-break", "block:indented-code", "block:fenced-code", "block:block-quote", "block:list-tight", "block:list-loose",
				"block:html-type-1", "block:html-type-2", "block:html-type-3", "block:html-type-4", "block:html-type-5", "block:html-type-6", "block:html-type-7",
				"link:inline", "link:full", "link:collapsed", "link:shortcut", "image", "autolink", "rawhtml-inline", "hardbreak:spaces", "hardbreak:backslash", "softbreak", "lazy:quote", "lazy:list-item", "indent:tab",
				"indent:tab-after-quote-marker", "indent:tab-after-list-marker", "label:tab", "escape:backslash", "escape:named", "escape:decimal", "escape:hex", "emphasis:*", "emphasis:**", "emphasis:_", "emphasis:__", "fenced:left-open", "list:empty-item", "list:item-begins-with-blank-line", "list:item-begins-with-indented-code", "escape:inert-lookalike", "multiline:emphasis", "multiline:link-text", "multiline:code-span", "ref-def:multi-line-title", "ref-def:multi-line-label", "blank-line:whitespace-only"}
			var missing []string
			for _, k := range need {
				if m.Sets["constructs"][k] == 0 {
					missing = append(missing, k)
				}
			}
			if len(missing) > 0 {
				out = append(out, "constructs never generated: "+strings.Join(missing, ","))
			}
			return out
		},
		Exhaustive: func(tier string) string {
			if tier == "thorough" {
				return "part 2: all 652 spec examples x the applicable rewrites; part 3: all 1,398,101 lines of length<=10 over {*, _, a, space}; part 1 is sampled"
			}
			return "part 2: all 652 spec examples x the applicable rewrites; part 3: all 87,381 lines of length<=8 over {*, _, a, space}; part 1 is sampled"
		},
	})
}

var (
	reBlockTag = regexp.MustCompile(`[ \t\n]*(</?(?:p|h[1-6]|blockquote|pre|ul|ol|li|hr)(?: [^<>]*)?>)[ \t\n]*`)
)

// c02Normalize drops whitespace adjacent to block-level tags outside <pre> and equates XHTML/HTML5 void tags.
func C02Normalize(h []byte) string { return c02Normalize(h) }

func c02Normalize(h []byte) string {
	s := strings.ReplaceAll(string(h), " />", ">")
	var out strings.Builder
	for len(s) > 0 {
		i := strings.Index(s, "<pre>")
		if i < 0 {
			out.WriteString(reBlockTag.ReplaceAllString(s, "$1"))
			break
		}
		out.WriteString(reBlockTag.ReplaceAllString(s[:i], "$1"))
		out.WriteString("<pre>")
		s = s[i+5:]
		j := strings.Index(s, "</pre>")
		if j < 0 {
			out.WriteString(s)
			break
		}
		out.WriteString(s[:j+6])
		s = s[j+6:]
		// whitespace directly after </pre>
		s = strings.TrimLeft(s, " \t\n")
	}
	return strings.TrimSpace(out.String())
}

type c02Case struct {
	md   []byte
	want string // prescribed HTML
	kind string // "generated" or rewrite name
	no   int
}

func c02Eval(md goldmark.Markdown, cs *c02Case) (class, locus, detail string, doc ast.Node, ok bool) {
	res := parseRender(md, cs.md)
	if !res.OK() {
		return "", "", "", nil, false
	}
	got, want := c02Normalize(res.Out), c02Normalize([]byte(cs.want))
	if got == want {
		return "", "", "", res.Doc, true
	}
	class = "differs-from-prescribed-html"
	if cs.kind == "emphasis-model" {
		class = "differs-from-emphasis-model"
		locus = "emphasis"
	} else if cs.kind != "generated" {
		class = "spec-example-rewrite-differs"
		locus = cs.kind
	} else {
		locus = c10Where([]byte(want), []byte(got))
	}
	return class, locus, fmt.Sprintf("%s\nfull output:   %s\nfull expected: %s", firstDiff([]byte(got), []byte(want)), q(res.Out), q([]byte(cs.want))), res.Doc, true
}

func c02Specs() []cfg.Spec {
	return []cfg.Spec{{Ext: cfg.ExtCore, Unsafe: true, XHTML: true}, {Ext: cfg.ExtCore, Unsafe: true}}
}

func c02Check(c *core.Ctx, pool *cfg.Pool, spec cfg.Spec, cs *c02Case, st sg.Stats) {
	name := spec.Name()
	c.Begin(name, cs.md)
	class, locus, detail, doc, ok := c02Eval(pool.Get(spec), cs)
	c.End()
	c.Eval()
	if !ok {
		c.Count("conversion_failed_left_to_C01", 1)
		return
	}
	if cs.kind == "generated" {
		c.Count("generated_documents", 1)
		if doc != nil {
			observeShape(c, doc, "")
		}
	} else if cs.kind == "inline-model" {
		c.Count("paragraphs_compared_with_inline_model", 1)
		if doc != nil {
			observeShape(c, doc, "inl")
		}
	} else if cs.kind == "emphasis-model" {
		c.Count("emphasis_lines_compared_with_model", 1)
		if doc != nil && bytes.IndexAny(cs.md, "*_") >= 0 {
			observeShape(c, doc, "emph")
		}
	} else {
		c.Count("spec_rewrites_checked", 1)
		c.Observe("rewrites", cs.kind)
	}
	if class == "" {
		return
	}
	if c.Seen(class, locus) {
		c.Violation(&core.Violation{Class: class, Locus: locus, Config: name, Input: cs.md})
		return
	}
	c.Violation(&core.Violation{Class: class, Locus: locus, Config: name, Input: cs.md, Detail: detail,
		Script: map[string]any{"want": cs.want, "kind": cs.kind, "example": cs.no}})
}

func replayC02(c *core.Ctx, v *core.Violation) (bool, string) {
	m, _ := v.Script.(map[string]any)
	if m == nil {
		return false, "replay needs the recorded expected HTML"
	}
	want, _ := m["want"].(string)
	kind, _ := m["kind"].(string)
	spec := specOf(v.Config)
	cl, lo, d, _, ok := c02Eval(spec.Build(), &c02Case{md: v.Input, want: want, kind: kind})
	if !ok {
		return false, "conversion failed (C01)"
	}
	return cl != "", cl + " " + lo + " " + d
}

// c02Emph compares goldmark with the reference implementation of the emphasis rules on one line.
func c02Emph(c *core.Ctx, pool *cfg.Pool, spec cfg.Spec, line string) {
	if !sg.EmphAlphabetOK(line) {
		return
	}
	st := sg.Stats(nil)
	wrapped := "a " + line + " a"
	c02Check(c, pool, spec, &c02Case{md: []byte(wrapped + "\n"), want: "<p>" + sg.EmphHTML(wrapped) + "</p>\n", kind: "emphasis-model"}, st)
	// as a whole line, when the line is a paragraph (not a list item, thematic break, code or blank line)
	t := strings.TrimSpace(line)
	if t != line || t == "" {
		return
	}
	if t[0] == '*' && (len(t) == 1 || t[1] == ' ') {
		return
	}
	if strings.Trim(t, "* ") == "" || strings.Trim(t, "_ ") == "" || strings.Trim(t, "- ") == "" {
		return
	}
	if t[0] == '-' || t[0] == '+' || t[0] == '#' || t[0] == '=' {
		return
	}
	c02Check(c, pool, spec, &c02Case{md: []byte(line), want: "<p>" + sg.EmphHTML(line) + "</p>\n", kind: "emphasis-model"}, st)
}

// c02EndsOpenLeaf decides from an example's own tree whether appending text could land inside an open leaf block.
func c02EndsOpenLeaf(doc ast.Node) bool {
	for n := doc.LastChild(); n != nil; n = n.LastChild() {
		switch n.Kind() {
		case ast.KindFencedCodeBlock, ast.KindCodeBlock, ast.KindHTMLBlock:
			return true
		}
		if n.Type() == ast.TypeInline {
			break
		}
	}
	return false
}

func runC02(c *core.Ctx) {
	pool := cfg.NewPool()
	specs := c02Specs()
	r := c.Rng
	st := sg.Stats{}
	// neighbours: converters of other configurations live in the same process (heading attributes, automatic ids, every
	// extension, renderer flags, options given through the option route) and convert a document now and again. What they were
	// configured with is their business; the CommonMark configuration under test must not notice.
	nbs := []goldmark.Markdown{
		cfg.Spec{Ext: cfg.ExtAll, AutoHeadingID: true, Attribute: true}.Build(),
		cfg.Spec{Ext: cfg.ExtCore, Attribute: true, HardWraps: true}.Build(),
		cfg.Spec{Ext: cfg.ExtAll, Rich: true, Rich3: true, AutoHeadingID: true}.Build(),
		cfg.Spec{Ext: cfg.ExtCJKCSS3, Unsafe: true}.Build(),
	}
	nbDoc := []byte("# Foo {#bar}\n\nSetext {.c}\n===\n\n\"q\" -- x[^1] www.a.b ~~s~~ #12\n\n[^1]: n\n\n| a |\n|:-:|\n| b |\n\n- [x] t\n\nterm\n: def\n")
	neighbourTurn := func() {
		for _, nb := range nbs {
			_ = convert(nb, nbDoc)
			c.Eval()
		}
		c.Count("conversions_by_neighbour_instances", int64(len(nbs)))
	}
	neighbourTurn()
	// part 2: spec example rewrites
	examples, _ := wl.SpecExamples(c.Repo)
	specCfg := specs[0]
	for i, ex := range examples {
		if !c.Mine(i) {
			continue
		}
		md := []byte(ex.Markdown)
		base := parseRender(pool.Get(specCfg), md)
		openEnd := !base.OK() || c02EndsOpenLeaf(base.Doc)
		c02Check(c, pool, specCfg, &c02Case{md: md, want: ex.HTML, kind: "identity", no: ex.No}, st)
		// prepend an unrelated closed block
		c02Check(c, pool, specCfg, &c02Case{md: append([]byte("zzz\n\n"), md...), want: "<p>zzz</p>\n" + ex.HTML, kind: "prepend-paragraph", no: ex.No}, st)
		c02Check(c, pool, specCfg, &c02Case{md: append([]byte("***\n\n"), md...), want: "<hr />\n" + ex.HTML, kind: "prepend-thematic-break", no: ex.No}, st)
		c02Check(c, pool, specCfg, &c02Case{md: append([]byte("# zz\n"), md...), want: "<h1>zz</h1>\n" + ex.HTML, kind: "prepend-heading", no: ex.No}, st)
		if !openEnd {
			if bytes.HasSuffix(md, []byte("\n")) {
				c02Check(c, pool, specCfg, &c02Case{md: md[:len(md)-1], want: ex.HTML, kind: "drop-final-newline", no: ex.No}, st)
			}
			c02Check(c, pool, specCfg, &c02Case{md: append(append([]byte(nil), md...), '\n'), want: ex.HTML, kind: "add-final-newline", no: ex.No}, st)
			c02Check(c, pool, specCfg, &c02Case{md: append(append([]byte(nil), md...), "\n\nzzz\n"...), want: ex.HTML + "<p>zzz</p>\n", kind: "append-paragraph", no: ex.No}, st)
			c02Check(c, pool, specCfg, &c02Case{md: append(append([]byte(nil), md...), "\n\n# zz\n"...), want: ex.HTML + "<h1>zz</h1>\n", kind: "append-heading", no: ex.No}, st)
		} else {
			c.Count("spec_examples_ending_in_open_leaf_not_appended", 1)
		}
	}
	// part 3: emphasis against an independent implementation of the delimiter-run rules (harness/sg/emph.go): every string
	// over {*, _, a, space} up to a length bound, as a whole line when that line is a paragraph and between two words always;
	// random longer lines with inert punctuation
	L := c.N(8, 10)
	ea := []string{"*", "_", "a", " "}
	ne := wl.ShortCount(len(ea), L)
	for i := 0; i < ne; i++ {
		if !c.Mine(i) {
			continue
		}
		c02Emph(c, pool, specs[i%2], wl.ShortAt(ea, L, i))
	}
	eb := []string{"*", "*", "_", "_", "**", "__", "***", "a", "b", " ", " ", ".", "(", ")", "\"", "!", "-"}
	for i := c.PerShard(c.N(150000, 6000000)); i > 0; i-- {
		var sb strings.Builder
		for k := 2 + r.Intn(14); k > 0; k-- {
			sb.WriteString(eb[r.Intn(len(eb))])
		}
		c02Emph(c, pool, specs[i%2], sb.String())
	}
	// part 5: many link reference definitions with a duplicate - the first definition wins however many there are
	// (the count at every boundary size; the duplicate pair at the start, in the middle and at the end)
	kd := 0
	for _, n := range wl.BoundarySizes {
		if n < 2 || n > 1100 {
			continue
		}
		for _, pq := range [][2]int{{0, 1}, {0, n - 1}, {n / 2, n - 1}, {n - 2, n - 1}, {n / 3, n/3 + 1}} {
			kd++
			if !c.Mine(kd) || pq[0] >= pq[1] {
				continue
			}
			var b strings.Builder
			for i := 0; i < n; i++ {
				lab := fmt.Sprintf("l%d", i)
				if i == pq[1] {
					// the later duplicate of label pq[0], in another case and with another target
					fmt.Fprintf(&b, "[L%d]: /dup 'dup'\n", pq[0])
					continue
				}
				fmt.Fprintf(&b, "[%s]: /u%d\n", lab, i)
			}
			last := n - 1
			if last == pq[1] {
				last = n - 2
			}
			fmt.Fprintf(&b, "\n[l%d] [x][L%d] [l%d][] [l0]\n", pq[0], pq[0], last)
			lastHref := fmt.Sprintf("/u%d", last)
			if last == pq[0] {
				lastHref = fmt.Sprintf("/u%d", pq[0])
			}
			want := fmt.Sprintf("<p><a href=\"/u%d\">l%d</a> <a href=\"/u%d\">x</a> <a href=\"%s\">l%d</a> <a href=\"/u0\">l0</a></p>\n", pq[0], pq[0], pq[0], lastHref, last)
			c02Check(c, pool, specs[kd%2], &c02Case{md: []byte(b.String()), want: want, kind: "first-definition-wins"}, st)
			c.Count("first_definition_wins_documents", 1)
		}
	}
	// part 4: the inline reference model (code spans, links, images, autolinks, raw HTML, entities, escapes, line breaks)
	runC02Inline(c, pool, specs)
	// part 1: generated documents
	n := c.PerShard(c.N(300000, 12000000))
	for i := 0; i < n; i++ {
		depth, blocks, lines := 3, 8, 3
		if !c.Quick() || i%5 == 0 {
			depth, blocks, lines = 5, 14, 5
		}
		if i%7 == 0 {
			depth, blocks = 2, 3
		}
		var d sg.Doc
		if i%4 == 3 {
			// tabs may also start inside the structural spaces that follow a container marker ("> " TAB "- a")
			d = sg.DocumentTabsAnywhere(r, depth, blocks, lines, st)
		} else {
			d = sg.Document(r, depth, blocks, lines, st)
		}
		sp := specs[i%2]
		c02Check(c, pool, sp, &c02Case{md: []byte(d.Markdown), want: d.HTML, kind: "generated"}, st)
		if c.WantSample() && i%9000 == 4 {
			c.Sample(map[string]any{"markdown": q([]byte(d.Markdown)), "prescribed_html": q([]byte(d.HTML))})
		}
	}
	for k, v := range st {
		c.Observe("constructs", k)
		c.Count("construct:"+k, int64(v))
	}
}
