package props

import (
	"bytes"
	"fmt"
	"html"
	"strings"
	"unicode"
	"unicode/utf8"

	"github.com/yuin/goldmark/util"

	"verif/core"
	"verif/wl"
)

// C19 — escaping and normalisation utilities obey their algebraic laws.

func init() {
	register(&Prop{
		ID:    "C19",
		Level: "exploration",
		Rule: "cases = byte strings fed to util.EscapeHTML, URLEscape (both modes), UnescapePunctuations, ResolveNumericReferences, ResolveEntityNames, ToLinkReference, " +
			"and programs of Add/Extend/ExtendString/Contains over BytesFilter trees with keys computed to collide in one of the 64 slots. " +
			"Exhaustive part: all strings up to length L over a 22-unit alphabet of law-relevant bytes; all filter programs up to the stated length. " +
			"A string is non-trivial when it contains at least one byte the function must transform or a '%'/'&'/'\\\\'; distinct = distinct inputs (hash-counted).",
		Assumptions: []string{
			"html.UnescapeString (Go standard library) is the independent decoder for the EscapeHTML round trip; numeric references are decoded by a 15-line reference decoder (1-7 decimal / 1-6 hex digits, 0/surrogate/>U+10FFFF => U+FFFD)",
			"URLEscape is checked relationally (aligned units), so no particular set of unreserved characters is demanded",
			"unicode.SimpleFold orbits (Go's Unicode tables) define 'differ only in letter case'",
		},
		Run: runC19,
		Exhaustive: func(tier string) string {
			if tier == "thorough" {
				return "all strings of length <= 5 over the 22-unit alphabet for every string law; all simple-fold orbits of all Unicode code points; all BytesFilter programs of length <= 5 over 5 colliding keys"
			}
			return "all strings of length <= 3 over the 22-unit alphabet for every string law (length 4 sampled); all simple-fold orbits of all Unicode code points; all BytesFilter programs of length <= 4 over 5 colliding keys"
		},
		Floors: func(m *Merged) []string {
			var out []string
			for _, f := range []string{"EscapeHTML", "URLEscape", "URLEscape(resolve)", "UnescapePunctuations", "ResolveNumericReferences", "ResolveEntityNames", "ToLinkReference", "BytesFilter"} {
				if m.Counters["law_"+f] == 0 {
					out = append(out, "law never evaluated: "+f)
				}
			}
			return out
		},
		Replay: replayC19,
	})
}

var c19Alpha = []string{"a", "%", "4", "g", "F", " ", "\"", "<", ">", "&", "\x01", "é", "\xe3", "\x81", "\x80", "\xff", "\\", ":", "#", "&#", ";", "x"}

func isHex(b byte) bool {
	return b >= '0' && b <= '9' || b >= 'a' && b <= 'f' || b >= 'A' && b <= 'F'
}

func hexVal(b byte) int {
	switch {
	case b >= '0' && b <= '9':
		return int(b - '0')
	case b >= 'a' && b <= 'f':
		return int(b-'a') + 10
	}
	return int(b-'A') + 10
}

// c19EscapeHTML checks the EscapeHTML laws; returns "" or a description.
func c19EscapeHTML(x []byte) string {
	orig := append([]byte(nil), x...)
	out := util.EscapeHTML(x)
	if !bytes.Equal(x, orig) {
		return "input modified"
	}
	for i := 0; i < len(out); i++ {
		switch out[i] {
		case '<', '>', '"':
			return fmt.Sprintf("raw %q in output %q", out[i], out)
		case '&':
			rest := out[i+1:]
			if !(bytes.HasPrefix(rest, []byte("amp;")) || bytes.HasPrefix(rest, []byte("lt;")) || bytes.HasPrefix(rest, []byte("gt;")) || bytes.HasPrefix(rest, []byte("quot;"))) {
				return fmt.Sprintf("bare & in output %q", out)
			}
		}
	}
	if back := html.UnescapeString(string(out)); back != string(x) {
		return fmt.Sprintf("does not decode back: %q -> %q -> %q", x, out, back)
	}
	return ""
}

type c19unit struct {
	triple bool
	b      []byte
}

func c19Units(x []byte) []c19unit {
	var us []c19unit
	for i := 0; i < len(x); {
		if x[i] == '%' && i+2 < len(x)+0 && i+2 <= len(x)-1 && isHex(x[i+1]) && isHex(x[i+2]) {
			us = append(us, c19unit{true, x[i : i+3]})
			i += 3
			continue
		}
		_, n := utf8.DecodeRune(x[i:])
		us = append(us, c19unit{false, x[i : i+n]})
		i += n
	}
	return us
}

// c19URLEscape checks the URLEscape(x,false) laws.
func c19URLEscape(x []byte) string {
	orig := append([]byte(nil), x...)
	out := util.URLEscape(x, false)
	if !bytes.Equal(x, orig) {
		return "input modified"
	}
	valid := utf8.Valid(x)
	for i := 0; i < len(out); i++ {
		b := out[i]
		if b <= 0x20 || b == 0x7f || b == '"' || b == '<' || b == '>' {
			return fmt.Sprintf("forbidden byte %q in output %q", b, out)
		}
		if valid && b >= 0x80 {
			return fmt.Sprintf("non-ASCII byte in output %q for valid UTF-8 input", out)
		}
		if b == '%' && !(i+2 < len(out) && isHex(out[i+1]) && isHex(out[i+2])) {
			return fmt.Sprintf("'%%' not followed by two hex digits in output %q", out)
		}
	}
	if again := util.URLEscape(out, false); !bytes.Equal(again, out) {
		return fmt.Sprintf("not idempotent: %q -> %q -> %q", x, out, again)
	}
	if valid {
		// aligned units: existing %XX triples verbatim; any other character literally or as the %HH of its bytes
		xu := c19Units(x)
		j := 0
		for _, u := range xu {
			if u.triple {
				if j+3 > len(out) || !bytes.Equal(out[j:j+3], u.b) {
					return fmt.Sprintf("existing triple %q not preserved: %q -> %q", u.b, x, out)
				}
				j += 3
				continue
			}
			if len(u.b) == 1 && j < len(out) && out[j] == u.b[0] && u.b[0] != '%' {
				j++
				continue
			}
			for _, by := range u.b {
				if j+3 > len(out) || out[j] != '%' || !isHex(out[j+1]) || !isHex(out[j+2]) || hexVal(out[j+1])*16+hexVal(out[j+2]) != int(by) {
					return fmt.Sprintf("character %q neither kept nor percent-encoded: %q -> %q (at output offset %d)", u.b, x, out, j)
				}
				j += 3
			}
		}
		if j != len(out) {
			return fmt.Sprintf("output has extra bytes: %q -> %q", x, out)
		}
	}
	return ""
}

// c19URLEscapeResolve checks the output laws of URLEscape(x,true).
func c19URLEscapeResolve(x []byte) string {
	orig := append([]byte(nil), x...)
	out := util.URLEscape(x, true)
	if !bytes.Equal(x, orig) {
		return "input modified"
	}
	valid := utf8.Valid(x)
	for i := 0; i < len(out); i++ {
		b := out[i]
		if b <= 0x20 || b == 0x7f || b == '"' || b == '<' || b == '>' {
			return fmt.Sprintf("forbidden byte %q in output %q", b, out)
		}
		if valid && b >= 0x80 {
			return fmt.Sprintf("non-ASCII byte in output %q for valid UTF-8 input", out)
		}
		if b == '%' && !(i+2 < len(out) && isHex(out[i+1]) && isHex(out[i+2])) {
			return fmt.Sprintf("'%%' not followed by two hex digits in output %q", out)
		}
	}
	return ""
}

func isPunctASCII(b byte) bool {
	return b >= '!' && b <= '/' || b >= ':' && b <= '@' || b >= '[' && b <= '`' || b >= '{' && b <= '~'
}

func c19Unescape(x []byte) string {
	orig := append([]byte(nil), x...)
	out := util.UnescapePunctuations(x)
	if !bytes.Equal(x, orig) {
		return "input modified"
	}
	var want []byte
	for i := 0; i < len(x); i++ {
		if x[i] == '\\' && i+1 < len(x) && isPunctASCII(x[i+1]) {
			want = append(want, x[i+1])
			i++
			continue
		}
		want = append(want, x[i])
	}
	if !bytes.Equal(out, want) {
		return fmt.Sprintf("%q -> %q, reference %q", x, out, want)
	}
	if utf8.Valid(x) && !utf8.Valid(out) {
		return fmt.Sprintf("valid UTF-8 %q became invalid %q", x, out)
	}
	return ""
}

// c19NumRef is a reference decoder for conforming numeric references; ok=false when x contains a
// reference-like form outside the conforming digit counts (then only validity is checked).
func c19NumRef(x []byte) (want []byte, exact bool) {
	return c19NumRefMode(x, true, true)
}

// c19NumRefMode: resolveLong tells whether reference-like forms with more digits than CommonMark allows are resolved
// (to the code point, or U+FFFD when it is out of range) or kept literally; both are accepted by the oracle.
func c19NumRefMode(x []byte, resolveLongHex, resolveLongDec bool) (want []byte, exact bool) {
	exact = true
	for i := 0; i < len(x); {
		if x[i] == '&' && i+2 < len(x) && x[i+1] == '#' {
			j := i + 2
			hexm := false
			if x[j] == 'x' || x[j] == 'X' {
				hexm = true
				j++
			}
			st := j
			v := 0
			for j < len(x) && (hexm && isHex(x[j]) || !hexm && x[j] >= '0' && x[j] <= '9') {
				if v < 1<<28 {
					if hexm {
						v = v*16 + hexVal(x[j])
					} else {
						v = v*10 + int(x[j]-'0')
					}
				}
				j++
			}
			nd := j - st
			if nd > 0 && j < len(x) && x[j] == ';' {
				if hexm && nd > 6 || !hexm && nd > 7 {
					exact = false
					if hexm && !resolveLongHex || !hexm && !resolveLongDec {
						want = append(want, x[i:j+1]...)
						i = j + 1
						continue
					}
				}
				r := rune(v)
				if v == 0 || v > 0x10FFFF || v >= 0xD800 && v <= 0xDFFF {
					r = 0xFFFD
				}
				want = utf8.AppendRune(want, r)
				i = j + 1
				continue
			}
		}
		want = append(want, x[i])
		i++
	}
	return
}

func c19Numeric(x []byte) string {
	orig := append([]byte(nil), x...)
	out := util.ResolveNumericReferences(x)
	if !bytes.Equal(x, orig) {
		return "input modified"
	}
	if utf8.Valid(x) && !utf8.Valid(out) {
		return fmt.Sprintf("valid UTF-8 %q became invalid %q", x, out)
	}
	if bytes.ContainsRune(out, 0) && !bytes.ContainsRune(x, 0) {
		return fmt.Sprintf("NUL produced: %q -> %q", x, out)
	}
	if want, exact := c19NumRef(x); !bytes.Equal(out, want) {
		if exact {
			return fmt.Sprintf("%q -> %q, reference decoder %q", x, out, want)
		}
		// over-long digit strings: either resolved (out-of-range => U+FFFD) or kept literally
		ok := false
		var alt []byte
		for _, m := range [][2]bool{{false, false}, {true, false}, {false, true}} {
			alt, _ = c19NumRefMode(x, m[0], m[1])
			if bytes.Equal(out, alt) {
				ok = true
			}
		}
		if !ok {
			return fmt.Sprintf("%q -> %q, reference decoder %q (over-long references resolved) or e.g. %q (kept)", x, out, want, alt)
		}
	}
	return ""
}

var c19Entities = map[string]string{
	"amp": "&", "lt": "<", "gt": ">", "quot": "\"", "apos": "'", "copy": "©", "nbsp": " ", "ouml": "ö", "Auml": "Ä", "hearts": "♥",
	"ldquo": "“", "rdquo": "”", "mdash": "—", "ndash": "–", "hellip": "…", "colon": ":", "Tab": "\t", "NewLine": "\n", "lpar": "(", "rpar": ")",
	"AElig": "Æ", "Dcaron": "Ď", "frac34": "¾", "HilbertSpace": "ℋ", "DifferentialD": "ⅆ", "ClockwiseContourIntegral": "∲", "ngE": "≧̸", "excl": "!", "num": "#", "bsol": "\\",
}

func c19EntityNames(x []byte) string {
	orig := append([]byte(nil), x...)
	out := util.ResolveEntityNames(x)
	if !bytes.Equal(x, orig) {
		return "input modified"
	}
	if utf8.Valid(x) && !utf8.Valid(out) {
		return fmt.Sprintf("valid UTF-8 %q became invalid %q", x, out)
	}
	// reference: names from the table are replaced, names of the form zz[a-z0-9]* (not HTML5 entities) are kept
	var want []byte
	exact := true
	for i := 0; i < len(x); {
		if x[i] == '&' {
			j := i + 1
			for j < len(x) && (x[j] >= 'a' && x[j] <= 'z' || x[j] >= 'A' && x[j] <= 'Z' || x[j] >= '0' && x[j] <= '9') {
				j++
			}
			if j > i+1 && j < len(x) && x[j] == ';' {
				name := string(x[i+1 : j])
				if v, ok := c19Entities[name]; ok {
					want = append(want, v...)
					i = j + 1
					continue
				}
				if !strings.HasPrefix(name, "zz") {
					exact = false // unknown to the reference table
				}
			}
		}
		want = append(want, x[i])
		i++
	}
	if exact && !bytes.Equal(out, want) {
		return fmt.Sprintf("%q -> %q, reference %q", x, out, want)
	}
	return ""
}

func c19LinkRefIdem(x []byte) string {
	orig := append([]byte(nil), x...)
	a := util.ToLinkReference(x)
	if !bytes.Equal(x, orig) {
		return "input modified"
	}
	if b := util.ToLinkReference([]byte(a)); a != b {
		return fmt.Sprintf("not idempotent: %q -> %q -> %q", x, a, b)
	}
	return ""
}

type c19Stats struct{ c *core.Ctx }

func c19Fail(c *core.Ctx, law string, x []byte, desc string) {
	locus := desc
	if i := strings.IndexAny(locus, ":"); i > 0 {
		locus = locus[:i]
	}
	locus = stripDigits(locus)
	if len(locus) > 60 {
		locus = locus[:60]
	}
	c.Violation(&core.Violation{Class: "law-" + law, Locus: locus, Input: x, Detail: desc})
}

var c19Laws = []struct {
	name string
	f    func([]byte) string
}{
	{"EscapeHTML", c19EscapeHTML},
	{"URLEscape", c19URLEscape},
	{"URLEscape(resolve)", c19URLEscapeResolve},
	{"UnescapePunctuations", c19Unescape},
	{"ResolveNumericReferences", c19Numeric},
	{"ResolveEntityNames", c19EntityNames},
	{"ToLinkReference", c19LinkRefIdem},
}

// c19ByteFuncs are the exported transformers that return a byte slice.
var c19ByteFuncs = []struct {
	name string
	f    func([]byte) []byte
}{
	{"EscapeHTML", util.EscapeHTML},
	{"URLEscape", func(b []byte) []byte { return util.URLEscape(b, false) }},
	{"URLEscape(resolve)", func(b []byte) []byte { return util.URLEscape(b, true) }},
	{"UnescapePunctuations", util.UnescapePunctuations},
	{"ResolveNumericReferences", util.ResolveNumericReferences},
	{"ResolveEntityNames", util.ResolveEntityNames},
	{"ToLinkReference", func(b []byte) []byte { return []byte(util.ToLinkReference(b)) }},
	{"DoFullUnicodeCaseFolding", util.DoFullUnicodeCaseFolding},
	{"ReplaceSpaces", func(b []byte) []byte { return util.ReplaceSpaces(b, '_') }},
	{"VisualizeSpaces", util.VisualizeSpaces},
}

func c19All(c *core.Ctx, x []byte) {
	for _, l := range c19Laws {
		var d string
		pv, st := core.Try(func() { d = l.f(x) })
		if pv != nil {
			d = fmt.Sprintf("panic: %v\n%s", pv, trimStack(st))
		}
		c.Eval()
		c.Count("law_"+l.name, 1)
		if d != "" {
			c19Fail(c, l.name, x, d)
		}
	}
	if bytes.ContainsAny(x, "%&\\<>\" \x01") || !utf8.Valid(x) {
		c.Sig(core.Hash64(x))
	}
}

func runC19(c *core.Ctx) {
	// regression seeds (witnesses of repaired defects)
	if c.Shard == 0 {
		for _, s := range []string{"%a%", "%a ", "%aé", "%a\"", "&#065;", "&#08;", "&#0;", "&#xD800;", "&#x110000;", "&#1114112;", "%", "%4", "%zz", "a%41b", "&#x100000041;", "&#x0000041;", "&#xFFFFFFFF00000041;", "&#4294967361;"} {
			c19All(c, []byte(s))
		}
	}
	// 0b. every HTML5 named character reference: all string laws on strings that contain it
	for i, name := range wl.EntityNames {
		if !c.Mine(i) {
			continue
		}
		// (whether the expansion is the right one is a conformance question and belongs to C02; here only the laws)
		x := []byte("a&" + name + "b")
		c19All(c, x)
		c19All(c, []byte("[x](/u?&"+name+" \"&"+name+"\")"))
		c.Count("named_references_checked", 1)
	}
	// 0c. long runs: one unit repeated n times (n at every boundary size), alone and after a one-unit prefix that shifts the
	// alignment - functions that work through a fixed-size scratch buffer or switch to a bulk path beyond some length
	units := []string{"a", " ", "%41", "%", "€", "é", "漢", "😀", "&amp;", "&#x20AC;", "\\*", "<", "\"", "&", "\x80", "ß", "İ", "\t"}
	lk := 0
	for _, n := range wl.BoundarySizes {
		if n > 4097 {
			continue
		}
		for ui, u := range units {
			for _, pre := range []string{"", "a", "é", "[x](", "%4"} {
				lk++
				if !c.Mine(lk) {
					continue
				}
				x := []byte(pre + strings.Repeat(u, n) + units[(ui+n)%len(units)])
				c19All(c, x)
				c.Count("long_run_strings", 1)
			}
		}
	}
	// 0d. results of successive calls are independent: what a call returned must not change when the function is called
	// again (a result that lives in recycled memory), whatever the sizes of the two results
	sizes := []int{0, 1, 7, 63, 64, 65, 255, 256, 257, 1023, 1024, 1025, 2049, 4097, 9000}
	for i, n1 := range sizes {
		for j, n2 := range sizes {
			lk++
			if !c.Mine(lk) {
				continue
			}
			x1 := []byte(strings.Repeat(units[(i*3+j)%len(units)]+"<a&b\">", n1/6+1))
			x2 := []byte(strings.Repeat(units[(i+j*5)%len(units)]+"\\&amp;\" é", n2/8+1))
			for _, f := range c19ByteFuncs {
				var r1, snap []byte
				in1 := append([]byte(nil), x1...)
				pv, _ := core.Try(func() {
					r1 = f.f(x1)
					snap = append([]byte(nil), r1...)
					_ = f.f(x2)
				})
				c.Evals(2)
				c.Count("result_independence_pairs", 1)
				if pv != nil {
					continue // panics are reported by the law stages
				}
				if !bytes.Equal(r1, snap) {
					c.Violation(&core.Violation{Class: "law-" + f.name, Locus: "a later call changed an earlier result", Input: x1,
						Detail: fmt.Sprintf("%s: result of the first call (%d bytes) changed after a second call on another input (%d bytes): %s", f.name, len(snap), len(x2), firstDiff(snap, r1))})
				}
				if !bytes.Equal(x1, in1) {
					c.Violation(&core.Violation{Class: "law-" + f.name, Locus: "input modified", Input: in1})
				}
			}
		}
	}
	// 1. exhaustive short strings
	L := c.N(3, 5)
	n := wl.ShortCount(len(c19Alpha), L)
	for i := 0; i < n; i++ {
		if !c.Mine(i) {
			continue
		}
		x := []byte(wl.ShortAt(c19Alpha, L, i))
		c19All(c, x)
		if c.WantSample() && i%4001 == 0 {
			c.Sample(map[string]any{"kind": "short", "input": q(x)})
		}
	}
	c.Count("exhaustive_strings", int64(n/c.NShards))
	// 2. random longer strings, incl. length 4/6 samples and reference-heavy strings
	r := c.Rng
	big := append(append([]string{}, c19Alpha...), "&amp;", "&#35;", "&#x23;", "&#0;", "&#xD800;", "&#1234567;", "&#12345678;", "&#x1234567;", "&#x100000041;", "&#x0000041;", "&#x10000000000000041;", "&#4294967361;", "&#x1000000D800;", "&#xFFFFFFFF00000041;", "&copy;", "&zzq;", "&Tab;", "&ngE;", "%41", "%e3%81%82", "%2", "あ", "ß", "K", "\\&", "\\\\", "\\a", "\t", "\n", "\r", "\x00", "\x7f", "{", "|", "}", "^", "`", "[", "]", "+", "~", "'", "(", ")")
	nr := c.PerShard(c.N(300000, 30000000))
	for i := 0; i < nr; i++ {
		var x []byte
		for l := 1 + r.Intn(10); l > 0; l-- {
			x = append(x, big[r.Intn(len(big))]...)
		}
		c19All(c, x)
		if c.WantSample() && i%30000 == 5 {
			c.Sample(map[string]any{"kind": "random", "input": q(x)})
		}
	}
	c.Count("random_strings", int64(nr))

	c19Labels(c)
	c19Filters(c)
	c19BigFilters(c)
}

// c19Labels checks that labels differing only in whitespace runs or letter case normalise identically.
func c19Labels(c *core.Ctx) {
	// all simple-fold orbits (sharded by code point)
	for r := rune(0x41); r <= unicode.MaxRune; r++ {
		if !c.Mine(int(r)) || !utf8.ValidRune(r) {
			continue
		}
		f := unicode.SimpleFold(r)
		if f == r {
			continue
		}
		a := util.ToLinkReference([]byte("x" + string(r) + "y"))
		for o := f; o != r; o = unicode.SimpleFold(o) {
			b := util.ToLinkReference([]byte("x" + string(o) + "y"))
			c.Eval()
			c.Count("law_ToLinkReference", 1)
			c.Count("fold_pairs", 1)
			if a != b {
				c.Violation(&core.Violation{Class: "law-ToLinkReference", Locus: "simple-fold orbit members normalise differently",
					Input: []byte(string(r) + string(o)), Detail: fmt.Sprintf("U+%04X -> %q but U+%04X -> %q", r, a, o, b)})
			}
		}
	}
	r := c.Rng
	words := []string{"foo", "Bar", "ẞ", "ß", "ÄÖ", "é", "Σς", "K", "a", "İ", "ǅ", "ῼ", "[", "\\]", "*", "1"}
	ws := []string{" ", "\t", "\n", "\r", "  ", " \t", "\n ", "\r\n", "   "}
	n := c.PerShard(c.N(100000, 5000000))
	for i := 0; i < n; i++ {
		k := 1 + r.Intn(4)
		var a, b []byte
		if r.Intn(2) == 0 {
			a = append(a, ws[r.Intn(len(ws))]...)
		}
		if r.Intn(2) == 0 {
			b = append(b, ws[r.Intn(len(ws))]...)
		}
		for j := 0; j < k; j++ {
			w := words[r.Intn(len(words))]
			if j > 0 {
				a = append(a, ws[r.Intn(len(ws))]...)
				b = append(b, ws[r.Intn(len(ws))]...)
			}
			a = append(a, w...)
			// case variant of w: replace each rune by a random member of its orbit
			for _, ru := range w {
				o := ru
				for s := r.Intn(3); s > 0; s-- {
					o = unicode.SimpleFold(o)
				}
				b = utf8.AppendRune(b, o)
			}
		}
		if r.Intn(2) == 0 {
			a = append(a, ws[r.Intn(len(ws))]...)
		}
		na, nb := util.ToLinkReference(a), util.ToLinkReference(b)
		c.Eval()
		c.Count("law_ToLinkReference", 1)
		c.Count("label_pairs", 1)
		if na != nb {
			c.Violation(&core.Violation{Class: "law-ToLinkReference", Locus: "labels differing only in whitespace/case normalise differently",
				Input: append(append(a, 0), b...), Detail: fmt.Sprintf("%q -> %q but %q -> %q", a, na, b, nb)})
		}
		c.Sig(core.Hash64(a, b))
	}
}

func djb2(b []byte) uint64 {
	var h uint64 = 5381
	for _, c := range b {
		h = (h << 5) + h + uint64(c)
	}
	return h
}

// c19Keys returns n distinct keys that share one of the 64 slots.  Keys 1 and 2 are *twins* of key 0: same length and same
// 64-bit djb2 hash (one byte raised by d, the next lowered by 33*d, beyond the three-byte prefilter), so a filter that
// tells its elements apart by hash alone confuses them; the others only share the slot.
func c19Keys(n int, slot uint64) [][]byte {
	var out [][]byte
	for i := 0; len(out) < n && i < 100000; i++ {
		k := []byte(fmt.Sprintf("key%dMZ", i))
		if djb2(k)%64 != slot {
			continue
		}
		if len(out) == 0 {
			tw := wl.HashTwins(k, func(pos int, c byte) bool { return pos >= 3 && c > ' ' && c < 0x7f && c != ',' })
			if len(tw) < 2 {
				continue
			}
			out = append(out, k, tw[0], tw[1])
			continue
		}
		out = append(out, k)
	}
	if len(out) > n {
		out = out[:n]
	}
	return out
}

type c19FOp struct {
	Kind string `json:"op"` // add / extend / extendString
	F    int    `json:"filter"`
	Keys []int  `json:"keys"`
}

func c19RunFilters(prog []c19FOp, keys [][]byte) string {
	filters := []util.BytesFilter{util.NewBytesFilter()}
	models := []map[string]bool{{}}
	check := func(step int) string {
		for fi, f := range filters {
			for _, k := range keys {
				if g, w := f.Contains(k), models[fi][string(k)]; g != w {
					return fmt.Sprintf("after step %d: filter#%d.Contains(%q) = %v, set model %v", step, fi, k, g, w)
				}
			}
			if f.Contains([]byte("never-added")) {
				return fmt.Sprintf("after step %d: filter#%d contains a key that was never added", step, fi)
			}
		}
		return ""
	}
	for si, op := range prog {
		if op.F >= len(filters) {
			continue
		}
		switch op.Kind {
		case "add":
			for _, ki := range op.Keys {
				filters[op.F].Add(keys[ki])
				models[op.F][string(keys[ki])] = true
			}
		case "extend", "extendString":
			nm := map[string]bool{}
			for k, v := range models[op.F] {
				nm[k] = v
			}
			var ks [][]byte
			var names []string
			for _, ki := range op.Keys {
				ks = append(ks, keys[ki])
				names = append(names, string(keys[ki]))
				nm[string(keys[ki])] = true
			}
			var nf util.BytesFilter
			if op.Kind == "extend" {
				nf = filters[op.F].Extend(ks...)
			} else {
				nf = filters[op.F].ExtendString(strings.Join(names, ","))
			}
			filters = append(filters, nf)
			models = append(models, nm)
		}
		if d := check(si); d != "" {
			return d
		}
	}
	return ""
}

func c19Filters(c *core.Ctx) {
	keys := c19Keys(5, 7)
	if len(keys) < 5 {
		c.Note("could not compute colliding keys")
		return
	}
	// operations: add(f,k), extend(f,k), extendString(f,k) for filters 0..2 and keys 0..4
	var ops []c19FOp
	for f := 0; f < 3; f++ {
		for k := 0; k < 5; k++ {
			ops = append(ops, c19FOp{"add", f, []int{k}}, c19FOp{"extend", f, []int{k}}, c19FOp{"extendString", f, []int{k}})
		}
		ops = append(ops, c19FOp{"extend", f, nil}, c19FOp{"extendString", f, []int{0, 1}})
	}
	L := c.N(4, 5)
	idx := 0
	var rec func(prefix []c19FOp)
	rec = func(prefix []c19FOp) {
		if len(prefix) == L {
			idx++
			if !c.Mine(idx) {
				return
			}
			var d string
			pv, st := core.Try(func() { d = c19RunFilters(prefix, keys) })
			if pv != nil {
				d = fmt.Sprintf("panic: %v\n%s", pv, trimStack(st))
			}
			c.Evals(len(prefix))
			c.Count("law_BytesFilter", 1)
			c.Count("filter_programs", 1)
			c.Sig(core.HashStr(fmt.Sprint(prefix)))
			if d != "" {
				kind := "set-semantics"
				for _, o := range prefix {
					if o.Kind != "add" {
						kind = "extend-independence"
					}
				}
				c.Violation(&core.Violation{Class: "law-BytesFilter", Locus: kind, Script: map[string]any{"program": append([]c19FOp(nil), prefix...)}, Detail: fmt.Sprintf("keys %q (all in slot 7)\nprogram %+v\n=> %s", keys, prefix, d)})
			}
			return
		}
		for _, o := range ops {
			// a filter index must exist when used: filter f exists after f extend ops
			ext := 0
			for _, p := range prefix {
				if p.Kind != "add" {
					ext++
				}
			}
			if o.F > ext {
				continue
			}
			rec(append(prefix, o))
		}
	}
	rec(nil)
	// random longer programs with more keys over several slots
	r := c.Rng
	n := c.PerShard(c.N(20000, 2000000))
	mk := append(append(c19Keys(6, 3), c19Keys(6, 40)...), []byte("class"), []byte("id"), []byte("x"), []byte(""), []byte("ab"))
	for i := 0; i < n; i++ {
		var prog []c19FOp
		nf := 1
		for l := 2 + r.Intn(10); l > 0; l-- {
			kinds := []string{"add", "add", "extend", "extendString"}
			o := c19FOp{Kind: kinds[r.Intn(4)], F: r.Intn(nf)}
			for kk := 1 + r.Intn(3); kk > 0; kk-- {
				ki := r.Intn(len(mk))
				if o.Kind == "extendString" && len(mk[ki]) == 0 {
					continue
				}
				o.Keys = append(o.Keys, ki)
			}
			if o.Kind != "add" {
				nf++
			}
			prog = append(prog, o)
		}
		var d string
		pv, st := core.Try(func() { d = c19RunFilters(prog, mk) })
		if pv != nil {
			d = fmt.Sprintf("panic: %v\n%s", pv, trimStack(st))
		}
		c.Evals(len(prog))
		c.Count("law_BytesFilter", 1)
		if d != "" {
			c.Violation(&core.Violation{Class: "law-BytesFilter", Locus: "random-program", Script: map[string]any{"program": prog}, Detail: fmt.Sprintf("program %+v\n=> %s", prog, d)})
		}
	}
}

func replayC19(c *core.Ctx, v *core.Violation) (bool, string) {
	if v.Input == nil {
		return false, "filter programs: re-run the check with the recorded seed"
	}
	for _, l := range c19Laws {
		if "law-"+l.name == v.Class {
			d := l.f(v.Input)
			return d != "", d
		}
	}
	return false, "re-run the check with the recorded seed"
}

// c19BigFilters: filters that hold many elements. Thousands of *fresh* keys are added one by one to a filter and to the
// children of an Extend chain; after every Add the key must be contained at once, a key that was never added must not be,
// and at every boundary size (both sides of the powers of two and of 100, 1000, 10000) every filter of the chain must agree
// with its set model on every key added so far to any of them. Implementations that switch representation, grow or rehash
// at some element count are exercised on both sides of the switch, with the key that triggers it being new.
func c19BigFilters(c *core.Ctx) {
	r := c.Rng
	runs := c.PerShard(c.N(48, 1600))
	maxKeys := c.N(5000, 70000)
	boundary := map[int]bool{}
	for _, b := range wl.BoundarySizes {
		boundary[b] = true
	}
	for _, b := range []int{511, 512, 513, 514, 1023, 1024, 1025, 1026, 2047, 2048, 2049, 2050, 4095, 4096, 4097, 4098, 8191, 8192, 8193, 16383, 16384, 16385, 32767, 32768, 32769, 65535, 65536, 65537} {
		boundary[b] = true
	}
	for run := 0; run < runs; run++ {
		n := maxKeys
		if run%4 != 0 {
			n = 600 + r.Intn(maxKeys/4)
		}
		style := r.Intn(4)
		mkKey := func(i int) []byte {
			switch style {
			case 0:
				return []byte(fmt.Sprintf("x%d", i))
			case 1:
				return []byte(fmt.Sprintf("data-%x-%c", i*2654435761, 'a'+byte(i%26)))
			case 2:
				b := make([]byte, 1+r.Intn(9))
				for j := range b {
					b[j] = byte(r.Intn(256))
				}
				return append(b, []byte(fmt.Sprint(i))...)
			}
			return []byte(fmt.Sprintf("%d%s", i, strings.Repeat("k", i%7)))
		}
		filters := []util.BytesFilter{util.NewBytesFilter()}
		models := []map[string]bool{{}}
		var all [][]byte
		cur := 0
		var d string
		total := 0
		pv, st := core.Try(func() {
			for i := 0; i < n && d == ""; i++ {
				k := mkKey(i)
				if i > 0 && r.Intn(50) == 0 {
					k = all[r.Intn(len(all))] // now and then a key that is already known
				}
				absent := append([]byte("absent-"), k...)
				if i > 0 && r.Intn(200) == 0 && len(filters) < 6 {
					// continue in a child: the parent keeps its set
					nm := map[string]bool{}
					for kk := range models[cur] {
						nm[kk] = true
					}
					nm[string(k)] = true
					var nf util.BytesFilter
					if r.Intn(2) == 0 || bytes.ContainsAny(k, ",") || len(k) == 0 {
						nf = filters[cur].Extend(k)
					} else {
						nf = filters[cur].ExtendString(string(k))
					}
					filters = append(filters, nf)
					models = append(models, nm)
					cur = len(filters) - 1
				} else {
					filters[cur].Add(k)
					models[cur][string(k)] = true
				}
				all = append(all, k)
				total++
				if !filters[cur].Contains(k) {
					d = fmt.Sprintf("element %d: filter#%d.Contains(%q) = false immediately after it was added (the filter holds %d elements)", i, cur, k, len(models[cur]))
					return
				}
				if !models[cur][string(absent)] && filters[cur].Contains(absent) {
					d = fmt.Sprintf("element %d: filter#%d contains %q, which was never added", i, cur, absent)
					return
				}
				if boundary[len(models[cur])] || i == n-1 {
					for fi, f := range filters {
						for _, kk := range all {
							if g, w := f.Contains(kk), models[fi][string(kk)]; g != w {
								d = fmt.Sprintf("after %d additions (filter#%d of the chain holds %d elements): filter#%d.Contains(%q) = %v, set model %v", i+1, cur, len(models[cur]), fi, kk, g, w)
								return
							}
						}
					}
					c.Count("big_filter_full_membership_sweeps", 1)
				}
			}
		})
		if pv != nil {
			d = fmt.Sprintf("panic: %v\n%s", pv, trimStack(st))
		}
		c.Evals(total)
		c.Count("law_BytesFilter", 1)
		c.Count("big_filter_runs", 1)
		c.Max("big_filter_max_elements", int64(len(models[cur])))
		if d != "" {
			c.Violation(&core.Violation{Class: "law-BytesFilter", Locus: "many-elements", Script: map[string]any{"run": run, "key_style": style, "elements": n}, Detail: d})
		}
	}
}
