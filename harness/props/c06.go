package props

import (
	"bytes"
	"fmt"
	"strings"

	"github.com/yuin/goldmark"
	"github.com/yuin/goldmark/ast"
	"github.com/yuin/goldmark/parser"
	"github.com/yuin/goldmark/text"

	"verif/cfg"
	"verif/core"
	"verif/oracle"
	"verif/wl"
)

// C06 — output is a pure function of configuration and source (histories on shared instances).

func init() {
	register(&Prop{
		ID:    "C06",
		Level: "exploration",
		Rule: "cases = histories: (i) a seed-chosen permutation of 24 configurations is instantiated one after the other and a fixed document set is converted by each as soon as it exists (reference outputs recorded before later configurations are ever built or used); " +
			"(ii) random histories of Convert / Parse / Render(tree_j, k times) on the long-lived instances over documents chosen to carry state (reference definitions, colliding heading ids, footnotes, typographic quotes, tables with escaped pipes, open fences, empty list items), " +
			"each operation compared with the recorded output of a fresh instance, Convert with Parse+Render, every re-render with the first render, and an accessor-level snapshot of the tree before Render with the snapshot after; " +
			"(iii) at the end every configuration converts the fixed set again with the long-lived and with a brand-new instance. " +
			"distinct_nontrivial = distinct (configuration, previous document, document) adjacencies executed on a long-lived instance where the document's AST is non-trivial.",
		Assumptions: []string{
			"the sequential specification is a stateless function, so comparing every operation with f(config, source) is the complete history check (no search needed)",
			"f(config, source) is the output a fresh instance gave when the pair was first met; phase (i)/(iii) additionally pin it to a moment before other configurations existed in the process (different permutation in every worker process)",
			"FencedCodeBlock's private language cache is invisible through accessors and is deliberately not part of the snapshot",
		},
		Run:    runC06,
		Replay: replayC06,
		Floors: func(m *Merged) []string {
			var out []string
			for _, k := range []string{"convert", "parse", "render", "rerender"} {
				if m.Counters["op_"+k] == 0 {
					out = append(out, "operation never executed: "+k)
				}
			}
			if m.Counters["snapshots_compared"] == 0 {
				out = append(out, "no tree snapshot compared")
			}
			if m.Counters["phase3_rechecks"] == 0 {
				out = append(out, "final re-check did not run")
			}
			return out
		},
	})
}

var c06StateDocs = []string{
	"[foo]: /a\n\n[foo]\n", "[foo]: /b \"t\"\n\n[foo] [FOO][]\n", "[foo]\n", "[bar][foo]\n", "[Foo]: <c>\n[foo]: /d\n\n[foo]\n", "[foo]: /a\n",
	"# a\n\n# a\n", "# a\n", "# a-1\n# a\n# a\n", "#\n", "# é\n", "a\n===\n", "a {#x}\n===\n", "# h {#a}\n\n# a\n", "# heading\n\n# !!!\n\n# heading-1\n", "Intro 2\n---\n# Intro\n# Intro\n# Intro\n",
	"x[^1]\n\n[^1]: a\n", "y[^1][^2]\n\n[^2]: b\n[^1]: c\n", "[^1]\n", "z[^a]\n", "[^a]: orphan\n", "one[^a] two[^c] three[^b]\n\n[^a]: 1\n[^b]: 2\n[^c]: 3\n", "r[^1] r[^1]\n\n[^1]: twice\n",
	"\"a\n", "'a\n", "\"a\" 'b'\n", "a\"\n", "it's \"q\n", "'90s\n", "--- ... << >> --\n", "\"'a'\"\n",
	"| a | b |\n|:--|--:|\n| `x\\|y` | z |\n", "| a |\n|:-:|\n| b |\n", "a | b\n- | -\n`\\|` | c\n", "| a | b |\n|:-:|:-:|\n| 1 |\n| 1 | 2 | 3 |\n", "|a|\n|-|\n\n|b|\n|:-|\n",
	"```go\nx", "```\n", "~~~ a b\nx\n~~~\n", "```go\n", "    code", "```a\n```\n```b\nx\n",
	"-\n\n  a\n", "- a\n-\n\n- b\n", "1.\n\n2. x\n", "*\n\n- a\n\n  b\n", "- a\n-\n\n# h\n\n- c\n\n  d\n",
	"a\n---\n", "- Foo\n--\n", "a\n=\nb\n", "Foo\nbar\n---\nbaz\n",
	"- [x] a\n- [ ] b\n", "~~a~~ ~b~\n", "t\n: d\n\n: e\n", "t1\nt2\n: d\n",
	"<!-- a\nb -->\nc\n", "<div>\n\nx\n", "<script>\nx", "<b>x</b> <!-- y -->\n", "<textarea>\n</textarea>\nq\n",
	"あ\nい\n", "a\\ b\n", "foo\n*bar*\n", "a  \nb\\\nc\n",
	"# h {.c #i k=v}\n", "## h {#i}\n## g {#i}\n",
	"*a\n", "**a* b\n", "[a](\n", "![a][b]\n", "[a](u \"t\") ![i](v)\n", "<http://a.b> http://c.d www.e.f g@h.i\n", "[x](/u?q=go&amp;amp;amp;lang=en)\n", "[x](/u?&amp;#38;)\n",
	"> a\nb\n\n> c\n", "1. a\n2. b\n\n   c\n", "***\n", "&amp; &#35; &copy; \\* \\\\\n",
}

type c06Op struct {
	Op  string `json:"op"` // convert | parse | render
	Doc int    `json:"doc"`
	K   int    `json:"times,omitempty"`
}

type c06Ref struct {
	out []byte
	ok  bool
}

type c06State struct {
	c     *core.Ctx
	docs  [][]byte
	refs  map[string]map[int]*c06Ref // config name -> doc index -> fresh output
	long  map[string]goldmark.Markdown
	specs []cfg.Spec
	arena srcArena // the recycled read buffer of "convert-recycled" operations
}

func (s *c06State) ref(spec cfg.Spec, di int) *c06Ref {
	name := spec.Name()
	m := s.refs[name]
	if m == nil {
		m = map[int]*c06Ref{}
		s.refs[name] = m
	}
	if r, ok := m[di]; ok {
		return r
	}
	res := convert(spec.Build(), s.docs[di])
	r := &c06Ref{out: res.Out, ok: res.OK()}
	m[di] = r
	s.c.Eval()
	return r
}

func diffSnippet(a, b []byte) (int, string) {
	i := 0
	for i < len(a) && i < len(b) && a[i] == b[i] {
		i++
	}
	st := i - 30
	if st < 0 {
		st = 0
	}
	ea, eb := i+40, i+40
	if ea > len(a) {
		ea = len(a)
	}
	if eb > len(b) {
		eb = len(b)
	}
	return i, fmt.Sprintf("first difference at byte %d:\n  expected …%q\n  got      …%q", i, a[st:ea], b[st:eb])
}

var c06Payloads = []string{"http://e.com/?a=1&amp;b=2", "http://e.com/a\\*b", "http://e.com/&#35;x", "http://e.com/%20&copy;", "http://e.com/a_b*c~d", "HTTP://E.COM/Ü", "http://e.com/a&b", "mailto:a\\@b.c", "Title--\"x\"...", "a@b.cd"}

var c06Roles = []string{"<@P@>\n", "[x](@P@)\n", "![x](@P@)\n", "[x]\n\n[x]: @P@\n", "[x](/u \"@P@\")\n", "`@P@`\n", "``` @P@\ncode\n```\n", "# @P@\n", "@P@\n===\n",
	"[@P@]\n\n[@P@]: /u\n", "text @P@ text\n", "<a href=\"@P@\">raw</a>\n", "[x](<@P@>)\n", "x[^1]\n\n[^1]: @P@\n", "| @P@ |\n|---|\n| @P@ |\n", "- [ ] @P@\n", "t\n: @P@\n", "*@P@* ~~@P@~~\n", "> @P@\n"}

func c06Locus(spec cfg.Spec, want, got []byte) string {
	i, _ := diffSnippet(want, got)
	// the tag/word context just before the difference, letters only
	st := i - 14
	if st < 0 {
		st = 0
	}
	ctx := want
	if len(got) > len(want) {
		ctx = got
	}
	e := i + 10
	if e > len(ctx) {
		e = len(ctx)
	}
	if st > e {
		st = e
	}
	var b strings.Builder
	for _, ch := range ctx[st:e] {
		if ch >= 'a' && ch <= 'z' || ch >= 'A' && ch <= 'Z' || ch == '<' || ch == '=' || ch == '-' {
			b.WriteByte(ch)
		}
	}
	return extName(spec) + ":" + b.String()
}

func (s *c06State) fail(class string, spec cfg.Spec, hist []c06Op, di int, want, got []byte, extra string) {
	_, snip := diffSnippet(want, got)
	var docs []string
	seen := map[int]bool{}
	var ops []map[string]any
	for _, o := range hist {
		ops = append(ops, map[string]any{"op": o.Op, "doc": o.Doc, "times": o.K})
		if !seen[o.Doc] {
			seen[o.Doc] = true
		}
	}
	docTexts := map[string]string{}
	for d := range seen {
		docTexts[fmt.Sprint(d)] = string(s.docs[d])
	}
	_ = docs
	s.c.Violation(&core.Violation{Class: class, Locus: c06Locus(spec, want, got), Config: spec.Name(), Input: s.docs[di],
		Script: map[string]any{"history": ops, "docs": docTexts},
		Detail: fmt.Sprintf("%s\nhistory of %d operation(s) on one %s instance, failing document %q\n%s", extra, len(hist), spec.Name(), s.docs[di], snip)})
}

// runHistory executes ops on the long-lived instance of spec.
func (s *c06State) runHistory(spec cfg.Spec, md goldmark.Markdown, ops []c06Op) {
	c := s.c
	type kept struct {
		doc   ast.Node
		di    int
		first []byte
	}
	var trees []kept
	prevDoc := -1
	for i, o := range ops {
		src := s.docs[o.Doc]
		ref := s.ref(spec, o.Doc)
		if !ref.ok {
			c.Count("reference_conversion_failed_left_to_C01", 1)
			continue
		}
		hist := ops[:i+1]
		switch o.Op {
		case "convert", "convert-recycled":
			if o.Op == "convert-recycled" {
				// the caller reads every document into the same buffer: the bytes of the previous document are gone
				src = s.arena.load(src)
				c.Count("op_convert_from_recycled_buffer", 1)
			}
			c.Begin(spec.Name(), src)
			res := convert(md, src)
			c.End()
			c.Eval()
			c.Count("op_convert", 1)
			if !res.OK() {
				c.Count("conversion_failed_left_to_C01", 1)
				continue
			}
			if !bytes.Equal(res.Out, ref.out) {
				s.fail("history-dependent-output", spec, hist, o.Doc, ref.out, res.Out, "Convert on a used instance differs from a fresh instance of the same configuration")
			}
		case "convert-with-context":
			// Parse with a context of the caller's (parser.WithContext, a new one each time) and Render: the same bytes as a plain
			// Convert, and nothing of that context may stay behind in the parser
			c.Begin(spec.Name(), src)
			var out bytes.Buffer
			var err error
			pv, _ := core.Try(func() {
				doc := md.Parser().Parse(text.NewReader(src), parser.WithContext(parser.NewContext()))
				err = md.Renderer().Render(&out, src, doc)
			})
			c.End()
			c.Eval()
			c.Count("op_convert_with_context", 1)
			if pv != nil || err != nil {
				continue
			}
			if !bytes.Equal(out.Bytes(), ref.out) {
				s.fail("history-dependent-output", spec, hist, o.Doc, ref.out, out.Bytes(), "Parse with a fresh caller-supplied context + Render on a used instance differs from Convert on a fresh instance")
			}
		case "parse":
			c.Begin(spec.Name(), src)
			var doc ast.Node
			pv, _ := core.Try(func() { doc = md.Parser().Parse(text.NewReader(src)) })
			c.End()
			c.Eval()
			c.Count("op_parse", 1)
			if pv != nil || doc == nil {
				continue
			}
			trees = append(trees, kept{doc: doc, di: o.Doc})
			if sh := oracle.ShapeOf(doc); sh.NonTrivial {
				c.Sig(core.HashStr(spec.Name(), fmt.Sprint(prevDoc), fmt.Sprint(o.Doc)))
			}
		case "render":
			if len(trees) == 0 {
				continue
			}
			t := &trees[o.Doc%len(trees)]
			tsrc := s.docs[t.di]
			tref := s.ref(spec, t.di)
			if !tref.ok {
				continue
			}
			for k := 0; k < 1+o.K; k++ {
				before := oracle.Snapshot(t.doc)
				var buf bytes.Buffer
				var err error
				pv, _ := core.Try(func() { err = md.Renderer().Render(&buf, tsrc, t.doc) })
				c.Eval()
				if pv != nil || err != nil {
					c.Count("conversion_failed_left_to_C01", 1)
					break
				}
				after := oracle.Snapshot(t.doc)
				c.Count("snapshots_compared", 1)
				if before != after {
					_, snip := diffSnippet([]byte(before), []byte(after))
					s.c.Violation(&core.Violation{Class: "render-mutates-tree", Locus: c06Locus(spec, []byte(before), []byte(after)), Config: spec.Name(), Input: tsrc,
						Detail: fmt.Sprintf("accessor-level snapshot of the tree changed during Render (render #%d of this tree)\n%s", k+1, snip)})
				}
				if t.first == nil {
					c.Count("op_render", 1)
					t.first = append([]byte{}, buf.Bytes()...)
					if !bytes.Equal(t.first, tref.out) {
						s.fail("convert-vs-parse-render", spec, hist, t.di, tref.out, t.first, "Parse followed by Render differs from Convert of a fresh instance")
					}
				} else {
					c.Count("op_rerender", 1)
					if !bytes.Equal(buf.Bytes(), t.first) {
						s.fail("rerender-differs", spec, hist, t.di, t.first, buf.Bytes(), fmt.Sprintf("render #%d of the same tree differs from the first render", k+2))
					}
				}
			}
		}
		if o.Op != "render" {
			prevDoc = o.Doc
		}
	}
}

func c06Specs() []cfg.Spec {
	var out []cfg.Spec
	for e := 0; e < cfg.NExt; e++ {
		out = append(out, cfg.Spec{Ext: e}, cfg.Spec{Ext: e, AutoHeadingID: true, Attribute: true})
	}
	out = append(out, cfg.Spec{Ext: cfg.ExtAll, Unsafe: true, XHTML: true}, cfg.Spec{Ext: cfg.ExtGFM, HardWraps: true}, cfg.Spec{Ext: cfg.ExtFootnote, XHTML: true},
		cfg.Spec{Ext: cfg.ExtTypographer, Unsafe: true}, cfg.Spec{Ext: cfg.ExtAll, AutoHeadingID: true}, cfg.Spec{Ext: cfg.ExtCore, Attribute: true})
	// extensions built with options, and options that arrive by two routes (constructor and renderer option): "the same
	// configuration" must mean the same bytes for every instance built from it
	out = append(out, cfg.Spec{Ext: cfg.ExtAll, Rich: true}, cfg.Spec{Ext: cfg.ExtAll, Rich: true, Rich2: true, XHTML: true},
		cfg.Spec{Ext: cfg.ExtFootnote, Rich: true, Rich3: true}, cfg.Spec{Ext: cfg.ExtAll, Rich: true, Rich3: true, AutoHeadingID: true})
	return out
}

func runC06(c *core.Ctx) {
	r := c.Rng
	corpus := loadCorpus(c)
	s := &c06State{c: c, refs: map[string]map[int]*c06Ref{}, long: map[string]goldmark.Markdown{}, specs: c06Specs()}
	for _, d := range c06StateDocs {
		s.docs = append(s.docs, []byte(d))
	}
	// role matrix: the same payload string in every syntactic role (autolink, destination, title, code, info string, label,
	// heading, plain text ...), one document per (payload, role): anything remembered by content but not by role shows
	// when two of these meet on one instance
	for _, p := range c06Payloads {
		for _, role := range c06Roles {
			s.docs = append(s.docs, []byte(strings.ReplaceAll(role, "@P@", p)))
		}
	}
	c.Count("role_matrix_documents", int64(len(c06Payloads)*len(c06Roles)))
	// the table of named character references is process-wide state: one document that uses every name (in text and in a
	// destination) is converted when an instance is new (phase i) and again at the end (phase iii); in between, documents put
	// a reference at the very start, in the middle and at the end of destinations, titles and text, followed by more bytes -
	// whatever they do to the table shows when the sweep document is converted again
	var sweep strings.Builder
	for i, n := range wl.EntityNames {
		sweep.WriteString("&" + n + " ")
		if i%12 == 11 {
			sweep.WriteString("\n")
		}
	}
	s.docs = append(s.docs, []byte(sweep.String()))
	for i := 0; i < len(wl.EntityNames); i += 7 {
		e := "&" + wl.EntityNames[i]
		s.docs = append(s.docs, []byte("[q]("+e+"b=1) [r](/p"+e+") ![s]("+e+") [t](/u \""+e+"tail\")\n\n"+e+"xyz `"+e+"` <http://a.b/"+e+"c>\n\n[u]: "+e+"rest '"+e+"'\n\n[u]\n"))
	}
	c.Count("entity_table_documents", int64(1+(len(wl.EntityNames)+6)/7))
	// twins of every length: for each length L (1..70 and the boundary sizes beyond) two payloads that agree in all but their
	// last byte, in the roles whose value an instance might remember (destination, title, reference, heading, info string).
	// The phases below convert them one after the other on the same long-lived instance; anything remembered under a key
	// that loses a byte at some exact length confuses the twins of that length.
	var lens []int
	for l := 1; l <= 70; l++ {
		lens = append(lens, l)
	}
	for _, l := range wl.BoundarySizes {
		if l > 70 && l <= 1025 {
			lens = append(lens, l)
		}
	}
	twinRoles := []string{"[x](@P@)\n", "![x](</@P@>)\n", "[x](/u \"@P@\")\n", "[x][r]\n\n[r]: @P@ '@P@'\n", "# @P@\n", "``` @P@\ncode\n```\n"}
	ntw := 0
	for _, l := range lens {
		for ri, role := range twinRoles {
			if l > 70 && ri > 2 {
				continue
			}
			for _, last := range []string{"1", "2"} {
				s.docs = append(s.docs, []byte(strings.ReplaceAll(role, "@P@", strings.Repeat("u", l-1)+last)))
				ntw++
			}
		}
	}
	c.Count("twin_payload_documents", int64(ntw))
	nfixed := len(s.docs)
	// corpus documents chosen by the run seed (same in every worker), then worker-specific soup
	cr := newRand(core.SeedFor(c.Seed, "C06-docs", 0))
	for i := 0; i < 120 && len(corpus) > 0; i++ {
		s.docs = append(s.docs, []byte(corpus[cr.Intn(len(corpus))].Markdown))
	}
	nphase := len(s.docs)
	for i := 0; i < c.N(150, 3000); i++ {
		s.docs = append(s.docs, mixDoc(r, corpus))
	}

	// phase (i): configurations come into existence one by one, in a worker-specific order
	perm := r.Perm(len(s.specs))
	var order []string
	for _, pi := range perm {
		spec := s.specs[pi]
		md := spec.Build()
		s.long[spec.Name()] = md
		order = append(order, spec.Name())
		m := map[int]*c06Ref{}
		s.refs[spec.Name()] = m
		for di := 0; di < nphase; di++ {
			// the reference comes from an instance that has never converted anything else; the long-lived instance
			// converts the same document right away and must already agree
			c.Begin(spec.Name(), s.docs[di])
			ref := convert(spec.Build(), s.docs[di])
			res := convert(md, s.docs[di])
			c.End()
			c.Evals(2)
			m[di] = &c06Ref{out: ref.Out, ok: ref.OK()}
			if ref.OK() && res.OK() && !bytes.Equal(ref.Out, res.Out) {
				s.fail("history-dependent-output", spec, []c06Op{{Op: "convert", Doc: di}}, di, ref.Out, res.Out,
					fmt.Sprintf("the long-lived instance had converted documents 0..%d of the fixed set before; a fresh instance produces something else", di-1))
			}
		}
		c.Count("phase1_reference_outputs", int64(nphase))
	}
	if c.WantSample() {
		c.Sample(map[string]any{"kind": "instantiation order of this worker", "order": order[:6]})
	}

	// phase (ii): random histories
	nh := c.PerShard(c.N(16000, 1600000))
	for h := 0; h < nh; h++ {
		spec := s.specs[r.Intn(len(s.specs))]
		md := s.long[spec.Name()]
		n := 2 + r.Intn(29)
		ops := make([]c06Op, n)
		for i := range ops {
			di := r.Intn(len(s.docs))
			if r.Intn(3) > 0 {
				di = r.Intn(nfixed)
			}
			switch r.Intn(7) {
			case 0, 1:
				ops[i] = c06Op{Op: "convert", Doc: di}
			case 2:
				ops[i] = c06Op{Op: "convert-recycled", Doc: di}
			case 3:
				ops[i] = c06Op{Op: "parse", Doc: di}
			case 6:
				ops[i] = c06Op{Op: "convert-with-context", Doc: di}
			default:
				ops[i] = c06Op{Op: "render", Doc: r.Intn(8), K: r.Intn(3)}
			}
		}
		s.runHistory(spec, md, ops)
		c.Count("histories", 1)
		if c.WantSample() && h%700 == 5 {
			c.Sample(map[string]any{"kind": "history", "config": spec.Name(), "ops": ops[:min(len(ops), 8)], "first_doc": string(s.docs[ops[0].Doc])})
		}
	}

	// phase (iii): everything again, long-lived and brand-new instances, against the outputs recorded in phase (i)
	for _, spec := range s.specs {
		fresh := spec.Build()
		for di := 0; di < nphase; di++ {
			ref := s.refs[spec.Name()][di]
			if !ref.ok {
				continue
			}
			for which, md := range []goldmark.Markdown{s.long[spec.Name()], fresh} {
				res := convert(md, s.docs[di])
				c.Eval()
				c.Count("phase3_rechecks", 1)
				if !res.OK() {
					continue
				}
				if !bytes.Equal(res.Out, ref.out) {
					class := "history-dependent-output"
					extra := "the long-lived instance no longer produces what it produced when it was new"
					if which == 1 {
						class = "cross-instance-leak"
						extra = "a brand-new instance of this configuration produces something else than a new instance did before other configurations were built and used in this process (instantiation order: " + strings.Join(order, " | ") + ")"
					}
					s.fail(class, spec, []c06Op{{Op: "convert", Doc: di}}, di, ref.out, res.Out, extra)
				}
			}
		}
	}

	// phase (iv): isolation between configurations on content nobody has seen before.  A document carrying a fresh
	// nonce (so that nothing keyed by content can know it yet) is converted by configuration A, then by another
	// configuration B, then by A again and by a brand-new A: what B did with the same bytes in between must not show.
	// (Phases i-iii cannot see a process-wide memo keyed by content: once any configuration has converted a document,
	// every later "reference" for that document is already taken from the polluted process.)
	nonce := 1000000000 + (int(c.Seed)%400)*1000003 + c.Shard*15485863 // ten digits throughout
	nq := c.PerShard(c.N(24000, 1200000))
	for q := 0; q < nq; q++ {
		nonce += 2
		a := s.specs[r.Intn(len(s.specs))]
		b := s.specs[r.Intn(len(s.specs))]
		if q%3 == 0 {
			// the twin that differs in one renderer flag only
			b = a
			switch r.Intn(3) {
			case 0:
				b.Unsafe = !b.Unsafe
			case 1:
				b.XHTML = !b.XHTML
			default:
				b.HardWraps = !b.HardWraps
			}
		}
		if a.Name() == b.Name() {
			continue
		}
		pl := c06NoncePayloads[r.Intn(len(c06NoncePayloads))]
		role := c06Roles[r.Intn(len(c06Roles))]
		tmpl := strings.ReplaceAll(role, "@P@", pl)
		if r.Intn(3) == 0 {
			tmpl += strings.ReplaceAll(c06Roles[r.Intn(len(c06Roles))], "@P@", pl)
		}
		doc := []byte(strings.ReplaceAll(tmpl, "@N@", fmt.Sprint(nonce)))
		// the same document with another nonce, which no configuration converts before B does
		sibling := []byte(strings.ReplaceAll(tmpl, "@N@", fmt.Sprint(nonce+1)))
		get := func(sp cfg.Spec) goldmark.Markdown {
			md := s.long[sp.Name()]
			if md == nil {
				md = sp.Build()
				s.long[sp.Name()] = md
			}
			return md
		}
		c.Begin(a.Name(), doc)
		first := convert(get(a), doc)
		other := convert(get(b), doc)
		again := convert(get(a), doc)
		fresh := convert(a.Build(), doc)
		alone := convert(get(b), sibling)
		c.End()
		c.Evals(5)
		c.Count("phase4_isolation_triples", 1)
		if !first.OK() || !other.OK() || !again.OK() || !fresh.OK() || !alone.OK() {
			continue
		}
		// B after A on nonce n against B alone on nonce n+1: equal up to the nonce itself
		if x, y := bytes.ReplaceAll(other.Out, []byte(fmt.Sprint(nonce)), []byte("N")), bytes.ReplaceAll(alone.Out, []byte(fmt.Sprint(nonce+1)), []byte("N")); !bytes.Equal(x, y) {
			class, locus := "cross-configuration-interference", extName(b)+"<-"+extName(a)+":"+c06FlagDiff(a, b)+":second"
			detail := fmt.Sprintf("document %q\n1. %s converts it\n2. %s converts the same bytes: %q\n3. %s converts the same document with another nonce, which nobody has converted: %q", doc, a.Name(), b.Name(), other.Out, b.Name(), alone.Out)
			if c.Seen(class, locus) {
				c.Violation(&core.Violation{Class: class, Locus: locus, Config: b.Name(), Input: doc})
			} else {
				c.Violation(&core.Violation{Class: class, Locus: locus, Config: b.Name(), Input: doc, Detail: detail,
					Script: map[string]any{"isolation": true, "other": a.Name(), "second": true}})
			}
			continue
		}
		for wi, res := range []convResult{again, fresh} {
			if !bytes.Equal(first.Out, res.Out) {
				who := "the same long-lived instance"
				if wi == 1 {
					who = "a brand-new instance of the same configuration"
				}
				class, locus := "cross-configuration-interference", extName(a)+"<-"+extName(b)+":"+c06FlagDiff(a, b)
				detail := fmt.Sprintf("document %q\n1. %s converts it: %q\n2. %s converts the same bytes\n3. %s converts it again: %q", doc, a.Name(), first.Out, b.Name(), who, res.Out)
				if c.Seen(class, locus) {
					c.Violation(&core.Violation{Class: class, Locus: locus, Config: a.Name(), Input: doc})
				} else {
					c.Violation(&core.Violation{Class: class, Locus: locus, Config: a.Name(), Input: doc, Detail: detail,
						Script: map[string]any{"isolation": true, "other": b.Name()}})
				}
				break
			}
		}
	}
}

// c06NoncePayloads carry "@N@", replaced by a number no earlier document of the process contains.
var c06NoncePayloads = []string{"javascript:alert(@N@)", "JAVASCRIPT&colon;x@N@", "data:text/html,@N@", "http://e.com/@N@?a=1&amp;b=2", "http://e.com/@N@\\*b", "http://e.com/&#35;@N@",
	"vbscript:@N@", "file:///etc/@N@", "http://e.com/a b@N@", "t@N@ \"q\" -- ...", "a@N@@b.cd", "&amp;@N@ <b>@N@</b>"}

func c06FlagDiff(a, b cfg.Spec) string {
	var d []string
	if a.Unsafe != b.Unsafe {
		d = append(d, "unsafe")
	}
	if a.XHTML != b.XHTML {
		d = append(d, "xhtml")
	}
	if a.HardWraps != b.HardWraps {
		d = append(d, "hardwraps")
	}
	if a.AutoHeadingID != b.AutoHeadingID || a.Attribute != b.Attribute {
		d = append(d, "parser-options")
	}
	return strings.Join(d, "+")
}

func replayC06(c *core.Ctx, v *core.Violation) (bool, string) {
	// single-instance replays: re-run the recorded history on a new instance and compare each op with another new instance
	spec := specOf(v.Config)
	sc, ok := v.Script.(map[string]any)
	if iso, _ := sc["isolation"].(bool); ok && iso {
		on, _ := sc["other"].(string)
		if sec, _ := sc["second"].(bool); sec {
			// v.Config is the configuration that converted second
			alone := convert(spec.Build(), v.Input)
			_ = convert(specOf(on).Build(), v.Input)
			after := convert(spec.Build(), v.Input)
			if alone.OK() && after.OK() && !bytes.Equal(alone.Out, after.Out) {
				return true, "a new " + v.Config + " instance converts the document differently once " + on + " has converted the same bytes"
			}
			return false, "no interference in this order in a fresh process (the payload may already be known to the process: re-run the check with the recorded seed)"
		}
		a, b := spec.Build(), specOf(on).Build()
		first := convert(a, v.Input)
		_ = convert(b, v.Input)
		again := convert(a, v.Input)
		fresh := convert(spec.Build(), v.Input)
		if first.OK() && again.OK() && fresh.OK() && (!bytes.Equal(first.Out, again.Out) || !bytes.Equal(first.Out, fresh.Out)) {
			return true, "converting the same bytes with " + on + " in between changes what " + v.Config + " produces"
		}
		return false, "no interference (a process-wide memo keyed by content needs a payload the process has not seen: re-run the check with the recorded seed)"
	}
	if !ok {
		// render-mutates-tree: parse and render twice
		md := spec.Build()
		doc := md.Parser().Parse(text.NewReader(v.Input))
		var b1, b2 bytes.Buffer
		before := oracle.Snapshot(doc)
		_ = md.Renderer().Render(&b1, v.Input, doc)
		after := oracle.Snapshot(doc)
		_ = md.Renderer().Render(&b2, v.Input, doc)
		if before != after {
			return true, "tree snapshot changed during Render"
		}
		if !bytes.Equal(b1.Bytes(), b2.Bytes()) {
			return true, "second render differs"
		}
		return false, "tree unchanged, renders equal"
	}
	docs := map[int][]byte{}
	if dm, ok := sc["docs"].(map[string]any); ok {
		for k, val := range dm {
			var i int
			fmt.Sscan(k, &i)
			docs[i] = []byte(val.(string))
		}
	}
	s := &c06State{c: c, refs: map[string]map[int]*c06Ref{}}
	max := 0
	for i := range docs {
		if i > max {
			max = i
		}
	}
	s.docs = make([][]byte, max+1)
	for i, d := range docs {
		s.docs[i] = d
	}
	var ops []c06Op
	if hs, ok := sc["history"].([]any); ok {
		for _, h := range hs {
			m := h.(map[string]any)
			o := c06Op{Op: m["op"].(string), Doc: int(m["doc"].(float64))}
			if t, ok := m["times"].(float64); ok {
				o.K = int(t)
			}
			if o.Op != "render" && s.docs[o.Doc] == nil {
				continue
			}
			ops = append(ops, o)
		}
	}
	s.runHistory(spec, spec.Build(), ops)
	sum := c.Finish()
	if len(sum.Violations) > 0 {
		return true, sum.Violations[0].Class + ": " + sum.Violations[0].Detail
	}
	return false, "history replayed without difference (cross-instance leaks need the full check)"
}
