package props

import (
	"bytes"
	"fmt"
	"strings"

	"github.com/yuin/goldmark"
	"github.com/yuin/goldmark/ast"

	"verif/cfg"
	"verif/core"
	"verif/oracle"
	"verif/sg"
	"verif/wl"
)

// C08 — prefixing every line with "> " wraps the same content in a block quote.

func init() {
	register(&Prop{
		ID:    "C08",
		Level: "exploration",
		Rule: "cases = (configuration, document D, nesting n): D is non-blank and free of TAB/CR; the monitor converts D and prefix^n(D) ('> ' put before every line, blank and unterminated last lines included) with the same long-lived instance " +
			"and requires Convert(prefix^n(D)) == ('<blockquote>\\n')^n + Convert(D) + ('</blockquote>\\n')^n byte for byte; for TAB/CR-free spec examples the right-hand side is built from spec.json's HTML instead of goldmark's output. " +
			"Sources: exhaustive short strings, token soup, corpus items and mutants with TAB/CR removed, block-biased multi-line soup; configurations {core, GFM} x {safe, unsafe, unsafe+XHTML}, n in 1..4. " +
			"Non-trivial = D's tree has a node other than Document/Paragraph/Text; distinct = distinct (AST shape signature of D, extension set).",
		Assumptions: []string{
			"the relation is CommonMark 5.1 (basic case of block quotes) applied to whole documents; TAB and CR are excluded exactly as the statement does",
			"lines are split at LF only; a document is non-blank when it has a byte other than space and LF",
			"a panic or error during conversion is counted and left to C01",
		},
		Run:    runC08,
		Replay: replayC08,
		Floors: func(m *Merged) []string {
			var out []string
			need := []string{"Paragraph", "Heading", "ThematicBreak", "CodeBlock", "FencedCodeBlock", "Blockquote", "List", "ListItem", "HTMLBlock", "Table", "TextBlock",
				"html-type-1", "html-type-2", "html-type-3", "html-type-4", "html-type-5", "html-type-6", "html-type-7"}
			var missing []string
			for _, k := range need {
				if m.Sets["blocks_inside_quote"][k] == 0 {
					missing = append(missing, k)
				}
			}
			if len(missing) > 0 {
				out = append(out, "block kinds never seen inside the quote: "+strings.Join(missing, ","))
			}
			if m.Counters["spec_examples_checked"] < 400 {
				out = append(out, fmt.Sprintf("only %d spec examples checked against spec.json", m.Counters["spec_examples_checked"]))
			}
			if len(m.Sets["configs"]) < 6 {
				out = append(out, fmt.Sprintf("only %d configurations exercised", len(m.Sets["configs"])))
			}
			return out
		},
		Exhaustive: func(tier string) string {
			if tier == "thorough" {
				return "all non-blank strings of length<=5 over a 17-unit TAB-free alphabet x 6 configurations x n=1; all TAB/CR-free spec examples x n in 1..4; everything else sampled"
			}
			return "all non-blank strings of length<=4 over a 13-unit TAB-free alphabet x 2 configurations (rotating) x n=1; all TAB/CR-free spec examples x n in 1..2; everything else sampled"
		},
	})
}

func c08Specs() []cfg.Spec {
	var out []cfg.Spec
	for _, e := range []int{cfg.ExtCore, cfg.ExtGFM} {
		out = append(out, cfg.Spec{Ext: e}, cfg.Spec{Ext: e, Unsafe: true}, cfg.Spec{Ext: e, Unsafe: true, XHTML: true})
	}
	return out
}

// c08Eligible: non-blank, no TAB, no CR.
func c08Eligible(d []byte) bool {
	if bytes.IndexByte(d, '\t') >= 0 || bytes.IndexByte(d, '\r') >= 0 {
		return false
	}
	for _, ch := range d {
		if ch != ' ' && ch != '\n' {
			return true
		}
	}
	return false
}

// c08Sanitize makes a document eligible by substitution (keeps the structure of the rest).
func c08Sanitize(d []byte) []byte {
	if bytes.IndexByte(d, '\t') < 0 && bytes.IndexByte(d, '\r') < 0 {
		return d
	}
	out := make([]byte, 0, len(d)+8)
	for i := 0; i < len(d); i++ {
		switch d[i] {
		case '\t':
			out = append(out, ' ', ' ', ' ', ' ')
		case '\r':
			if i+1 < len(d) && d[i+1] == '\n' {
				continue
			}
			out = append(out, '\n')
		default:
			out = append(out, d[i])
		}
	}
	return out
}

func c08Prefix(d []byte, n int) []byte {
	for i := 0; i < n; i++ {
		d = wl.PrefixLines(d, "> ")
	}
	return d
}

func c08Wrap(inner []byte, n int) []byte {
	var b bytes.Buffer
	for i := 0; i < n; i++ {
		b.WriteString("<blockquote>\n")
	}
	b.Write(inner)
	for i := 0; i < n; i++ {
		b.WriteString("</blockquote>\n")
	}
	return b.Bytes()
}

// firstDiff describes where two outputs diverge.
func firstDiff(got, want []byte) string {
	i := 0
	for i < len(got) && i < len(want) && got[i] == want[i] {
		i++
	}
	s := i - 40
	if s < 0 {
		s = 0
	}
	eg, ew := i+60, i+60
	if eg > len(got) {
		eg = len(got)
	}
	if ew > len(want) {
		ew = len(want)
	}
	return fmt.Sprintf("first difference at byte %d\n got: …%q\nwant: …%q", i, got[s:eg], want[s:ew])
}

// c08Locus names the innermost block of D that covers the first line whose rendering differs — computed from D's tree.
func c08Locus(doc ast.Node, got, want []byte) string {
	// the block kind that is open in 'want' at the divergence point, from the tag stack of the expected output
	i := 0
	for i < len(got) && i < len(want) && got[i] == want[i] {
		i++
	}
	var stack []string
	w := string(want)
	for p := 0; p < i && p < len(w); p++ {
		if w[p] != '<' {
			continue
		}
		e := strings.IndexAny(w[p:], "> \n")
		if e < 0 {
			break
		}
		name := w[p+1 : p+e]
		if strings.HasPrefix(name, "/") {
			if len(stack) > 0 {
				stack = stack[:len(stack)-1]
			}
		} else if name != "" && name != "br" && name != "hr" && name != "img" && name != "input" && !strings.HasPrefix(name, "!") && !strings.HasPrefix(name, "?") {
			if oracle.Elements[name] {
				stack = append(stack, name)
			}
		}
	}
	in := "top"
	if len(stack) > 0 {
		in = stack[len(stack)-1]
	}
	return "diverges-inside:" + in
}

type c08Case struct {
	spec cfg.Spec
	d    []byte
	n    int
	want []byte // nil: use goldmark's rendering of D
}

// c08Eval returns ("", "", "") when the relation holds; evaluable=false when a conversion failed.
func c08Eval(md goldmark.Markdown, cs *c08Case) (class, locus, detail string, doc ast.Node, evaluable bool) {
	inner := cs.want
	base := parseRender(md, cs.d)
	if !base.OK() {
		return "", "", "", nil, false
	}
	class = "quote-prefix-not-homomorphic"
	if inner == nil {
		inner = base.Out
	} else {
		class = "quote-prefix-differs-from-spec"
	}
	pd := c08Prefix(cs.d, cs.n)
	got := convert(md, pd)
	if !got.OK() {
		return "", "", "", base.Doc, false
	}
	want := c08Wrap(inner, cs.n)
	if bytes.Equal(got.Out, want) {
		return "", "", "", base.Doc, true
	}
	return class, c08Locus(base.Doc, got.Out, want), fmt.Sprintf("n=%d prefixed source %s\n%s", cs.n, q(pd), firstDiff(got.Out, want)), base.Doc, true
}

func c08Check(c *core.Ctx, pool *cfg.Pool, cs *c08Case) {
	name := cs.spec.Name()
	md := pool.Get(cs.spec)
	c.Begin(name, cs.d)
	class, locus, detail, doc, ok := c08Eval(md, cs)
	c.End()
	c.Evals(2)
	c.Observe("configs", name)
	c.Observe("nesting", fmt.Sprint(cs.n))
	if !ok {
		c.Count("conversion_failed_left_to_C01", 1)
		return
	}
	c.Count("pairs", 1)
	if doc != nil {
		sh := observeShape(c, doc, extName(cs.spec))
		for k := range sh.Kinds {
			if k.String() != "Document" {
				c.Observe("blocks_inside_quote", k.String())
			}
		}
		for ch := doc.FirstChild(); ch != nil; ch = ch.NextSibling() {
			if hb, ok := ch.(*ast.HTMLBlock); ok {
				c.Observe("blocks_inside_quote", fmt.Sprintf("html-type-%d", int(hb.HTMLBlockType)))
			}
		}
	}
	if class == "" {
		return
	}
	if c.Seen(class, locus) {
		c.Violation(&core.Violation{Class: class, Locus: locus, Config: name, Input: cs.d})
		return
	}
	if cs.want == nil {
		spec, n := cs.spec, cs.n
		fresh := spec.Build()
		min := core.Minimize(cs.d, func(b []byte) bool {
			if !c08Eligible(b) {
				return false
			}
			cl, lo, _, _, ok := c08Eval(fresh, &c08Case{spec: spec, d: b, n: n})
			return ok && cl == class && lo == locus
		}, 1500)
		_, _, d2, _, _ := c08Eval(fresh, &c08Case{spec: spec, d: min, n: n})
		if d2 != "" {
			detail = d2
		}
		c.Violation(&core.Violation{Class: class, Locus: locus, Config: name, Input: min, Detail: detail, Script: map[string]any{"n": n}})
		return
	}
	c.Violation(&core.Violation{Class: class, Locus: locus, Config: name, Input: cs.d, Detail: detail, Script: map[string]any{"n": cs.n, "want_inner": string(cs.want)}})
}

func replayC08(c *core.Ctx, v *core.Violation) (bool, string) {
	n := 1
	var want []byte
	if m, ok := v.Script.(map[string]any); ok {
		if f, ok := m["n"].(float64); ok && f >= 1 {
			n = int(f)
		}
		if s, ok := m["want_inner"].(string); ok {
			want = []byte(s)
		}
	}
	spec := specOf(v.Config)
	cl, lo, d, _, ok := c08Eval(spec.Build(), &c08Case{spec: spec, d: v.Input, n: n, want: want})
	if !ok {
		return false, "conversion failed (C01)"
	}
	return cl != "", cl + " " + lo + " " + d
}

var c08Alpha13 = []string{"a", " ", "\n", "*", "_", "`", "[", "]", "<", ">", "#", "-", "1."}
var c08Alpha17 = []string{"a", " ", "\n", "*", "_", "`", "[", "]", "(", ")", "<", ">", "#", "-", "1.", "!", "\\"}

// block-biased vocabulary: whole lines, so that multi-line blocks (HTML blocks, fences, lists, tables) appear inside the quote
var c08Lines = []string{
	"a\n", "b c\n", "\n", "\n", "  \n", "# h\n", "## h ##\n", "===\n", "---\n", "***\n", "- a\n", "- \n", "-\n", "+ b\n", "* c\n", "1. a\n", "2) b\n", "10. c\n", "  - n\n", "    - n\n", "   c\n", "    code\n", "     code\n",
	"```\n", "````\n", "~~~\n", "``` go\n", "  ```\n", "> q\n", ">\n", "> > q\n", ">q\n", " > q\n", "> - a\n", "- > a\n", "> ```\n", "> # h\n",
	"<script>\n", "</script>\n", "<script>x</script>\n", "<pre>\n", "</pre>\n", "<style>\n", "</style> z\n", "<textarea>\n", "</textarea>\n",
	"<!--\n", "-->\n", "<!-- a\n", "b -->\n", "<!-- c -->\n", "--> okay\n", "<?php\n", "?>\n", "<? a ?>\n", "x ?> y\n", "<!DOCTYPE html\n", "<!X\n", ">\n", "y > z\n", "<![CDATA[\n", "]]>\n", "<![CDATA[ a ]]>\n", "q ]]> r\n",
	"<div>\n", "</div>\n", "<div\n", "<table>\n", "<p>\n", "<hr />\n", "<a href=\"x\">\n", "</a>\n", "<x-y>\n", "<b>bold</b>\n", "  <div>\n",
	"| a | b |\n", "|---|---|\n", "| :- | -: |\n", "| c | d |\n", "a | b\n", "- | -\n", "c\n", "| e |\n", "|-|\n",
	"[r]: /u\n", "[r]: /u \"t\"\n", "[r]\n", "[r]:\n", "/u2\n", "'title\n", "more'\n", "[a](u)\n", "*e* **s** `c`\n", "`` a\n", "b ``\n", "a  \n", "a\\\n", "<http://a.b>\n", "http://a.b www.c.d\n", "~~s~~\n", "- [ ] t\n", "- [x] u\n",
	"\x00\n", "a\x0bb\n", "\x0c\n", "\x80\xff\n", "é あ\n", "&amp; &#35; &foo;\n", "\\# \\> \\-\n", "a", "- b", "```", "<!--", "> q", "    c",
}

func runC08(c *core.Ctx) {
	pool := cfg.NewPool()
	specs := c08Specs()
	corpus := loadCorpus(c)
	r := c.Rng
	// 0. regression seeds
	if c.Shard == 0 {
		for _, s := range []string{"<!-- a\n-->\nokay", "<?php\n?>\nokay\n", "<!X\n>\nokay", "<![CDATA[\n]]>\nokay", "- a\n\n  b\n- c", "```\na\n\n```\nb", "a\n===\n    c\n\n    d"} {
			for _, sp := range specs {
				c08Check(c, pool, &c08Case{spec: sp, d: []byte(s), n: 1})
			}
		}
	}
	// 1. spec examples against spec.json
	spec, _ := wl.SpecExamples(c.Repo)
	specCfg := cfg.Spec{Ext: cfg.ExtCore, Unsafe: true, XHTML: true}
	for i, ex := range spec {
		if !c.Mine(i) {
			continue
		}
		d := []byte(ex.Markdown)
		if !c08Eligible(d) {
			c.Count("spec_examples_skipped_tab_cr_blank", 1)
			continue
		}
		for n := 1; n <= c.N(2, 4); n++ {
			c08Check(c, pool, &c08Case{spec: specCfg, d: d, n: n, want: []byte(ex.HTML)})
		}
		c.Count("spec_examples_checked", 1)
	}
	// 2. exhaustive short strings
	alpha, L := c08Alpha13, 4
	if !c.Quick() {
		alpha, L = c08Alpha17, 5
	}
	n1 := wl.ShortCount(len(alpha), L)
	for i := 0; i < n1; i++ {
		if !c.Mine(i) {
			continue
		}
		d := []byte(wl.ShortAt(alpha, L, i))
		if !c08Eligible(d) {
			continue
		}
		if c.Quick() {
			c08Check(c, pool, &c08Case{spec: specs[i%6], d: d, n: 1})
			c08Check(c, pool, &c08Case{spec: specs[(i/6+3)%6], d: d, n: 1})
		} else {
			for _, sp := range specs {
				c08Check(c, pool, &c08Case{spec: sp, d: d, n: 1})
			}
		}
	}
	// 3. random documents
	n2 := c.PerShard(c.N(1600000, 40000000))
	for i := 0; i < n2; i++ {
		var d []byte
		switch i % 6 {
		case 0, 1:
			d = wl.SoupFrom(r, c08Lines, 1+r.Intn(10))
		case 2:
			d = wl.Soup(r, 1+r.Intn(24))
		case 3:
			// a well-formed nested document from the by-construction generator (tab-free)
			d = []byte(sg.DocumentNoTabs(r, 3, 5, 3, nil).Markdown)
			c.Count("structured_documents", 1)
		default:
			d = mixDoc(r, corpus)
		}
		d = c08Sanitize(d)
		if !c08Eligible(d) {
			c.Count("generated_ineligible", 1)
			continue
		}
		n := 1
		if x := r.Intn(10); x >= 7 {
			n = 2 + (x-7)%3
		}
		sp := specs[r.Intn(len(specs))]
		c08Check(c, pool, &c08Case{spec: sp, d: d, n: n})
		if r.Intn(3) == 0 {
			c08Check(c, pool, &c08Case{spec: specs[r.Intn(len(specs))], d: d, n: 1})
		}
		if c.WantSample() && i%5000 == 11 {
			c.Sample(map[string]any{"config": sp.Name(), "n": n, "document": q(d), "prefixed": q(c08Prefix(d, n))})
		}
	}
}
