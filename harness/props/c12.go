package props

import (
	"bytes"
	"fmt"
	"regexp"
	"strings"

	"github.com/yuin/goldmark"
	"github.com/yuin/goldmark/ast"
	"github.com/yuin/goldmark/text"
	"github.com/yuin/goldmark/util"

	"verif/cfg"
	"verif/core"
	"verif/rw"
	"verif/wl"
)

// C12 — the source buffer is never written (mprotect write sanitizer + canaries).

func init() {
	register(&Prop{
		ID:    "C12",
		Level: "exploration",
		Rule: "cases = (configuration, source, spare capacity): the source is copied into an anonymous mapping that is then mprotect'ed read-only together with 0/1/64 bytes of spare capacity (cap > len), " +
			"and Parse, Render, Convert and an accessor sweep over the AST (Text, Lines().Value, segment values, AutoLink URL/Label, Language) run on it with faults turned into panics; " +
			"a second pass runs the same source inside a writable heap slice between canary regions and diffs source, spare capacity and canaries afterwards. " +
			"The exported util transformers are fed the same protected buffers. " +
			"Non-trivial = AST has a node other than Document/Paragraph/Text; distinct = distinct (AST shape, extension set, spare size, trailing-newline flag).",
		Assumptions: []string{
			"the MMU reports every store to the protected pages (reads never fault); debug.SetPanicOnFault turns the SIGSEGV into a recoverable panic carrying the address",
			"a store that writes back the value already present is still a store and is reported by the read-only pass (the canary pass would not see it)",
			"results that alias the input are legal: they are only read by the harness",
		},
		Run:    runC12,
		Replay: replayC12,
		Floors: func(m *Merged) []string {
			var out []string
			for _, k := range []string{"0", "1", "64"} {
				if m.Sets["spare_sizes"][k] == 0 {
					out = append(out, "spare capacity size never used: "+k)
				}
			}
			if m.Counters["protected_conversions"] == 0 {
				out = append(out, "no protected conversion ran")
			}
			if m.Counters["canary_passes"] == 0 {
				out = append(out, "no canary pass ran")
			}
			if m.Counters["util_calls"] == 0 {
				out = append(out, "no util function was exercised")
			}
			if m.Counters["selftest_fault_seen"] == 0 {
				out = append(out, "the self-test store into the protected buffer did not fault (sanitizer not working)")
			}
			return out
		},
	})
}

func c12Sweep(md goldmark.Markdown, src []byte, doc ast.Node) {
	// what downstream users do with the caller's buffer while holding the tree
	n := 0
	_ = ast.Walk(doc, func(nd ast.Node, entering bool) (ast.WalkStatus, error) {
		if !entering {
			return ast.WalkContinue, nil
		}
		if n++; n > 20000 {
			return ast.WalkStop, nil
		}
		if nd.Type() == ast.TypeBlock {
			if ls := nd.Lines(); ls != nil {
				_ = ls.Value(src)
				for i := 0; i < ls.Len(); i++ {
					s := ls.At(i)
					_ = s.Value(src)
				}
			}
		}
		switch v := nd.(type) {
		case *ast.Text:
			_ = v.Value(src)
			_ = v.Segment.Value(src)
		case *ast.AutoLink:
			_ = v.URL(src)
			_ = v.Label(src)
		case *ast.FencedCodeBlock:
			_ = v.Language(src)
		case *ast.RawHTML:
			if v.Segments != nil {
				_ = v.Segments.Value(src)
			}
		case *ast.HTMLBlock:
			if v.HasClosure() {
				_ = v.ClosureLine.Value(src)
			}
		}
		if nd.Kind() == ast.KindParagraph || nd.Kind() == ast.KindHeading || nd.Type() == ast.TypeInline {
			_ = nd.Text(src) //nolint (deprecated, still public API)
		}
		return ast.WalkContinue, nil
	})
}

func c12Pipeline(md goldmark.Markdown, src []byte, mode int) {
	switch mode {
	case 0:
		var b bytes.Buffer
		_ = md.Convert(src, &b)
	default:
		doc := md.Parser().Parse(text.NewReader(src))
		c12Sweep(md, src, doc)
		var b bytes.Buffer
		_ = md.Renderer().Render(&b, src, doc)
		if mode == 2 {
			b.Reset()
			_ = md.Renderer().Render(&b, src, doc)
			c12Sweep(md, src, doc)
		}
	}
}

func c12FaultLocus(f *rw.Fault, srcLen int) string {
	where := "inside-source"
	if !f.InBuf {
		where = "outside-buffer"
	} else if f.Offset >= srcLen {
		where = "spare-capacity"
	}
	frame := ""
	for _, l := range strings.Split(string(f.Stack), "\n") {
		if strings.HasPrefix(l, "github.com/yuin/goldmark") {
			if i := strings.LastIndexByte(l, '('); i > 0 {
				l = l[:i]
			}
			frame = strings.TrimPrefix(l, "github.com/yuin/goldmark")
			break
		}
	}
	return where + " @ " + frame
}

type c12State struct {
	c   *core.Ctx
	buf *rw.ROBuffer
}

// c12Protected runs the pipeline on a read-only copy; returns (class, locus, detail).
func (s *c12State) protected(md goldmark.Markdown, src []byte, spare, mode int) (string, string, string) {
	ro, err := s.buf.Load(src, spare)
	if err != nil {
		return "", "", ""
	}
	fault, other, _ := s.buf.Guard(func() { c12Pipeline(md, ro, mode) })
	if fault != nil {
		lo := c12FaultLocus(fault, len(src))
		return "write-to-protected-source", lo, fmt.Sprintf("page fault: %s\nfaulting offset %d relative to the buffer (source length %d, spare capacity %d)\n%s", fault.Message, fault.Offset, len(src), spare, trimStack(fault.Stack))
	}
	if other != nil {
		return "panic", "", fmt.Sprint(other)
	}
	return "", "", ""
}

const c12Canary = 64

// canary runs the pipeline on a writable slice between canaries and diffs afterwards.
func c12CanaryPass(md goldmark.Markdown, src []byte, spare, mode int) (string, string, string) {
	big := make([]byte, c12Canary+len(src)+spare+c12Canary)
	for i := range big {
		big[i] = 0xC5
	}
	copy(big[c12Canary:], src)
	for i := 0; i < spare; i++ {
		big[c12Canary+len(src)+i] = 0xAA
	}
	ref := append([]byte(nil), big...)
	view := big[c12Canary : c12Canary+len(src) : c12Canary+len(src)+spare]
	pv, _ := core.Try(func() { c12Pipeline(md, view, mode) })
	if pv != nil {
		return "panic", "", fmt.Sprint(pv)
	}
	if !bytes.Equal(big, ref) {
		i := 0
		for big[i] == ref[i] {
			i++
		}
		where := "inside-source"
		off := i - c12Canary
		switch {
		case off < 0:
			where = "before-source"
		case off >= len(src)+spare:
			where = "beyond-capacity"
		case off >= len(src):
			where = "spare-capacity"
		}
		return "source-bytes-changed", where, fmt.Sprintf("byte at offset %d relative to the source (length %d, spare %d) changed from %#x to %#x", off, len(src), spare, ref[i], big[i])
	}
	return "", "", ""
}

func (s *c12State) check(pool *cfg.Pool, spec cfg.Spec, src []byte, spare, mode int) {
	c := s.c
	name := spec.Name()
	md := pool.Get(spec)
	if len(src) > 60000 {
		src = src[:60000]
	}
	c.Begin(name, src)
	class, locus, detail := s.protected(md, src, spare, mode)
	c.End()
	c.Eval()
	c.Count("protected_conversions", 1)
	c.Observe("spare_sizes", fmt.Sprint(spare))
	c.Observe("configs", name)
	if class == "panic" {
		c.Count("conversion_failed_left_to_C01", 1)
		return
	}
	if class == "" && c.Rng.Intn(4) == 0 {
		class, locus, detail = c12CanaryPass(md, src, spare, mode)
		c.Eval()
		c.Count("canary_passes", 1)
		if class == "panic" {
			return
		}
	}
	if class == "" {
		return
	}
	if c.Seen(class, locus) {
		c.Violation(&core.Violation{Class: class, Locus: locus, Config: name, Input: src})
		return
	}
	min := core.Minimize(src, func(b []byte) bool {
		cl, lo, _ := s.protected(spec.Build(), b, spare, mode)
		if cl == "" {
			cl, lo, _ = c12CanaryPass(spec.Build(), b, spare, mode)
		}
		return cl == class && lo == locus
	}, 800)
	c.Violation(&core.Violation{Class: class, Locus: locus, Config: name, Input: min,
		Script: map[string]any{"spare": spare, "mode": mode}, Detail: detail})
}

type c12Util struct {
	name string
	f    func(b []byte)
}

var c12Filter = util.NewBytesFilterString("class,id,title")

var c12Re = regexp.MustCompile(`^[ ]*([a-z]+)(?:\s*=\s*("[^"]*"))?`)

var c12Utils = []c12Util{
	{"EscapeHTML", func(b []byte) { _ = util.EscapeHTML(b) }},
	{"UnescapePunctuations", func(b []byte) { _ = util.UnescapePunctuations(b) }},
	{"ResolveNumericReferences", func(b []byte) { _ = util.ResolveNumericReferences(b) }},
	{"ResolveEntityNames", func(b []byte) { _ = util.ResolveEntityNames(b) }},
	{"URLEscape(false)", func(b []byte) { _ = util.URLEscape(b, false) }},
	{"URLEscape(true)", func(b []byte) { _ = util.URLEscape(b, true) }},
	{"DoFullUnicodeCaseFolding", func(b []byte) { _ = util.DoFullUnicodeCaseFolding(b) }},
	{"ReplaceSpaces", func(b []byte) { _ = util.ReplaceSpaces(b, ' ') }},
	{"ToLinkReference", func(b []byte) { _ = util.ToLinkReference(b) }},
	{"TrimLeftSpace", func(b []byte) { _ = util.TrimLeftSpace(b) }},
	{"TrimRightSpace", func(b []byte) { _ = util.TrimRightSpace(b) }},
	{"TrimLeft/TrimRight", func(b []byte) { _ = util.TrimLeft(b, []byte(" *")); _ = util.TrimRight(b, []byte(" *")) }},
	{"VisualizeSpaces", func(b []byte) { _ = util.VisualizeSpaces(b) }},
	{"IndentPosition", func(b []byte) {
		_, _ = util.IndentPosition(b, 0, 4)
		_, _ = util.IndentPositionPadding(b, 1, 2, 4)
		_, _ = util.IndentWidth(b, 0)
	}},
	{"FindClosure", func(b []byte) { _ = util.FindClosure(b, '[', ']', true, true) }}, //nolint
	{"BytesFilter.Contains", func(b []byte) { _ = c12Filter.Contains(b) }},
	{"IsBlank/FirstNonSpacePosition", func(b []byte) { _ = util.IsBlank(b); _ = util.FirstNonSpacePosition(b) }},
	{"FindURLIndex/FindEmailIndex", func(b []byte) { _ = util.FindURLIndex(b); _ = util.FindEmailIndex(b) }},
	{"Segment.Value(ForceNewline)", func(b []byte) {
		s := text.Segment{Start: 0, Stop: len(b), ForceNewline: true}
		_ = s.Value(b)
		if len(b) > 1 {
			s2 := text.Segment{Start: 0, Stop: len(b) - 1, ForceNewline: true}
			_ = s2.Value(b)
		}
	}},
	{"CopyOnWriteBuffer", func(b []byte) {
		// a copy-on-write buffer over the caller's bytes (spare capacity included) must copy before its first change
		for k := 0; k < 6; k++ {
			w := util.NewCopyOnWriteBuffer(b)
			switch k {
			case 0:
				w.Append([]byte("x"))
			case 1:
				w.AppendByte('x')
			case 2:
				w.AppendString("xy")
			case 3:
				w.Write([]byte("x"))
			case 4:
				_ = w.WriteByte('x')
			default:
				w.WriteString("xy")
			}
			w.AppendByte('z')
			_ = w.Bytes()
		}
	}},
	{"ReadWhile/Dedent/TrimLength/ToRune", func(b []byte) {
		_, _ = util.ReadWhile(b, [2]int{0, len(b)}, util.IsAlphaNumeric)
		_, _ = util.DedentPosition(b, 0, 4)
		_, _ = util.DedentPositionPadding(b, 0, 1, 4)
		_ = util.TrimLeftLength(b, []byte(" >"))
		_ = util.TrimRightLength(b, []byte(" \n"))
		_ = util.TrimLeftSpaceLength(b)
		_ = util.TrimRightSpaceLength(b)
		for i := range b {
			_ = util.ToRune(b, i)
			_ = util.UTF8Len(b[i])
			if i > 64 {
				break
			}
		}
	}},
	{"BytesFilter.Add/Extend(source slice)", func(b []byte) {
		// a filter that is handed a sub-slice of the source keeps (at most) a reference: later additions must not land in it
		if len(b) < 4 {
			return
		}
		f := util.NewBytesFilter(b[:2:2], b[1:3])
		f.Add(b[:3])
		g := f.Extend(b[2:4], []byte("zz"))
		g.Add([]byte("another"))
		_ = g.ExtendString("p,q").Contains(b[:2])
	}},
	{"Segment methods", func(b []byte) {
		sg := text.NewSegment(0, len(b))
		_ = sg.TrimLeftSpace(b)
		_ = sg.TrimRightSpace(b)
		_ = sg.TrimLeftSpaceWidth(3, b)
		sp := text.NewSegmentPadding(0, len(b), 3)
		_ = sp.Value(b)
		_ = sp.ConcatPadding(nil) // (appends to its argument by contract, like append: never handed the source)
		ss := text.NewSegments()
		ss.Append(sg)
		ss.Append(sp)
		_ = ss.Value(b)
	}},
	{"Reader helpers", func(b []byte) {
		r := text.NewReader(b)
		for i := 0; i < 6; i++ {
			if l, _ := r.PeekLine(); l == nil {
				break
			}
			_ = r.Match(c12Re)
			_ = r.FindSubMatch(c12Re)
			r.SkipBlankLines()
			_, _, _ = r.SkipSpaces()
			r.ReadRune()
			r.Advance(1)
		}
		ss := text.NewSegments()
		for _, l := range bytes.SplitAfter(b, []byte("\n")) {
			_ = l
		}
		off := 0
		for off < len(b) && ss.Len() < 6 {
			e := bytes.IndexByte(b[off:], '\n')
			if e < 0 {
				e = len(b) - off - 1
			}
			ss.Append(text.NewSegmentPadding(off, off+e+1, ss.Len()%3))
			off += e + 1
		}
		if ss.Len() > 0 {
			br := text.NewBlockReader(b, ss)
			for i := 0; i < 8; i++ {
				if l, _ := br.PeekLine(); l == nil {
					break
				}
				_ = br.Match(c12Re)
				br.FindClosure('`', '`', text.FindClosureOptions{Newline: true, Advance: i%2 == 0})
				_, _, _ = br.SkipSpaces()
				br.Advance(1)
			}
			_ = br.Value(text.NewSegment(0, len(b)))
		}
	}},
	{"Reader/BlockReader", func(b []byte) {
		r := text.NewReader(b)
		for i := 0; i < 8; i++ {
			l, _ := r.PeekLine()
			if l == nil {
				break
			}
			r.FindClosure('[', ']', text.FindClosureOptions{Nesting: true, Newline: true})
			r.SkipSpaces()
			r.AdvanceLine()
		}
		_ = r.Value(text.NewSegment(0, len(b)))
	}},
}

func (s *c12State) utils(src []byte, spare int) {
	c := s.c
	ro, err := s.buf.Load(src, spare)
	if err != nil {
		return
	}
	for _, u := range c12Utils {
		fault, other, _ := s.buf.Guard(func() { u.f(ro) })
		c.Eval()
		c.Count("util_calls", 1)
		c.Observe("util_functions", u.name)
		if fault != nil {
			c.Violation(&core.Violation{Class: "write-to-protected-input", Locus: u.name + ":" + c12FaultLocus(fault, len(src)), Input: src,
				Detail: fmt.Sprintf("%s wrote to its input: %s offset %d (len %d spare %d)\n%s", u.name, fault.Message, fault.Offset, len(src), spare, trimStack(fault.Stack))})
		} else if other != nil {
			c.Count("util_panics_left_to_C01_C19", 1)
		}
	}
}

var c12Seeds = []struct{ cfg, in string }{
	{"core", "```\nabc"}, {"core", "    abc"}, {"core", "~~~ go\nx"}, {"core", "a `x = 1;\ny = 2;` b"}, {"core,attr", "# h {title=\"say \\\"hi\\\" twice\"}"},
	{"all,autoid,attr", "# h {#i .c k=\"v\"}\n\n[Foo]: /u\n\n[FOO]\n\n| a |\n|-|\n| `x\\|y` |\n"}, {"gfm", "- [x] a\n\nwww.a.b"}, {"typographer", "\"a\" 'b' -- ..."},
	{"core", "[a\nb]: /u\n\n[A B]"}, {"footnote", "x[^A]\n\n[^A]: n"}, {"core", "<div>\nx"}, {"deflist", "t\n: d"}, {"cjk-simple", "あ\nい\\ う"},
}

func runC12(c *core.Ctx) {
	buf, err := rw.New(1 << 17)
	if err != nil {
		c.Note("mmap failed: " + err.Error())
		return
	}
	s := &c12State{c: c, buf: buf}
	// self-test: a store into the protected buffer must fault
	ro, _ := buf.Load([]byte("selftest"), 1)
	if f, _, _ := buf.Guard(func() { ro = append(ro, 'x') }); f != nil && f.InBuf {
		c.Count("selftest_fault_seen", 1)
	}
	pool := cfg.NewPool()
	corpus := loadCorpus(c)
	r := c.Rng
	specs := []cfg.Spec{{Ext: cfg.ExtCore}, {Ext: cfg.ExtCore, AutoHeadingID: true, Attribute: true}, {Ext: cfg.ExtGFM}, {Ext: cfg.ExtGFM, Attribute: true, XHTML: true},
		{Ext: cfg.ExtAll, AutoHeadingID: true, Attribute: true}, {Ext: cfg.ExtAll, Unsafe: true, HardWraps: true}, {Ext: cfg.ExtFootnote}, {Ext: cfg.ExtDefList, Attribute: true},
		{Ext: cfg.ExtTypographer}, {Ext: cfg.ExtCJKSimple}, {Ext: cfg.ExtCJKCSS3, XHTML: true}, {Ext: cfg.ExtCJKEscSpace, AutoHeadingID: true},
		{Ext: cfg.ExtAll, Rich: true, AutoHeadingID: true, Attribute: true}, {Ext: cfg.ExtGFM, Rich: true, Unsafe: true, XHTML: true}}
	spares := []int{0, 1, 64}
	if c.Shard == 0 {
		for _, sd := range c12Seeds {
			for _, sp := range spares {
				for mode := 0; mode < 3; mode++ {
					s.check(pool, specOf(sd.cfg), []byte(sd.in), sp, mode)
				}
			}
		}
	}
	one := func(src []byte, i int) {
		// with and without the trailing newline: forced-newline paths only run on unterminated last lines
		variants := [][]byte{src}
		if bytes.HasSuffix(src, []byte("\n")) {
			variants = append(variants, src[:len(src)-1])
		} else {
			variants = append(variants, append(append([]byte(nil), src...), '\n'))
		}
		for vi, v := range variants {
			sp := specs[r.Intn(len(specs))]
			spare := spares[(i+vi)%3]
			mode := (i / 3) % 3
			s.check(pool, sp, v, spare, mode)
			if res := pool.Get(sp); res != nil && i%4 == 0 {
				doc := res.Parser().Parse(text.NewReader(v))
				sh := observeShape(c, doc, fmt.Sprintf("%s|%d|%d", extName(sp), spare, vi))
				_ = sh
			}
		}
		if i%8 == 0 {
			s.utils(src, spares[i%3])
		}
	}
	// exhaustive short strings
	alpha, L := wl.Alphabet14, 3
	if !c.Quick() {
		alpha, L = wl.Alphabet18, 4
	}
	n1 := wl.ShortCount(len(alpha), L)
	for i := 0; i < n1; i++ {
		if c.Mine(i) {
			one([]byte(wl.ShortAt(alpha, L, i)), i)
		}
	}
	// attribute blocks in every form and order on headings and fences (the attribute parser builds values out of source bytes)
	n3 := c.PerShard(c.N(60000, 3000000))
	for i := 0; i < n3; i++ {
		var src []byte
		switch i % 4 {
		case 0:
			src = append([]byte("# heading"), wl.AttrBlock(r)...)
		case 1:
			src = append(append([]byte("Setext heading"), wl.AttrBlock(r)...), "\n===\n"...)
		case 2:
			src = append(append([]byte("```go"), wl.AttrBlock(r)...), "\ncode\n```\n"...)
		default:
			src = append(append([]byte("## a *b*"), wl.AttrBlock(r)...), wl.Soup(r, 6)...)
		}
		one(src, i)
		c.Count("attribute_documents", 1)
	}
	// scalable families at boundary sizes
	k := 0
	for fi, fam := range wl.DeepFamilies {
		for _, n := range wl.BoundarySizes {
			k++
			if !c.Mine(k) || fi < wl.FirstLimitFamily && n > 257 || strings.HasSuffix(fam.Name, "-xl") && n != 1025 {
				continue
			}
			one(fam.Gen(n), k)
			c.Count("family_cases", 1)
		}
	}
	n2 := c.PerShard(c.N(160000, 12000000))
	for i := 0; i < n2; i++ {
		src := mixDoc(r, corpus)
		one(src, i)
		if c.WantSample() && i%5000 == 2 {
			c.Sample(map[string]any{"input": q(src), "protected": true})
		}
	}
}

func replayC12(c *core.Ctx, v *core.Violation) (bool, string) {
	buf, err := rw.New(1 << 17)
	if err != nil {
		return false, err.Error()
	}
	s := &c12State{c: c, buf: buf}
	if v.Config == "" {
		s.utils(v.Input, 1)
		sum := c.Finish()
		return len(sum.Violations) > 0, "util functions re-executed on the protected input"
	}
	spare, mode := 1, 1
	if sc, ok := v.Script.(map[string]any); ok {
		if x, ok := sc["spare"].(float64); ok {
			spare = int(x)
		}
		if x, ok := sc["mode"].(float64); ok {
			mode = int(x)
		}
	}
	cl, lo, d := s.protected(specOf(v.Config).Build(), v.Input, spare, mode)
	if cl == "" {
		cl, lo, d = c12CanaryPass(specOf(v.Config).Build(), v.Input, spare, mode)
	}
	return cl != "" && cl != "panic", cl + " " + lo + " " + d
}
