package props

import "runtime"

func runtimeStack(b []byte) int { return runtime.Stack(b, false) }
