package props

import (
	"bytes"
	"encoding/base64"
	"fmt"
	"github.com/yuin/goldmark"
	"github.com/yuin/goldmark/extension"
	"github.com/yuin/goldmark/renderer/html"
	"math/rand"
	"regexp"
	"strings"

	"verif/cfg"
	"verif/core"
	"verif/sg"
	"verif/wl"
)

// C11 — extensions are conservative: no trigger syntax, no change; GFM == its four members.

func init() {
	register(&Prop{
		ID:    "C11",
		Level: "exploration",
		Rule: "cases = (extension E, base set S of other extensions, safe/unsafe, document d made free of E's trigger characters by substitution); the monitor requires Convert_{S+E}(d) == Convert_S(d) byte for byte, " +
			"with E inserted at a random position of the extension list. Trigger sets are the statement's: Strikethrough '~'; Table '-'; TaskList '['; Footnote '[^'; DefinitionList ':'; Typographer any of ' \" - . < >; Linkify ':', '@', 'www.'; " +
			"CJK (line-break styles simple/css3, escaped space) any byte >= 0x80 or backslash-space. Second relation: Convert_{GFM}(d) == Convert_{Linkify,Table,Strikethrough,TaskList}(d) for every d, no substitution. " +
			"Sources: token soup, line soup, corpus items and mutants, exhaustive short strings. Non-trivial = d's tree (under S) has a node other than Document/Paragraph/Text; distinct = distinct (AST shape signature, E, S).",
		Assumptions: []string{
			"substitution keeps documents realistic: each trigger character is replaced by a fixed non-trigger character, so the rest of the document keeps its structure",
			"both sides use fresh long-lived instances built from the same option lists apart from E",
			"a panic or error during conversion is counted and left to C01",
		},
		Run:    runC11,
		Replay: replayC11,
		Floors: func(m *Merged) []string {
			var out []string
			for _, e := range c11Exts {
				if m.Sets["pairs_by_extension"][e.name] < 2000 {
					out = append(out, fmt.Sprintf("extension %s compared on only %d documents", e.name, m.Sets["pairs_by_extension"][e.name]))
				}
				for _, k := range []string{"Heading", "Emphasis", "Link", "CodeSpan", "List", "FencedCodeBlock"} {
					if !(k == "Link" && e.name == cfg.STaskList) && m.Sets["kinds_with:"+e.name][k] == 0 {
						out = append(out, fmt.Sprintf("extension %s never compared on a document containing %s", e.name, k))
					}
				}
			}
			if m.Counters["gfm_equivalence_pairs"] < 5000 {
				out = append(out, "too few GFM-equivalence pairs")
			}
			return out
		},
		Exhaustive: func(tier string) string {
			if tier == "thorough" {
				return "all strings of length<=4 over a 16-unit alphabet (after substitution) x 10 extensions x empty base set; everything else sampled"
			}
			return "all strings of length<=3 over a 16-unit alphabet (after substitution) x 10 extensions x empty base set; everything else sampled"
		},
	})
}

type c11Ext struct {
	name  string // cfg single-extension name
	strip func([]byte) []byte
}

func replBytes(d []byte, pairs ...string) []byte {
	out := d
	for i := 0; i+1 < len(pairs); i += 2 {
		if bytes.Contains(out, []byte(pairs[i])) {
			out = bytes.ReplaceAll(out, []byte(pairs[i]), []byte(pairs[i+1]))
		}
	}
	return out
}

func stripASCII(d []byte) []byte {
	out := make([]byte, 0, len(d))
	for i := 0; i < len(d); i++ {
		ch := d[i]
		if ch >= 0x80 {
			ch = 'x'
		}
		if ch == ' ' && i > 0 && d[i-1] == '\\' {
			ch = 'y'
		}
		out = append(out, ch)
	}
	return out
}

func stripWWW(d []byte) []byte {
	out := append([]byte(nil), d...)
	for i := 0; i+3 < len(out); i++ {
		if (out[i] == 'w' || out[i] == 'W') && (out[i+1] == 'w' || out[i+1] == 'W') && (out[i+2] == 'w' || out[i+2] == 'W') && out[i+3] == '.' {
			out[i+2] = 'x'
		}
	}
	return out
}

var c11Exts = []c11Ext{
	{cfg.SStrikethrough, func(d []byte) []byte { return replBytes(d, "~", "x") }},
	{cfg.STable, func(d []byte) []byte { return replBytes(d, "-", "*") }},
	{cfg.STaskList, func(d []byte) []byte { return replBytes(d, "[", "(") }},
	{cfg.SFootnote, func(d []byte) []byte {
		for bytes.Contains(d, []byte("[^")) {
			d = bytes.ReplaceAll(d, []byte("[^"), []byte("[x"))
		}
		return d
	}},
	{cfg.SDefList, func(d []byte) []byte { return replBytes(d, ":", ";") }},
	{cfg.STypographer, func(d []byte) []byte {
		return replBytes(d, "'", "x", "\"", "y", "-", "*", ".", ")", "<", "(", ">", ")")
	}},
	{cfg.SLinkify, func(d []byte) []byte { return stripWWW(replBytes(d, ":", ";", "@", "a")) }},
	{cfg.SCJKSimple, stripASCII},
	{cfg.SCJKCSS3, stripASCII},
	{cfg.SCJKEsc, stripASCII},
	{cfg.SCJKSimpleNoEsc, stripASCII},
}

func c11HasTrigger(e string, d []byte) bool {
	switch e {
	case cfg.SStrikethrough:
		return bytes.IndexByte(d, '~') >= 0
	case cfg.STable:
		return bytes.IndexByte(d, '-') >= 0
	case cfg.STaskList:
		return bytes.IndexByte(d, '[') >= 0
	case cfg.SFootnote:
		return bytes.Contains(d, []byte("[^"))
	case cfg.SDefList:
		return bytes.IndexByte(d, ':') >= 0
	case cfg.STypographer:
		return bytes.ContainsAny(d, "'\"-.<>")
	case cfg.SLinkify:
		return bytes.ContainsAny(d, ":@") || bytes.Contains(bytes.ToLower(d), []byte("www."))
	default: // CJK
		for i, ch := range d {
			if ch >= 0x80 || ch == ' ' && i > 0 && d[i-1] == '\\' {
				return true
			}
		}
		return false
	}
}

var c11BaseNames = []string{cfg.SStrikethrough, cfg.STable, cfg.STaskList, cfg.SFootnote, cfg.SDefList, cfg.STypographer, cfg.SLinkify, cfg.SCJKSimple, cfg.STypographerUTF8}

func isCJK(n string) bool { return strings.HasPrefix(n, "cjk") }

// c11Pair builds the (without, with) specs.
func c11Pair(r *rand.Rand, e string, unsafe bool, po int) (cfg.Spec, cfg.Spec) {
	var base []string
	if r.Intn(2) == 1 {
		for _, n := range c11BaseNames {
			if n == e || isCJK(n) && isCJK(e) {
				continue
			}
			if r.Intn(3) == 0 {
				base = append(base, n)
			}
		}
	}
	if base == nil {
		base = []string{}
	}
	pos := r.Intn(len(base) + 1)
	with := append(append(append([]string{}, base[:pos]...), e), base[pos:]...)
	a := cfg.Spec{Only: base, Unsafe: unsafe, AutoHeadingID: po&1 != 0, Attribute: po&2 != 0}
	b := cfg.Spec{Only: with, Unsafe: unsafe, AutoHeadingID: po&1 != 0, Attribute: po&2 != 0}
	return a, b
}

// c11Eval returns class "" when the relation holds.
func c11Eval(pool *cfg.Pool, a, b cfg.Spec, d []byte, c *core.Ctx, tag string) (class, locus, detail string, ok bool) {
	ra := parseRender(pool.Get(a), d)
	if !ra.OK() {
		return "", "", "", false
	}
	rb := convert(pool.Get(b), d)
	if !rb.OK() {
		return "", "", "", false
	}
	if c != nil && ra.Doc != nil {
		sh := observeShape(c, ra.Doc, tag+a.Name())
		for k := range sh.Kinds {
			c.Observe("kinds_with:"+tag, k.String())
		}
	}
	if bytes.Equal(ra.Out, rb.Out) {
		return "", "", "", true
	}
	return "extension-changes-untriggered-document", tag + ":" + c10Where(ra.Out, rb.Out),
		fmt.Sprintf("without: %s\nwith:    %s\n%s", a.Name(), b.Name(), firstDiff(rb.Out, ra.Out)), true
}

func c11Check(c *core.Ctx, pool *cfg.Pool, e string, a, b cfg.Spec, d []byte) {
	name := a.Name() + " => " + b.Name()
	c.Begin(name, d)
	class, locus, detail, ok := c11Eval(pool, a, b, d, c, e)
	c.End()
	c.Evals(2)
	if !ok {
		c.Count("conversion_failed_left_to_C01", 1)
		return
	}
	if e == "gfm" {
		c.Count("gfm_equivalence_pairs", 1)
		if class != "" {
			class = "gfm-differs-from-its-members"
		}
	} else {
		c.Observe("pairs_by_extension", e)
		if len(a.Only) > 0 {
			c.Count("pairs_with_nonempty_base", 1)
		}
		c.Observe("base_sets", strings.Join(a.Only, "+"))
	}
	if class == "" {
		return
	}
	if c.Seen(class, locus) {
		c.Violation(&core.Violation{Class: class, Locus: locus, Config: name, Input: d})
		return
	}
	fresh := cfg.NewPool()
	min := core.Minimize(d, func(x []byte) bool {
		if e != "gfm" && c11HasTrigger(e, x) {
			return false
		}
		cl, lo, _, ok := c11Eval(fresh, a, b, x, nil, e)
		if cl != "" && e == "gfm" {
			cl = "gfm-differs-from-its-members"
		}
		return ok && cl == class && lo == locus
	}, 1200)
	if _, _, dd, _ := c11Eval(fresh, a, b, min, nil, e); dd != "" {
		detail = dd
	}
	c.Violation(&core.Violation{Class: class, Locus: locus, Config: name, Input: min, Detail: detail,
		Script: map[string]any{"extension": e, "without": a.Name(), "with": b.Name()}})
}

func replayC11(c *core.Ctx, v *core.Violation) (bool, string) {
	m, _ := v.Script.(map[string]any)
	if m == nil {
		return false, "replay needs the script (without/with configuration names)"
	}
	an, _ := m["without"].(string)
	bn, _ := m["with"].(string)
	e, _ := m["extension"].(string)
	if tw, _ := m["converted_before_b64"].(string); tw != "" {
		// the wide-character twin of the document goes first, through a fresh instance of the CJK configuration
		if b, err := base64.StdEncoding.DecodeString(tw); err == nil {
			_ = convert(specOf(bn).Build(), b)
		}
	}
	cl, lo, d, ok := c11Eval(cfg.NewPool(), specOf(an), specOf(bn), v.Input, nil, e)
	if !ok {
		return false, "conversion failed (C01)"
	}
	return cl != "", cl + " " + lo + " " + d
}

var c11Alpha = []string{"a", " ", "\n", "*", "_", "`", "#", "(", ")", "!", "\\", "1", "+", "=", "|", "  \n"}

var c11Seeds = []string{"foo.\nbar", ".\n(", "a\n(b)", "- ;\no", "### bar    ###", "foo       \nbaz", "foo\n*bar*", "foo\n`bar`", "a *b*   \nc", "# h   \n", "*a* _b_\nc   \n", "a (b) c  \n(d)"}

func runC11(c *core.Ctx) {
	pool := cfg.NewPool()
	corpus := loadCorpus(c)
	r := c.Rng
	gfmA := cfg.Spec{Only: []string{cfg.SLinkify, cfg.STable, cfg.SStrikethrough, cfg.STaskList}}
	gfmB := cfg.Spec{Only: []string{cfg.SGFM}}
	// neighbours: other instances in the same process that are built from the SAME extension values (extension.Linkify,
	// extension.GFM) but configured through the option route - Linkify told, by parser options, to link issue numbers
	// ("#123", "GH-7": text without ':', '@' or 'www.'). They convert a document now and again during the run. What they were
	// told is their own business: the instances under comparison must go on treating "#123" as text.
	nbRe := regexp.MustCompile(`^(?:#[0-9]+|GH-[0-9]+)`)
	neighbours := []goldmark.Markdown{
		goldmark.New(goldmark.WithExtensions(extension.Linkify), goldmark.WithParserOptions(extension.WithLinkifyAllowedProtocols([]string{"#", "GH-"}), extension.WithLinkifyURLRegexp(nbRe))),
		goldmark.New(goldmark.WithExtensions(extension.GFM), goldmark.WithParserOptions(extension.WithLinkifyAllowedProtocols([]string{"#", "GH-"}), extension.WithLinkifyURLRegexp(nbRe)),
			goldmark.WithRendererOptions(html.WithXHTML(), html.WithHardWraps(), extension.WithTableCellAlignMethod(extension.TableCellAlignAttribute))),
	}
	nbDoc := []byte("see #123 and GH-7\nnext line\n\n- [x] t\n\n| a |\n|:-:|\n| b |\n\n~~s~~\n")
	neighbourTurn := func() {
		for _, nb := range neighbours {
			_ = convert(nb, nbDoc)
			c.Eval()
		}
		c.Count("conversions_by_neighbour_instances_sharing_extension_values", int64(len(neighbours)))
	}
	neighbourTurn()
	issueDocs := []string{"see #123 now", "#1 first", "a GH-7 b\n#22\n", "(#5) *#6* _GH-8_", "# h #9\n\n- #10\n- GH-11\n"}
	for _, d := range issueDocs {
		for _, e := range []string{cfg.SLinkify} {
			c11Check(c, pool, e, cfg.Spec{Only: []string{}}, cfg.Spec{Only: []string{e}}, []byte(d))
		}
		c11Check(c, pool, "gfm", gfmA, gfmB, []byte(d))
	}
	// 0. regression seeds (witnesses of the two repaired defects and neighbours)
	if c.Shard == 0 {
		for _, s := range c11Seeds {
			for _, e := range c11Exts {
				d := e.strip([]byte(s))
				a, b := cfg.Spec{Only: []string{}}, cfg.Spec{Only: []string{e.name}}
				c11Check(c, pool, e.name, a, b, d)
			}
		}
	}
	// 1. exhaustive short strings, empty base
	L := c.N(3, 4)
	n1 := wl.ShortCount(len(c11Alpha), L)
	for i := 0; i < n1; i++ {
		if !c.Mine(i) {
			continue
		}
		d := []byte(wl.ShortAt(c11Alpha, L, i))
		for _, e := range c11Exts {
			if e.name == cfg.SCJKSimpleNoEsc {
				continue
			}
			x := e.strip(d)
			c11Check(c, pool, e.name, cfg.Spec{Only: []string{}}, cfg.Spec{Only: []string{e.name}}, x)
		}
	}
	// 1b. wide-character documents for the non-CJK extensions on top of a CJK base: East Asian line-break handling looks at the
	// characters around a soft break, so anything another extension does to the text nodes there (flushing at spaces,
	// at trigger characters) must not show
	cjkTok := []string{"日本", "語", "あ", "漢字", "、", "。", "「", "」", "ア", "한", "a", "b", " ", " ", "  ", "\n", "\n", " \n", "  \n", "\\\n", "*", "**", "`", "(", ")", "!", "#", "1", "x y",
		"\r\n", " \r\n", "\t \r\n", "  \r\n", "\t", "\r"}
	// 1a. line endings and the white space before them, exhaustively: every string up to a length bound over letters, a wide
	// character, space, TAB, LF, CR LF and a lone CR - for every non-CJK extension, on an empty base and on a CJK base
	wsAlpha := []string{"a", "b", " ", "\t", "\n", "\r\n", "\r", "*", "漢"}
	Lw := c.N(5, 6)
	nw := wl.ShortCount(len(wsAlpha), Lw)
	for i := 0; i < nw; i++ {
		if !c.Mine(i) {
			continue
		}
		d := []byte(wl.ShortAt(wsAlpha, Lw, i))
		if !bytes.ContainsAny(d, "\r\n") {
			continue
		}
		e := c11Exts[i%7]
		x := e.strip(d)
		if c11HasTrigger(e.name, x) {
			continue
		}
		if bytes.IndexByte(x, 0xe6) >= 0 {
			cj := []string{cfg.SCJKSimple, cfg.SCJKCSS3}[i/7%2]
			c11Check(c, pool, e.name, cfg.Spec{Only: []string{cj}}, cfg.Spec{Only: []string{cj, e.name}}, x)
		} else {
			c11Check(c, pool, e.name, cfg.Spec{Only: []string{}}, cfg.Spec{Only: []string{e.name}}, x)
		}
		c.Count("line_ending_documents", 1)
	}
	n1b := c.PerShard(c.N(90000, 3000000))
	for i := 0; i < n1b; i++ {
		d := wl.SoupFrom(r, cjkTok, 2+r.Intn(12))
		e := c11Exts[r.Intn(7)] // the seven non-CJK extensions
		x := e.strip(d)
		if c11HasTrigger(e.name, x) {
			continue
		}
		cj := []string{cfg.SCJKSimple, cfg.SCJKCSS3, cfg.SCJKEsc, cfg.SCJKSimpleNoEsc}[r.Intn(4)]
		a := cfg.Spec{Only: []string{cj}, Unsafe: r.Intn(2) == 0}
		b := cfg.Spec{Only: []string{cj, e.name}, Unsafe: a.Unsafe}
		if r.Intn(2) == 0 {
			b.Only = []string{e.name, cj}
		}
		c11Check(c, pool, e.name, a, b, x)
		c.Count("wide_character_documents_on_a_cjk_base", 1)
	}
	// 1c. code-point twins first. Before a pure ASCII document is compared, a CJK-enabled instance converts its *twin*: every
	// printable ASCII byte b replaced by a wide character whose code point ends in b (U+20000+b and U+30000+b, CJK extension
	// planes; U+3000+b, kana; U+FF00+b-0x20, fullwidth forms). Anything the extension remembers about "this pair of characters
	// around a line break" under a key narrower than the code point is remembered for the ASCII pair too. The comparison
	// itself is the ordinary one: CJK on and off must agree on the ASCII document.
	asciiTok := []string{"abc", "bcd", "a", "b", "c", "xyz", "Ab", "q.", "(r)", "s,", "t!", "1", "22", "\n", "\n", "\n", " \n", "*", "_", "`u`", "#", " ", " ", "w;", "[v](u)", "?", "\"k\"", "o-p"}
	n1c := c.PerShard(c.N(40000, 1500000))
	for i := 0; i < n1c; i++ {
		d := wl.SoupFrom(r, asciiTok, 2+r.Intn(10))
		cj := []string{cfg.SCJKSimple, cfg.SCJKCSS3, cfg.SCJKEsc, cfg.SCJKSimpleNoEsc}[r.Intn(4)]
		if c11HasTrigger(cj, d) {
			continue
		}
		a := cfg.Spec{Only: []string{}, Unsafe: r.Intn(2) == 0}
		b := cfg.Spec{Only: []string{cj}, Unsafe: a.Unsafe}
		switch r.Intn(4) {
		case 0:
			// on top of a Typographer that writes the characters themselves: what follows a line break may then be a non-ASCII
			// character although the source is pure ASCII
			a.Only, b.Only = []string{cfg.STypographerUTF8}, []string{cfg.STypographerUTF8, cj}
		case 1:
			a.Only, b.Only = []string{cfg.STypographer, cfg.SLinkify}, []string{cj, cfg.STypographer, cfg.SLinkify}
		}
		base := []rune{0x20000, 0x30000, 0x3000, 0xFEE0, 0x2F800 - 0x21, 0x1F300}[r.Intn(6)]
		var tw []byte
		for _, ch := range d {
			if ch > 0x20 && ch < 0x7f && ch != '\\' {
				tw = append(tw, string(base+rune(ch))...)
			} else {
				tw = append(tw, ch)
			}
		}
		_ = convert(pool.Get(b), tw)
		c.Eval()
		c.Count("ascii_documents_compared_after_their_wide_character_twin", 1)
		name := a.Name() + " => " + b.Name()
		c.Begin(name, d)
		class, locus, detail, ok := c11Eval(pool, a, b, d, c, cj)
		c.End()
		c.Evals(2)
		if !ok || class == "" {
			continue
		}
		c.Violation(&core.Violation{Class: class, Locus: locus + ":after-wide-twin", Config: name, Input: d,
			Detail: "the CJK-enabled instance had converted the wide-character twin of the document before (" + q(tw) + ")\n" + detail,
			Script: map[string]any{"extension": cj, "without": a.Name(), "with": b.Name(), "converted_before_b64": base64.StdEncoding.EncodeToString(tw)}})
	}
	// 2. random documents
	n2 := c.PerShard(c.N(700000, 30000000))
	for i := 0; i < n2; i++ {
		if i%20000 == 7 {
			neighbourTurn()
			c11Check(c, pool, cfg.SLinkify, cfg.Spec{Only: []string{}}, cfg.Spec{Only: []string{cfg.SLinkify}}, []byte(issueDocs[(i/20000)%len(issueDocs)]))
		}
		var d []byte
		switch i % 7 {
		case 5:
			d = []byte(sg.Document(r, 3, 5, 4, nil).Markdown)
		case 0:
			d = wl.SoupFrom(r, c08Lines, 1+r.Intn(10))
		case 1:
			d = wl.Soup(r, 1+r.Intn(24))
		case 2:
			d = wl.SoupFrom(r, c10Tokens, 1+r.Intn(10))
		default:
			d = mixDoc(r, corpus)
		}
		if i%6 == 4 {
			// GFM against its four members under every combination of renderer flags and parser options, interleaved in one
			// process: instances of one extension set that differ only in their options must not influence each other
			a, b := gfmA, gfmB
			f := r.Intn(8)
			a.Unsafe, a.XHTML, a.HardWraps = f&1 != 0, f&2 != 0, f&4 != 0
			if r.Intn(4) == 0 {
				a.AutoHeadingID, a.Attribute = true, true
			}
			b.Unsafe, b.XHTML, b.HardWraps, b.AutoHeadingID, b.Attribute = a.Unsafe, a.XHTML, a.HardWraps, a.AutoHeadingID, a.Attribute
			if i%5 == 0 {
				d = append([]byte("- [x] done\n- [ ] todo\n\n| a | b | c |\n|:--|:-:|--:|\n| ~~d~~ | www.e.f | g@h.i |\n\n"), d...)
			}
			c11Check(c, pool, "gfm", a, b, d)
			c.Observe("gfm_equivalence_flag_sets", fmt.Sprint(f))
			continue
		}
		e := c11Exts[r.Intn(len(c11Exts))]
		x := e.strip(d)
		if c11HasTrigger(e.name, x) {
			c.Count("substitution_left_a_trigger", 1)
			continue
		}
		po := 0
		if r.Intn(4) == 0 {
			po = 1 + r.Intn(3)
		}
		a, b := c11Pair(r, e.name, r.Intn(2) == 0, po)
		c11Check(c, pool, e.name, a, b, x)
		if c.WantSample() && i%9000 == 13 {
			c.Sample(map[string]any{"extension": e.name, "without": a.Name(), "with": b.Name(), "document": q(x)})
		}
	}
}
