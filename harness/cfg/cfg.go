// Package cfg builds goldmark instances for the lattice of built-in configurations.
package cfg

import (
	"regexp"
	"strings"

	"github.com/yuin/goldmark"
	"github.com/yuin/goldmark/ast"
	"github.com/yuin/goldmark/extension"
	"github.com/yuin/goldmark/parser"
	"github.com/yuin/goldmark/renderer"
	"github.com/yuin/goldmark/renderer/html"
	"github.com/yuin/goldmark/util"
)

// Extension-set identifiers.
const (
	ExtCore = iota
	ExtGFM
	ExtDefList
	ExtFootnote
	ExtTypographer
	ExtCJKSimple
	ExtCJKCSS3
	ExtCJKEscSpace
	ExtAll
	NExt
)

var extNames = []string{"core", "gfm", "deflist", "footnote", "typographer", "cjk-simple", "cjk-css3", "cjk-escspace", "all"}

// Spec describes one configuration.
type Spec struct {
	Ext           int
	AutoHeadingID bool
	Attribute     bool
	Unsafe        bool
	XHTML         bool
	HardWraps     bool

	// Overrides used by individual properties (zero value = library default).
	TableAlign    extension.TableCellAlignMethod // 0 = default
	PinTableAlign bool
	NoEALB        bool     // build CJK-containing sets without East Asian line-break handling
	Only          []string // explicit list of single extensions instead of Ext (see Single*)
	FootnotePfx   string
	// Rich builds every extension that has options with non-default options (Linkify with an explicit protocol list,
	// Footnote with id prefix / titles / classes, Typographer with substitutions, Table with the attribute align method).
	Rich bool
	// Rich2 (with Rich): the second option variant - Typographer with several substitutions *disabled* (nil), Linkify with
	// its own regular expressions, Footnote with a prefix function and custom back-link HTML entity.
	Rich2 bool
	// Rich3 (with Rich): options that arrive by two routes with different values - the extension's constructor
	// (NewFootnote(WithFootnoteIDPrefix("ext-"))) and goldmark.WithRendererOptions (the same option with "page7-", plus a
	// prefix function) - the renderer-level value is the one in force, for every id the extension writes; the table align
	// method likewise (constructor: attribute, renderer option: style).
	Rich3 bool
	// Rich4 (with Rich): an explicitly given but EMPTY footnote id prefix together with a prefix function (the static
	// prefix, being set, is in force: ids carry no prefix), and Typographer with empty (non-nil) replacements, which
	// means "replace by nothing".
	Rich4 bool
	// HeadingRoute (with AutoHeadingID / Attribute): the heading options are given to the heading parsers' constructors
	// (parser.NewATXHeadingParser(parser.WithAutoHeadingID()) ... in a caller-built parser.NewParser) instead of to the parser
	// as a whole (core only).
	HeadingRoute bool
	// Rev (with Direct): the flags are given to html.NewRenderer in the opposite order (HardWraps, XHTML, Unsafe)
	Rev bool
	// Direct: renderer flags are given to html.NewRenderer(...) itself, inside a caller-built renderer.NewRenderer, instead
	// of goldmark.WithRendererOptions (core only: extension renderers receive options by name, not through this route).
	Direct bool
}

// Single extension names usable in Spec.Only.
const (
	SLinkify        = "linkify"
	STable          = "table"
	SStrikethrough  = "strikethrough"
	STaskList       = "tasklist"
	SFootnote       = "footnote"
	SDefList        = "deflist"
	STypographer    = "typographer"
	// STableParts: the table extension's exported parts wired by hand - NewTableParagraphTransformer and NewTableHTMLRenderer -
	// without its AST transformer (which only repairs escaped pipes inside code spans)
	STableParts = "table-parts"
	// STypographerUTF8: Typographer whose replacements are the characters themselves (UTF-8) instead of character references
	STypographerUTF8 = "typographer-utf8"
	SCJKSimple      = "cjk-simple"
	SCJKCSS3        = "cjk-css3"
	SCJKEsc         = "cjk-escspace"
	SGFM            = "gfm"
	SCJKSimpleNoEsc = "cjk-simple-noesc"
)

// Name returns a stable, human-readable name of the configuration.
func (s Spec) Name() string {
	var b strings.Builder
	if s.Only != nil {
		b.WriteString("only[" + strings.Join(s.Only, "+") + "]")
	} else {
		b.WriteString(extNames[s.Ext])
	}
	if s.AutoHeadingID {
		b.WriteString(",autoid")
	}
	if s.Attribute {
		b.WriteString(",attr")
	}
	if s.Unsafe {
		b.WriteString(",unsafe")
	}
	if s.XHTML {
		b.WriteString(",xhtml")
	}
	if s.HardWraps {
		b.WriteString(",hardwraps")
	}
	if s.PinTableAlign {
		switch s.TableAlign {
		case extension.TableCellAlignAttribute:
			b.WriteString(",align=attr")
		case extension.TableCellAlignStyle:
			b.WriteString(",align=style")
		case extension.TableCellAlignNone:
			b.WriteString(",align=none")
		default:
			b.WriteString(",align=default")
		}
	}
	if s.NoEALB {
		b.WriteString(",noealb")
	}
	if s.FootnotePfx != "" {
		b.WriteString(",fnpfx=" + s.FootnotePfx)
	}
	if s.Rich {
		b.WriteString(",rich")
	}
	if s.Rich2 {
		b.WriteString(",rich2")
	}
	if s.Rich3 {
		b.WriteString(",rich3")
	}
	if s.Rich4 {
		b.WriteString(",rich4")
	}
	if s.HeadingRoute {
		b.WriteString(",headingroute")
	}
	if s.Rev {
		b.WriteString(",rev")
	}
	if s.Direct {
		b.WriteString(",direct")
	}
	return b.String()
}

func (s Spec) table() goldmark.Extender {
	if s.Rich && !s.PinTableAlign {
		return extension.NewTable(extension.WithTableCellAlignMethod(extension.TableCellAlignAttribute))
	}
	if s.PinTableAlign {
		return extension.NewTable(extension.WithTableCellAlignMethod(s.TableAlign))
	}
	return extension.Table
}

var (
	// (schemes with and without "//"; the remainder after a scheme without "//" may be empty)
	richURLRegexp   = regexp.MustCompile(`^(?:(?:https|gopher)://[a-z0-9.\-]+(?:/[^\s<]*)?|(?:mailto|tel):[^\s<]*)`)
	richWWWRegexp   = regexp.MustCompile(`^www\.[a-z0-9.\-]+(?:/[^\s<]*)?`)
	richEmailRegexp = regexp.MustCompile(`^[a-z0-9.+_\-]+@[a-z0-9.\-]+\.[a-z]+`)
)

// FootnoteIDPrefix returns the id prefix the Footnote extension of this configuration is built with.
func (s Spec) FootnoteIDPrefix() string {
	if s.Rich && s.Rich3 {
		return "page7-"
	}
	if s.Rich && s.Rich4 {
		return ""
	}
	if s.Rich && s.FootnotePfx == "" {
		return "doc-1-"
	}
	return s.FootnotePfx
}

func (s Spec) footnote() goldmark.Extender {
	if s.Rich && s.Rich4 {
		return extension.NewFootnote(extension.WithFootnoteIDPrefix(make([]byte, 0, 128)), extension.WithFootnoteIDPrefixFunction(func(ast.Node) []byte { return []byte("post42-") }),
			extension.WithFootnoteLinkTitle("note ^^"), extension.WithFootnoteBacklinkClass("fn-back"))
	}
	if s.Rich && s.Rich3 {
		return extension.NewFootnote(extension.WithFootnoteIDPrefix("ext-"), extension.WithFootnoteLinkTitle("note ^^ (%%)"),
			extension.WithFootnoteBacklinkTitle("back to ^^ (%%)"), extension.WithFootnoteLinkClass("fn-link"), extension.WithFootnoteBacklinkClass("fn-back"))
	}
	if s.Rich {
		pfx := s.FootnoteIDPrefix()
		// the prefix is handed over as a byte slice with spare capacity, as a caller that builds it by appending would
		pb := append(make([]byte, 0, 128), pfx...)
		return extension.NewFootnote(extension.WithFootnoteIDPrefix(pb), extension.WithFootnoteLinkTitle("note ^^ (%%)"),
			extension.WithFootnoteBacklinkTitle("back to ^^ (%%)"), extension.WithFootnoteLinkClass("fn-link"), extension.WithFootnoteBacklinkClass("fn-back"))
	}
	if s.FootnotePfx != "" {
		return extension.NewFootnote(extension.WithFootnoteIDPrefix(s.FootnotePfx))
	}
	return extension.Footnote
}

func (s Spec) cjk(style extension.EastAsianLineBreaks, esc bool) goldmark.Extender {
	var opts []extension.CJKOption
	if !s.NoEALB && style != extension.EastAsianLineBreaksNone {
		opts = append(opts, extension.WithEastAsianLineBreaks(style))
	}
	if esc {
		opts = append(opts, extension.WithEscapedSpace())
	}
	return extension.NewCJK(opts...)
}

func (s Spec) linkify() goldmark.Extender {
	if s.Rich && s.Rich3 {
		// the extension value everybody uses; its options arrive as parser options (ParserOptions below)
		return extension.Linkify
	}
	if s.Rich && s.Rich2 {
		return extension.NewLinkify(extension.WithLinkifyAllowedProtocols([][]byte{[]byte("https:"), []byte("gopher:"), []byte("mailto:"), []byte("tel:")}),
			extension.WithLinkifyURLRegexp(richURLRegexp), extension.WithLinkifyWWWRegexp(richWWWRegexp), extension.WithLinkifyEmailRegexp(richEmailRegexp))
	}
	if s.Rich {
		return extension.NewLinkify(extension.WithLinkifyAllowedProtocols([]string{"http:", "https:", "ftp:", "mailto:"}))
	}
	return extension.Linkify
}

func (s Spec) typographer() goldmark.Extender {
	if s.Rich && s.Rich3 {
		// the extension value everybody uses; the substitutions arrive as a parser option (ParserOptions below)
		return extension.Typographer
	}
	if s.Rich && s.Rich4 {
		// an empty (non-nil) replacement means "replace by nothing": the punctuation disappears, nothing of the source is written
		return extension.NewTypographer(extension.WithTypographicSubstitutions(map[extension.TypographicPunctuation][]byte{
			extension.LeftAngleQuote: {}, extension.RightAngleQuote: {}, extension.LeftDoubleQuote: {}, extension.RightDoubleQuote: {},
			extension.LeftSingleQuote: {}, extension.RightSingleQuote: {}, extension.Apostrophe: {}, extension.Ellipsis: {}, extension.EnDash: {}, extension.EmDash: {},
		}))
	}
	if s.Rich && s.Rich2 {
		// nil disables a substitution: the source characters must then come out as ordinary (escaped) text
		return extension.NewTypographer(extension.WithTypographicSubstitutions(map[extension.TypographicPunctuation][]byte{
			extension.LeftAngleQuote: nil, extension.RightAngleQuote: nil, extension.LeftDoubleQuote: nil, extension.RightDoubleQuote: nil,
			extension.Apostrophe: nil, extension.EnDash: []byte("&ndash;"), extension.EmDash: nil,
		}))
	}
	if s.Rich {
		return extension.NewTypographer(extension.WithTypographicSubstitutions(map[extension.TypographicPunctuation]string{
			extension.LeftDoubleQuote: "&laquo;", extension.RightDoubleQuote: "&raquo;", extension.Ellipsis: "&hellip;",
		}))
	}
	return extension.Typographer
}

type extenderFunc func(m goldmark.Markdown)

func (f extenderFunc) Extend(m goldmark.Markdown) { f(m) }

func (s Spec) single(name string) goldmark.Extender {
	switch name {
	case SLinkify:
		return s.linkify()
	case STable:
		return s.table()
	case SStrikethrough:
		return extension.Strikethrough
	case STaskList:
		return extension.TaskList
	case SFootnote:
		return s.footnote()
	case SDefList:
		return extension.DefinitionList
	case STypographer:
		return s.typographer()
	case STableParts:
		return extenderFunc(func(m goldmark.Markdown) {
			m.Parser().AddOptions(parser.WithParagraphTransformers(util.Prioritized(extension.NewTableParagraphTransformer(), 200)))
			m.Renderer().AddOptions(renderer.WithNodeRenderers(util.Prioritized(extension.NewTableHTMLRenderer(), 500)))
		})
	case STypographerUTF8:
		return extension.NewTypographer(extension.WithTypographicSubstitutions(map[extension.TypographicPunctuation]string{
			extension.LeftSingleQuote: "‘", extension.RightSingleQuote: "’", extension.LeftDoubleQuote: "“", extension.RightDoubleQuote: "”", extension.EnDash: "–", extension.EmDash: "—",
			extension.Ellipsis: "…", extension.LeftAngleQuote: "«", extension.RightAngleQuote: "»", extension.Apostrophe: "’",
		}))
	case SCJKSimple:
		return s.cjk(extension.EastAsianLineBreaksSimple, true)
	case SCJKSimpleNoEsc:
		return s.cjk(extension.EastAsianLineBreaksSimple, false)
	case SCJKCSS3:
		return s.cjk(extension.EastAsianLineBreaksCSS3Draft, false)
	case SCJKEsc:
		return s.cjk(extension.EastAsianLineBreaksNone, true)
	case SGFM:
		return extension.GFM
	}
	panic("unknown extension " + name)
}

// Extenders returns the extension list of the configuration.
func (s Spec) Extenders() []goldmark.Extender {
	if s.Only != nil {
		var out []goldmark.Extender
		for _, n := range s.Only {
			out = append(out, s.single(n))
		}
		return out
	}
	gfm := func() []goldmark.Extender {
		if s.PinTableAlign || s.Rich {
			return []goldmark.Extender{s.linkify(), s.table(), extension.Strikethrough, extension.TaskList}
		}
		return []goldmark.Extender{extension.GFM}
	}
	switch s.Ext {
	case ExtCore:
		return nil
	case ExtGFM:
		return gfm()
	case ExtDefList:
		return []goldmark.Extender{extension.DefinitionList}
	case ExtFootnote:
		return []goldmark.Extender{s.footnote()}
	case ExtTypographer:
		return []goldmark.Extender{s.typographer()}
	case ExtCJKSimple:
		return []goldmark.Extender{s.cjk(extension.EastAsianLineBreaksSimple, false)}
	case ExtCJKCSS3:
		return []goldmark.Extender{s.cjk(extension.EastAsianLineBreaksCSS3Draft, false)}
	case ExtCJKEscSpace:
		return []goldmark.Extender{s.cjk(extension.EastAsianLineBreaksNone, true)}
	case ExtAll:
		out := gfm()
		out = append(out, extension.DefinitionList, s.footnote(), s.typographer(),
			s.cjk(extension.EastAsianLineBreaksSimple, true))
		return out
	}
	panic("bad ext")
}

// ParserOptions returns the parser options of the configuration.
func (s Spec) ParserOptions() []parser.Option {
	var po []parser.Option
	if s.AutoHeadingID {
		po = append(po, parser.WithAutoHeadingID())
	}
	if s.Attribute {
		po = append(po, parser.WithAttribute())
	}
	if s.Rich && s.Rich3 && s.HasExt(STypographer) {
		// options of an extension given through the parser-option route, on top of the extension's shared default value
		po = append(po, extension.WithTypographicSubstitutions(map[extension.TypographicPunctuation]string{
			extension.LeftDoubleQuote: "&laquo;", extension.RightDoubleQuote: "&raquo;", extension.EnDash: "&minus;", extension.Apostrophe: "&prime;"}))
	}
	if s.Rich && s.Rich3 && s.HasExt(SLinkify) {
		po = append(po, extension.WithLinkifyAllowedProtocols([]string{"http:", "https:", "gopher:"}))
	}
	return po
}

// RendererOptions returns the renderer options of the configuration.
func (s Spec) RendererOptions() []goldmark.Option {
	var out []goldmark.Option
	if s.Unsafe {
		out = append(out, goldmark.WithRendererOptions(html.WithUnsafe()))
	}
	if s.XHTML {
		out = append(out, goldmark.WithRendererOptions(html.WithXHTML()))
	}
	if s.HardWraps {
		out = append(out, goldmark.WithRendererOptions(html.WithHardWraps()))
	}
	if s.Rich && s.Rich3 {
		// (byte slices with spare capacity, as a caller has who builds the prefix by appending)
		out = append(out, goldmark.WithRendererOptions(extension.WithFootnoteIDPrefix(append(make([]byte, 0, 128), "page7-"...)),
			extension.WithFootnoteIDPrefixFunction(func(ast.Node) []byte { return []byte("fn-of-the-function-") })))
		if !s.PinTableAlign {
			out = append(out, goldmark.WithRendererOptions(extension.WithTableCellAlignMethod(extension.TableCellAlignStyle)))
		}
	}
	return out
}

// Build creates a fresh goldmark instance.
func (s Spec) Build() goldmark.Markdown {
	if s.HeadingRoute {
		var ho []parser.HeadingOption
		if s.AutoHeadingID {
			ho = append(ho, parser.WithAutoHeadingID())
		}
		if s.Attribute {
			ho = append(ho, parser.WithHeadingAttribute())
		}
		bps := parser.DefaultBlockParsers()
		for i, bp := range bps {
			switch bp.Priority {
			case 100:
				bps[i] = util.Prioritized(parser.NewSetextHeadingParser(ho...), 100)
			case 600:
				bps[i] = util.Prioritized(parser.NewATXHeadingParser(ho...), 600)
			}
		}
		p := parser.NewParser(parser.WithBlockParsers(bps...), parser.WithInlineParsers(parser.DefaultInlineParsers()...), parser.WithParagraphTransformers(parser.DefaultParagraphTransformers()...))
		return goldmark.New(append([]goldmark.Option{goldmark.WithParser(p)}, s.RendererOptions()...)...)
	}
	if s.Direct {
		var ho []html.Option
		if s.Unsafe {
			ho = append(ho, html.WithUnsafe())
		}
		if s.XHTML {
			ho = append(ho, html.WithXHTML())
		}
		if s.HardWraps {
			ho = append(ho, html.WithHardWraps())
		}
		if s.Rev {
			for i, j := 0, len(ho)-1; i < j; i, j = i+1, j-1 {
				ho[i], ho[j] = ho[j], ho[i]
			}
		}
		opts := []goldmark.Option{goldmark.WithRenderer(renderer.NewRenderer(renderer.WithNodeRenderers(util.Prioritized(html.NewRenderer(ho...), 1000))))}
		if po := s.ParserOptions(); po != nil {
			opts = append(opts, goldmark.WithParserOptions(po...))
		}
		return goldmark.New(opts...)
	}
	opts := []goldmark.Option{goldmark.WithExtensions(s.Extenders()...)}
	if po := s.ParserOptions(); po != nil {
		opts = append(opts, goldmark.WithParserOptions(po...))
	}
	opts = append(opts, s.RendererOptions()...)
	return goldmark.New(opts...)
}

// HasExt reports whether the configuration includes a given single extension.
func (s Spec) HasExt(name string) bool {
	if s.Only != nil {
		for _, n := range s.Only {
			if n == name {
				return true
			}
			if n == SGFM && (name == SLinkify || name == STable || name == SStrikethrough || name == STaskList) {
				return true
			}
		}
		return false
	}
	switch s.Ext {
	case ExtAll:
		return name != SCJKCSS3
	case ExtGFM:
		return name == SLinkify || name == STable || name == SStrikethrough || name == STaskList
	case ExtDefList:
		return name == SDefList
	case ExtFootnote:
		return name == SFootnote
	case ExtTypographer:
		return name == STypographer || name == STypographerUTF8
	case ExtCJKSimple:
		return name == SCJKSimple
	case ExtCJKCSS3:
		return name == SCJKCSS3
	case ExtCJKEscSpace:
		return name == SCJKEsc
	}
	return false
}

// All returns the full lattice: 9 extension sets x 4 parser options x 8 renderer flag sets = 288.
func All() []Spec {
	var out []Spec
	for e := 0; e < NExt; e++ {
		for po := 0; po < 4; po++ {
			for rf := 0; rf < 8; rf++ {
				out = append(out, Spec{Ext: e, AutoHeadingID: po&1 != 0, Attribute: po&2 != 0,
					Unsafe: rf&1 != 0, XHTML: rf&2 != 0, HardWraps: rf&4 != 0})
			}
		}
	}
	return out
}

// RichSpecs returns configurations whose extensions are built with non-default options: the four extension sets that
// have options x {no parser option, both} x {safe HTML5, unsafe XHTML+HardWraps}.
func RichSpecs() []Spec {
	var out []Spec
	for _, e := range []int{ExtGFM, ExtFootnote, ExtTypographer, ExtAll} {
		for _, po := range []bool{false, true} {
			out = append(out, Spec{Ext: e, Rich: true, AutoHeadingID: po, Attribute: po},
				Spec{Ext: e, Rich: true, AutoHeadingID: po, Attribute: po, Unsafe: true, XHTML: true, HardWraps: true})
		}
	}
	// the second option variant, and renderer flags given to html.NewRenderer directly
	out = append(out, Spec{Ext: ExtTypographer, Rich: true, Rich2: true}, Spec{Ext: ExtTypographer, Rich: true, Rich2: true, XHTML: true, Attribute: true},
		Spec{Ext: ExtAll, Rich: true, Rich2: true, AutoHeadingID: true}, Spec{Ext: ExtGFM, Rich: true, Rich2: true, Unsafe: true},
		Spec{Ext: ExtCore, Direct: true}, Spec{Ext: ExtCore, Direct: true, XHTML: true, HardWraps: true}, Spec{Ext: ExtCore, Direct: true, Unsafe: true, Attribute: true})
	// options that arrive both through the extension's constructor and as renderer options
	out = append(out, Spec{Ext: ExtFootnote, Rich: true, Rich3: true}, Spec{Ext: ExtAll, Rich: true, Rich3: true, XHTML: true, AutoHeadingID: true},
		Spec{Ext: ExtGFM, Rich: true, Rich3: true})
	// an empty static prefix next to a prefix function
	out = append(out, Spec{Ext: ExtFootnote, Rich: true, Rich4: true}, Spec{Ext: ExtAll, Rich: true, Rich4: true, XHTML: true})
	return out
}

// ParserSide returns the 36 configurations that differ on the parser side.
func ParserSide() []Spec {
	var out []Spec
	for e := 0; e < NExt; e++ {
		for po := 0; po < 4; po++ {
			out = append(out, Spec{Ext: e, AutoHeadingID: po&1 != 0, Attribute: po&2 != 0})
		}
	}
	return out
}

// Safe returns all safe-mode configurations (Unsafe off): 9 x 4 x {HTML5, XHTML} x {HardWraps} = 144.
func Safe() []Spec {
	var out []Spec
	for _, s := range All() {
		if !s.Unsafe {
			out = append(out, s)
		}
	}
	return out
}

// Pool lazily builds and keeps instances, so that every check also exercises long-lived instances.
type Pool struct {
	m map[string]goldmark.Markdown
}

// NewPool creates an instance pool.
func NewPool() *Pool { return &Pool{m: map[string]goldmark.Markdown{}} }

// Get returns the long-lived instance of a configuration.
func (p *Pool) Get(s Spec) goldmark.Markdown {
	n := s.Name()
	if md, ok := p.m[n]; ok {
		return md
	}
	md := s.Build()
	p.m[n] = md
	return md
}

// Parse converts a configuration name produced by Name back into a Spec.
func Parse(name string) (Spec, bool) {
	parts := strings.Split(name, ",")
	var s Spec
	head := parts[0]
	if strings.HasPrefix(head, "only[") && strings.HasSuffix(head, "]") {
		inner := head[5 : len(head)-1]
		s.Only = []string{}
		if inner != "" {
			s.Only = strings.Split(inner, "+")
		}
	} else {
		found := false
		for i, n := range extNames {
			if n == head {
				s.Ext = i
				found = true
			}
		}
		if !found {
			return s, false
		}
	}
	for _, p := range parts[1:] {
		switch {
		case p == "autoid":
			s.AutoHeadingID = true
		case p == "attr":
			s.Attribute = true
		case p == "unsafe":
			s.Unsafe = true
		case p == "xhtml":
			s.XHTML = true
		case p == "hardwraps":
			s.HardWraps = true
		case p == "noealb":
			s.NoEALB = true
		case p == "align=attr":
			s.PinTableAlign, s.TableAlign = true, extension.TableCellAlignAttribute
		case p == "align=style":
			s.PinTableAlign, s.TableAlign = true, extension.TableCellAlignStyle
		case p == "align=none":
			s.PinTableAlign, s.TableAlign = true, extension.TableCellAlignNone
		case p == "align=default":
			s.PinTableAlign, s.TableAlign = true, extension.TableCellAlignDefault
		case strings.HasPrefix(p, "fnpfx="):
			s.FootnotePfx = p[6:]
		case p == "rich":
			s.Rich = true
		case p == "rich2":
			s.Rich2 = true
		case p == "rich3":
			s.Rich3 = true
		case p == "rich4":
			s.Rich4 = true
		case p == "headingroute":
			s.HeadingRoute = true
		case p == "rev":
			s.Rev = true
		case p == "direct":
			s.Direct = true
		default:
			return s, false
		}
	}
	return s, true
}
