package core

import (
	"bytes"
	"testing"
)

func TestMinimize(t *testing.T) {
	in := []byte("line one\nxx NEEDLE yy\nline three\nline four\n")
	out := Minimize(in, func(b []byte) bool { return bytes.Contains(b, []byte("NEEDLE")) }, 2000)
	if string(out) != "NEEDLE" {
		t.Fatalf("Minimize = %q", out)
	}
}

func TestSeedFor(t *testing.T) {
	if SeedFor(1, "a", 0) == SeedFor(1, "a", 1) || SeedFor(1, "a", 0) == SeedFor(2, "a", 0) || SeedFor(1, "a", 0) != SeedFor(1, "a", 0) {
		t.Fatal("SeedFor")
	}
}
