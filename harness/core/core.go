// Package core is the shared run-time of the monitors: worker context, violation
// records, statistics, crash slot, watchdog and delta minimisation.
package core

import (
	"bufio"
	"encoding/binary"
	"encoding/json"
	"fmt"
	"hash/fnv"
	"math/rand"
	"os"
	"runtime"
	"runtime/debug"
	"sort"
	"sync"
	"sync/atomic"
	"syscall"
	"time"
)

// Violation is one refuting observation.
type Violation struct {
	Property string `json:"property"`
	Class    string `json:"class"`           // machine-readable kind of refutation
	Locus    string `json:"locus,omitempty"` // where/why, computed from the failing execution (known-finding matching)
	Config   string `json:"config,omitempty"`
	Input    []byte `json:"input_b64,omitempty"`
	InputQ   string `json:"input_quoted,omitempty"`
	Script   any    `json:"script,omitempty"` // operation sequence / history for model-based checks
	Detail   string `json:"detail,omitempty"`
	Seed     int64  `json:"seed"`
	Tier     string `json:"tier"`
	Count    int64  `json:"occurrences,omitempty"`
}

// Key identifies a violation group.
func (v *Violation) Key() string { return v.Class + "|" + v.Locus }

// Summary is what a worker reports at the end of its shard.
type Summary struct {
	Shard      int                         `json:"shard"`
	Evals      int64                       `json:"evals"`
	Counters   map[string]int64            `json:"counters"`
	Sets       map[string]map[string]int64 `json:"sets"`
	Samples    []any                       `json:"samples"`
	SigFile    string                      `json:"sig_file"`
	SigDropped int64                       `json:"sig_dropped"`
	Violations []*Violation                `json:"violations"`
	Notes      []string                    `json:"notes,omitempty"`
	Done       bool                        `json:"done"`
}

// Ctx is handed to a property's Run function inside a worker process.
type Ctx struct {
	Prop    string
	Tier    string
	Seed    int64
	Shard   int
	NShards int
	Rng     *rand.Rand
	WorkDir string
	Repo    string

	mu       sync.Mutex
	evals    int64
	counters map[string]int64
	sets     map[string]map[string]int64
	sigs     map[uint64]struct{}
	sigDrop  int64
	samples  []any
	viol     map[string]*Violation
	violN    int
	notes    []string

	slot      []byte
	beat      int64 // unix nanos of last Begin
	inCase    int32
	HangLimit time.Duration
	CPULimit  float64 // CPU seconds one case may consume before the watchdog ends the worker
}

const maxSigs = 400000
const slotSize = 1 << 20

// SeedFor derives a sub-seed from the run seed, a label and a number.
func SeedFor(seed int64, label string, n int) int64 {
	h := fnv.New64a()
	var b [16]byte
	binary.LittleEndian.PutUint64(b[:8], uint64(seed))
	binary.LittleEndian.PutUint64(b[8:], uint64(n))
	h.Write(b[:])
	h.Write([]byte(label))
	return int64(h.Sum64() & 0x7fffffffffffffff)
}

// NewCtx creates a worker context; slotPath may be empty (no crash slot).
func NewCtx(prop, tier string, seed int64, shard, nshards int, workDir, repo string) *Ctx {
	c := &Ctx{Prop: prop, Tier: tier, Seed: seed, Shard: shard, NShards: nshards, WorkDir: workDir, Repo: repo,
		counters: map[string]int64{}, sets: map[string]map[string]int64{}, sigs: map[uint64]struct{}{},
		viol: map[string]*Violation{}, HangLimit: 15 * time.Minute}
	c.Rng = rand.New(rand.NewSource(SeedFor(seed, prop, shard)))
	if workDir != "" {
		p := fmt.Sprintf("%s/slot%d", workDir, shard)
		f, err := os.OpenFile(p, os.O_RDWR|os.O_CREATE|os.O_TRUNC, 0o644)
		if err == nil {
			if f.Truncate(slotSize) == nil {
				m, err := syscall.Mmap(int(f.Fd()), 0, slotSize, syscall.PROT_READ|syscall.PROT_WRITE, syscall.MAP_SHARED)
				if err == nil {
					c.slot = m
				}
			}
			f.Close()
		}
	}
	return c
}

// Quick reports whether this is the quick tier.
func (c *Ctx) Quick() bool { return c.Tier != "thorough" }

// N picks a size by tier.
func (c *Ctx) N(quick, thorough int) int {
	if c.Quick() {
		return quick
	}
	return thorough
}

// PerShard divides a total number of random cases among shards.
func (c *Ctx) PerShard(total int) int {
	n := total / c.NShards
	if n < 1 {
		n = 1
	}
	return n
}

// Mine tells whether enumerated case i belongs to this shard.
func (c *Ctx) Mine(i int) bool { return i%c.NShards == c.Shard }

// Begin records the case about to be executed in the crash slot and feeds the watchdog.
func (c *Ctx) Begin(config string, input []byte) {
	atomic.StoreInt64(&c.beat, time.Now().UnixNano())
	atomic.StoreInt32(&c.inCase, 1)
	if c.slot == nil {
		return
	}
	s := c.slot
	n := len(input)
	if n > slotSize-512 {
		n = slotSize - 512
	}
	cl := len(config)
	if cl > 255 {
		cl = 255
	}
	// layout: [0:4] len(input) (written last), [4] len(config), [8:8+cl] config, [264:264+n] input
	binary.LittleEndian.PutUint32(s[0:4], 0xffffffff)
	s[4] = byte(cl)
	copy(s[8:8+cl], config[:cl])
	copy(s[264:264+n], input[:n])
	binary.LittleEndian.PutUint32(s[0:4], uint32(n))
}

// End marks the end of a case (watchdog idle).
func (c *Ctx) End() { atomic.StoreInt32(&c.inCase, 0) }

// ReadSlot decodes a crash slot file.
func ReadSlot(path string) (config string, input []byte, ok bool) {
	b, err := os.ReadFile(path)
	if err != nil || len(b) < 264 {
		return "", nil, false
	}
	n := binary.LittleEndian.Uint32(b[0:4])
	if n == 0xffffffff || int(n) > len(b)-264 {
		return "", nil, false
	}
	cl := int(b[4])
	return string(b[8 : 8+cl]), append([]byte(nil), b[264:264+int(n)]...), true
}

// Eval counts one execution of the real code under the oracle.
func (c *Ctx) Eval() { c.evals++ }

// Evals adds n executions.
func (c *Ctx) Evals(n int) { c.evals += int64(n) }

// Sig records the signature of a non-trivial case (for distinct_nontrivial).
func (c *Ctx) Sig(h uint64) {
	if _, ok := c.sigs[h]; ok {
		return
	}
	if len(c.sigs) >= maxSigs {
		c.sigDrop++
		return
	}
	c.sigs[h] = struct{}{}
}

// Count adds to a named counter.
func (c *Ctx) Count(name string, d int64) { c.counters[name] += d }

// Max keeps the maximum of a named counter.
func (c *Ctx) Max(name string, v int64) {
	if v > c.counters["max:"+name] {
		c.counters["max:"+name] = v
	}
}

// Observe adds a value to a named set (with multiplicity).
func (c *Ctx) Observe(set, val string) {
	m := c.sets[set]
	if m == nil {
		m = map[string]int64{}
		c.sets[set] = m
	}
	if len(m) >= 5000 {
		if _, ok := m[val]; !ok {
			return
		}
	}
	m[val]++
}

// Sample keeps a few concrete cases for the evidence file.
func (c *Ctx) Sample(v any) {
	if len(c.samples) < 6 {
		c.samples = append(c.samples, v)
	}
}

// WantSample reports whether more samples are wanted.
func (c *Ctx) WantSample() bool { return len(c.samples) < 6 }

// Note records a free-text note for the driver.
func (c *Ctx) Note(s string) { c.notes = append(c.notes, s) }

// Seen reports whether a violation group was already recorded.
func (c *Ctx) Seen(class, locus string) bool {
	_, ok := c.viol[class+"|"+locus]
	return ok
}

// Saturated reports that so many refuting observations were recorded that the verdict of this worker is settled;
// long workloads may stop early (a broken tree can make every further case slow).
func (c *Ctx) Saturated() bool { return c.violN >= 5000 }

// Violation records a refuting observation (grouped by class+locus; first witness kept, smaller witness replaces).
func (c *Ctx) Violation(v *Violation) {
	c.violN++
	v.Property = c.Prop
	v.Seed = c.Seed
	v.Tier = c.Tier
	if v.Input != nil && v.InputQ == "" {
		q := fmt.Sprintf("%q", v.Input)
		if len(q) > 600 {
			q = q[:600] + "…"
		}
		v.InputQ = q
	}
	k := v.Key()
	if old, ok := c.viol[k]; ok {
		old.Count++
		if v.Input != nil && len(v.Input) < len(old.Input) {
			v.Count = old.Count
			c.viol[k] = v
		}
		return
	}
	if len(c.viol) >= 200 {
		c.counters["violations_dropped"]++
		return
	}
	v.Count = 1
	c.viol[k] = v
}

// Finish builds the worker's summary and writes the signature file.
func (c *Ctx) Finish() *Summary {
	s := &Summary{Shard: c.Shard, Evals: c.evals, Counters: c.counters, Sets: c.sets, Samples: c.samples,
		SigDropped: c.sigDrop, Notes: c.notes, Done: true}
	keys := make([]string, 0, len(c.viol))
	for k := range c.viol {
		keys = append(keys, k)
	}
	sort.Strings(keys)
	for _, k := range keys {
		s.Violations = append(s.Violations, c.viol[k])
	}
	if c.WorkDir != "" {
		p := fmt.Sprintf("%s/sigs%d.bin", c.WorkDir, c.Shard)
		f, err := os.Create(p)
		if err == nil {
			w := bufio.NewWriter(f)
			var b [8]byte
			for h := range c.sigs {
				binary.LittleEndian.PutUint64(b[:], h)
				w.Write(b[:])
			}
			w.Flush()
			f.Close()
			s.SigFile = p
		}
	}
	return s
}

// NSigs returns the number of distinct signatures so far.
func (c *Ctx) NSigs() int { return len(c.sigs) }

// CPUSeconds returns the CPU time consumed by this process so far.
func CPUSeconds() float64 {
	var ru syscall.Rusage
	if syscall.Getrusage(syscall.RUSAGE_SELF, &ru) != nil {
		return 0
	}
	return float64(ru.Utime.Sec+ru.Stime.Sec) + float64(ru.Utime.Usec+ru.Stime.Usec)/1e6
}

// StartWatchdog exits the process (code 3, goroutine dump on stderr) when a single case has consumed more than
// CPULimit seconds of CPU time (insensitive to machine load), or - as a generous backup only - has been running for
// longer than HangLimit of wall time. The driver then replays that case alone and decides on its CPU time.
func (c *Ctx) StartWatchdog() {
	if c.CPULimit == 0 {
		c.CPULimit = 100
	}
	go func() {
		var last int64
		var cpu0 float64
		var wall0 time.Time
		for {
			time.Sleep(500 * time.Millisecond)
			if atomic.LoadInt32(&c.inCase) == 0 {
				last = 0
				continue
			}
			b := atomic.LoadInt64(&c.beat)
			if b != last {
				last, cpu0, wall0 = b, CPUSeconds(), time.Now()
				continue
			}
			used := CPUSeconds() - cpu0
			if used > c.CPULimit || time.Since(wall0) > c.HangLimit {
				fmt.Fprintf(os.Stderr, "WATCHDOG: case has used %.0f CPU-s (limit %.0f) in %v of wall time (backup limit %v)\n", used, c.CPULimit, time.Since(wall0).Round(time.Second), c.HangLimit)
				buf := make([]byte, 1<<16)
				n := runtime.Stack(buf, true)
				os.Stderr.Write(buf[:n])
				os.Exit(3)
			}
		}
	}()
}

// Hash64 hashes bytes (FNV-1a).
func Hash64(parts ...[]byte) uint64 {
	h := fnv.New64a()
	for _, p := range parts {
		h.Write(p)
		h.Write([]byte{0xff})
	}
	return h.Sum64()
}

// HashStr hashes strings.
func HashStr(parts ...string) uint64 {
	h := fnv.New64a()
	for _, p := range parts {
		h.Write([]byte(p))
		h.Write([]byte{0xff})
	}
	return h.Sum64()
}

// Try runs f and converts a panic into (value, stack).
func Try(f func()) (pv any, stack []byte) {
	defer func() {
		if r := recover(); r != nil {
			pv = r
			stack = debug.Stack()
		}
	}()
	f()
	return nil, nil
}

// WriteJSON writes v as one JSON line.
func WriteJSON(w *bufio.Writer, v any) {
	b, err := json.Marshal(v)
	if err != nil {
		b, _ = json.Marshal(map[string]string{"marshal_error": err.Error()})
	}
	w.Write(b)
	w.WriteByte('\n')
}

// Minimize shrinks input while bad(input) stays true (line-level then byte-level ddmin, bounded).
func Minimize(input []byte, bad func([]byte) bool, budget int) []byte {
	cur := append([]byte(nil), input...)
	calls := 0
	try := func(cand []byte) bool {
		if calls >= budget {
			return false
		}
		calls++
		return bad(cand)
	}
	// line level
	split := func(b []byte) [][]byte {
		var out [][]byte
		st := 0
		for i, ch := range b {
			if ch == '\n' {
				out = append(out, b[st:i+1])
				st = i + 1
			}
		}
		if st < len(b) {
			out = append(out, b[st:])
		}
		return out
	}
	join := func(ls [][]byte, skipFrom, skipTo int) []byte {
		var out []byte
		for i, l := range ls {
			if i >= skipFrom && i < skipTo {
				continue
			}
			out = append(out, l...)
		}
		return out
	}
	for chunk := 8; chunk >= 1; chunk /= 2 {
		changed := true
		for changed && calls < budget {
			changed = false
			ls := split(cur)
			for i := 0; i+chunk <= len(ls); i++ {
				cand := join(ls, i, i+chunk)
				if len(cand) < len(cur) && try(cand) {
					cur = cand
					changed = true
					break
				}
			}
		}
	}
	// byte level
	for chunk := 16; chunk >= 1; chunk /= 2 {
		changed := true
		for changed && calls < budget {
			changed = false
			for i := 0; i+chunk <= len(cur); i++ {
				cand := append(append([]byte(nil), cur[:i]...), cur[i+chunk:]...)
				if try(cand) {
					cur = cand
					changed = true
					break
				}
			}
		}
	}
	return cur
}
